use rre_verif::c05::*;
use rre_verif::core::*;
use rre_verif::runner::*;
use std::time::Instant;

fn target(name: &str) -> Target {
    *ALL_TARGETS.iter().find(|t| t.name() == name).unwrap_or_else(|| panic!("unknown target {}", name))
}

fn site_of(t: Target, text: &str) -> Option<String> {
    match call_on_8mib(t, text) {
        Ok(_) => None,
        Err(p) => Some(p.split(": ").next().unwrap_or("?").to_string()),
    }
}

fn ddmin(t: Target, text: &str, site: &str) -> String {
    let mut cur: Vec<char> = text.chars().collect();
    let mut chunk = (cur.len() / 2).max(1);
    loop {
        let mut changed = false;
        let mut i = 0;
        while i < cur.len() {
            let end = (i + chunk).min(cur.len());
            let cand: String = cur[..i].iter().chain(cur[end..].iter()).collect();
            if site_of(t, &cand).as_deref() == Some(site) {
                cur = cand.chars().collect();
                changed = true;
            } else {
                i += chunk;
            }
        }
        if chunk == 1 && !changed {
            break;
        }
        if !changed {
            chunk = (chunk / 2).max(1);
        }
    }
    // simplify characters: try replacing each by 'a' / ' '
    for i in 0..cur.len() {
        for r in ['a', ' ', '1'] {
            if cur[i] == r || !cur[i].is_ascii() { continue; }
            let mut c2 = cur.clone();
            c2[i] = r;
            let cand: String = c2.iter().collect();
            if cur[i].is_ascii_alphabetic() && r == 'a' && site_of(t, &cand).as_deref() == Some(site) {
                cur = c2;
                break;
            }
        }
    }
    cur.into_iter().collect()
}

fn main() {
    install_panic_hook();
    let a: Vec<String> = std::env::args().collect();
    match a[1].as_str() {
        "decode" => {
            let rf = load_replay(std::path::Path::new(&a[2])).unwrap();
            let r = match &rf.data {
                CaseData::Bytes(b) => decode_case(&rf.part, &mut Src::bytes(b), rf.exh),
                CaseData::Choices(c) => decode_case(&rf.part, &mut Src::choices(c), rf.exh),
            };
            let (t, text) = r.expect("unknown part");
            eprintln!("target={} len={}", t.name(), text.len());
            if a.len() > 3 {
                std::fs::write(&a[3], &text).unwrap();
            } else {
                println!("{}", text);
            }
        }
        "run" => {
            let t = target(&a[2]);
            let text = std::fs::read_to_string(&a[3]).unwrap();
            let t0 = Instant::now();
            let r = call_on_8mib(t, &text);
            println!("{:?} in {:?}", r, t0.elapsed());
        }
        "min" => {
            let t = target(&a[2]);
            let text = std::fs::read_to_string(&a[3]).unwrap();
            let site = if a.len() > 4 { a[4].clone() } else { site_of(t, &text).expect("does not panic") };
            let m = ddmin(t, &text, &site);
            eprintln!("site={} minimized {} -> {} bytes", site, text.len(), m.len());
            println!("{:?}", m);
            std::fs::write(format!("{}.min", a[3]), &m).unwrap();
        }
        // mkwitness <target> <textfile> <out.json> <finding-note>
        "mkwitness" => {
            let t = target(&a[2]);
            let text = std::fs::read_to_string(&a[3]).unwrap();
            let ti = ALL_TARGETS.iter().position(|x| *x == t).unwrap();
            let mut ch: Vec<u32> = vec![ti as u32, text.len() as u32];
            ch.extend(text.bytes().map(|b| b as u32));
            let data = CaseData::Choices(ch.clone());
            let (v, ctx) = exec_case(run_text, &data, 0, false, true, true);
            let (sig, detail) = match v { Verdict::Fail { sig, detail } => (sig, detail), o => (format!("{:?}", o), String::new()) };
            let desc = ctx.desc.unwrap_or_default();
            let j = serde_json::json!({"property":"C05","part":"text","kind":"choices","data":ch,"exh":0,"no_exclusions":true,"expect":"known",
                "sig":sig,"detail":detail,"case":desc,"case_fnv1a":format!("{:016x}", fnv1a(&desc)),"note":a.get(5).cloned().unwrap_or_default()});
            std::fs::write(&a[4], serde_json::to_string_pretty(&j).unwrap()).unwrap();
            println!("{} sig={}", a[4], sig);
        }
        // sites <target> <dir>: run every file of a directory, print the panic site histogram
        "sites" => {
            let t = target(&a[2]);
            let mut h = std::collections::BTreeMap::<String, (usize, String)>::new();
            for e in std::fs::read_dir(&a[3]).unwrap().flatten() {
                let b = std::fs::read(e.path()).unwrap();
                let text = String::from_utf8_lossy(&b).into_owned();
                if let Some(s) = site_of(t, &text) {
                    let x = h.entry(s).or_insert((0, e.path().display().to_string()));
                    x.0 += 1;
                }
            }
            for (k, v) in h { println!("{} {} {}", k, v.0, v.1); }
        }
        // rx <pattern> <file>: time rexile captures() on the file's text
        "rx" => {
            let pat = rexile::Pattern::new(&a[2]).unwrap();
            let text = std::fs::read_to_string(&a[3]).unwrap();
            let t0 = Instant::now();
            let r = catch(|| pat.captures(&text).map(|c| c.get(0).map(|x| x.len())));
            println!("{:?} in {:?}", r, t0.elapsed());
        }
        // rxm <pattern> <text>: show find_iter offsets and captures
        "rxm" => {
            let pat = rexile::Pattern::new(&a[2]).unwrap();
            let text = a[3].clone();
            for m in pat.find_iter(&text) {
                println!("find_iter: {}..{} -> {:?}", m.start(), m.end(), text.get(m.start()..m.end()));
            }
            println!("find: {:?}", pat.find(&text));
            let r = catch(|| pat.captures(&text).map(|c| (0..4).map(|i| c.get(i).map(|x| x.to_string())).collect::<Vec<_>>()));
            println!("captures: {:?}", r);
            let r = catch(|| pat.replace_all(&text, "_").to_string());
            println!("replace_all: {:?}", r);
            let r = catch(|| pat.is_match(&text));
            println!("is_match: {:?}", r);
        }
        "seeds" => {
            for t in ALL_TARGETS {
                for sd in seeds(t.lang()) {
                    let t0 = Instant::now();
                    let r = call_on_8mib(t, sd);
                    println!("{:<20} {:>4}B {:?} {:?} {:?}", t.name(), sd.len(), r, t0.elapsed(), &sd[..sd.len().min(40)]);
                }
            }
        }
        // export <fuzzdir>: seeds/<lang>/*.txt and dict/<lang>.dict from the module's seeds and vocabulary
        "export" => {
            let root = std::path::Path::new(&a[2]);
            let langs = [(Lang::Grl, "grl"), (Lang::BExpr, "bexpr"), (Lang::GrlQ, "grlq"), (Lang::Agg, "agg"), (Lang::Disj, "disj"), (Lang::Nest, "nest"), (Lang::Stream, "stream"), (Lang::Eval, "eval")];
            for (l, name) in langs {
                let d = root.join("seeds").join(name);
                std::fs::create_dir_all(&d).unwrap();
                for (i, sd) in seeds(l).iter().enumerate() {
                    std::fs::write(d.join(format!("seed_{:02}.txt", i)), sd).unwrap();
                }
                std::fs::create_dir_all(root.join("dict")).unwrap();
                let mut out = String::from("# libFuzzer dictionary generated from the vocabulary of harness/src/c05.rs\n");
                let mut seen = std::collections::BTreeSet::new();
                for tok in vocab(l).iter().chain(MB.iter()) {
                    if tok.is_empty() || !seen.insert(tok.to_string()) { continue; }
                    let mut esc = String::new();
                    for b in tok.bytes() {
                        match b {
                            b'"' => esc.push_str("\\\""),
                            b'\\' => esc.push_str("\\\\"),
                            0x20..=0x7e => esc.push(b as char),
                            _ => esc.push_str(&format!("\\x{:02x}", b)),
                        }
                    }
                    out.push_str(&format!("\"{}\"\n", esc));
                }
                std::fs::write(root.join("dict").join(format!("{}.dict", name)), out).unwrap();
            }
        }
        _ => eprintln!("usage"),
    }
}
