#!/usr/bin/env python3
"""Prints the brief for an independent 'seeded change' sub-agent: it sees only the property text."""
import json, sys
pid, k = sys.argv[1], sys.argv[2]
hint = sys.argv[3] if len(sys.argv) > 3 else ""
prop = [json.loads(l) for l in open('/verif/properties.jsonl') if json.loads(l)['id'] == pid][0]
W = f"/tmp/seed_{pid}_{k}"
print(f"""You are a software engineer asked to plant ONE realistic, subtle regression in the Rust crate `rust-rule-engine`
(a business-rule engine: GRL parser, forward chaining, RETE engine, backward chaining, stream processing).
You work ONLY in your own scratch git worktree. Do not read or touch /verif or /repo's working tree (other than through the git command below).

Setup (run first):
    git -C /repo worktree add --detach {W} HEAD
    cd {W}
The crate builds offline: `cargo build --offline`, `cargo test --workspace --no-fail-fast --offline` (199 tests + 6 doctests pass on the unchanged tree;
feature-gated code needs `--features streaming,backward-chaining`, e.g. `cargo test --offline --features streaming,backward-chaining <filter>`).

The property your change must BREAK (this text is all you are given about it):

    id: {prop['id']}
    title: {prop['title']}
    statement: {prop['statement']}
    quantified over: {prop['quantifier']['text']}
    code it is anchored in: {', '.join(prop['anchors']['files'])}

Requirements for the change:
1. It is a small source change (typically 1-15 lines in src/) of the kind a maintainer could make by accident during a refactoring, an optimisation or a bug fix:
   an off-by-one, a wrong comparison, a dropped update of a secondary structure, a reordered pair of statements, a condition that is too narrow or too wide, a cache that is not invalidated, ...
   No sabotage that is obviously deliberate (no magic constants, no `if name == "x"`), no changes to tests, no changes to Cargo.toml.
2. The crate still compiles (also with `--features streaming,backward-chaining`) and the existing test suite `cargo test --workspace --no-fail-fast --offline` still passes completely (verify: 205 passed, 0 failed).
3. The violation must need something SPECIFIC to manifest — a particular multi-step sequence of operations, an unusual input, a particular interleaving or timing, a fault at a particular point,
   or two cooperating sites that each look fine alone — NOT something ordinary use exposes at once. {hint}
4. Write a demonstration: a small Rust integration test file `tests/seed_demo.rs` (or an example program) in your worktree that FAILS with your change and PASSES on the unchanged code
   (check both: `git stash` / `git stash pop` is NOT allowed — other agents share the stash; instead save your patch with `git diff -- src > /tmp/seed_{pid}_{k}.patch`, run `git apply -R` to test the original, then `git apply` again).
   The demonstration must exercise the public API of the crate and fail for a reason that is a violation of the property as stated (not merely a changed debug string).

Deliverables (all under {W}/out/ — create the directory):
    patch.diff   — `git diff -- src` of your change (only src/, not the demo)
    seed_demo.rs — the demonstration (copy of tests/seed_demo.rs) and in NOTES.txt the exact command that runs it, including needed --features
    NOTES.txt    — what the change is, why it breaks the property, what it needs in order to manifest, what you ran and observed (test counts with and without the change)
Then remove build output to save disk: `rm -rf {W}/target`. Leave the worktree itself in place (the coordinator removes it).
Your final message: 5-10 lines summarising the change, the trigger it needs, and the verification you did.""")
