#!/bin/bash
# usage: witness.sh <fix-commit> <ID> <part-prefix> <corpus-name>
# Reverts one fix commit in the working tree, runs the quick check, saves the first replay of the given part
# as a corpus regression file, restores the tree.
set -u
c=$1; id=$2; part=$3; name=$4
cd /repo || exit 2
if ! git diff --quiet; then echo "/repo dirty"; exit 2; fi
trap 'git -C /repo checkout -- . 2>/dev/null' EXIT
git show "$c" | git apply -R || exit 2
cd /verif && rm -rf replays/$id && ./check $id quick | grep -A1 '^VIOLATION' | head -8
f=$(ls replays/$id/${part}-*.json 2>/dev/null | head -1)
if [ -z "$f" ]; then echo "no replay for part $part"; exit 1; fi
mkdir -p corpus/$id && cp "$f" corpus/$id/$name.json && echo "saved corpus/$id/$name.json"
