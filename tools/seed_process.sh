#!/bin/bash
# usage: seed_process.sh <ID> <k> [extra check ids...] — confirm a delivered seeded change (tools/seed_confirm.sh) and run
# the quick tier of its own property's check (plus extras) against it in isolation (tools/seed_run_iso.sh).
# Result: /tmp/seedres_<ID>_<k>.txt
id=$1; k=$2; shift 2
here="$(cd "$(dirname "$0")" && pwd)"
{
  "$here/seed_confirm.sh" "$id" "$k" 2>&1 | grep '^SEED' | tee -a /tmp/seed_confirm.log
  "$here/seed_run_iso.sh" "/tmp/seed_${id}_${k}/out/patch.diff" "${id}_${k}" quick "$id" "$@" 2>&1
} > "/tmp/seedres_${id}_${k}.txt" 2>&1
