#!/usr/bin/env python3
"""usage: seed_save.py <ID> <k> <detected:yes|no|after-strengthening> "<check/sig that caught it>" "<note>"
Copies a confirmed seeded change from /tmp/seed_<ID>_<k>/out to /verif/seeded/<ID>_<k>/ with meta.json."""
import json, sys, os, shutil, re
pid, k, det, sig, note = sys.argv[1:6]
src = f"/tmp/seed_{pid}_{k}/out"; dst = f"/verif/seeded/{pid}_{k}"
os.makedirs(dst, exist_ok=True)
for f in ("patch.diff", "seed_demo.rs", "NOTES.txt"):
    shutil.copy(os.path.join(src, f), dst)
notes = open(os.path.join(src, "NOTES.txt")).read()
conf = [l.strip() for l in open("/tmp/seed_confirm.log").read().splitlines() if l.startswith(f"SEED {pid}/{k} ")] if os.path.exists("/tmp/seed_confirm.log") else []
feat = re.search(r"--features [a-z,-]+", notes)
meta = {
    "id": f"{pid}_{k}",
    "breaks_property": pid,
    "origin": "independent sub-agent given only the property text and a scratch worktree of /repo HEAD",
    "what_it_needs_to_manifest": note,
    "confirmed_by_coordinator": {
        "procedure": "tools/seed_confirm.sh: in the scratch worktree (HEAD + patch.diff) run `cargo test --workspace --no-fail-fast --offline` without the demo, then `cargo test --offline %s --test seed_demo` with the patch and with the patch reversed" % (feat.group(0) if feat else ""),
        "results": conf,
    },
    "run_against_checks": {
        "procedure": "tools/seed_run.sh: git -C /repo apply patch.diff; ./check %s quick; git -C /repo checkout -- ." % pid,
        "detected": det,
        "by": sig,
    },
}
json.dump(meta, open(os.path.join(dst, "meta.json"), "w"), indent=1)
print("saved", dst)
