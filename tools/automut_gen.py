#!/usr/bin/env python3
"""usage: automut_gen.py <outdir> <per-property> <seed>

Systematic sensitivity sweep (not a registered check): writes small single-site mutants of the files each property is
anchored in, as patches against /repo HEAD: <outdir>/<ID>/<nnn>.diff plus <outdir>/<ID>/<nnn>.txt (what was changed).
Operators: relational (< <= > >= == !=), logical (&& ||), negated `if`, +1/-1, deleted bookkeeping statement
(.clear() .insert() .push() .remove() .retain() += -= = true/false), break/continue, true/false.
Only non-test, non-comment, non-logging lines of the anchored files; sites are sampled with the given seed."""
import json, os, random, re, subprocess, sys

out, per, seed = sys.argv[1], int(sys.argv[2]), int(sys.argv[3])
REPO = "/repo"
props = [json.loads(l) for l in open(os.path.join(os.path.dirname(os.path.abspath(__file__)), "..", "properties.jsonl"))]

# mechanisms a property is NOT about although the file is anchored (keeps the sample on target): function-name filters
ONLY_FUNCS = {
    "C01": {"src/engine/engine.rs": r"evaluate_|execute_action|get_nested|set_nested|resolve", "src/engine/rule.rs": r"evaluate|matches"},
    "C02": {"src/engine/engine.rs": r"execute_at_time|execute_with_callback|sync_workflow|activate_agenda|set_agenda_focus|reset_no_loop", "src/engine/workflow.rs": r"agenda|activate"},
    "C03": {"src/engine/engine.rs": r"execute_at_time|execute_with_callback|^execute$"},
    "C05": {},
    "C15": {},
}
SKIP_LINE = re.compile(r"^\s*(//|///|#\[|println!|eprintln!|log::|debug!|info!|warn!|trace!|use |pub use |mod |pub mod )")


def functions(lines):
    """yield (name, start, end) of fn bodies by brace counting (good enough for rustfmt-formatted code)"""
    i = 0
    n = len(lines)
    while i < n:
        m = re.match(r"\s*(pub(\([a-z]+\))?\s+)?(async\s+)?fn\s+(\w+)", lines[i])
        if m:
            depth = 0
            seen = False
            j = i
            while j < n:
                depth += lines[j].count("{") - lines[j].count("}")
                if "{" in lines[j]:
                    seen = True
                if seen and depth <= 0:
                    break
                if not seen and lines[j].rstrip().endswith(";"):
                    break
                j += 1
            yield m.group(4), i, j
            i = j + 1
        else:
            i += 1


def candidates(path, only):
    src = open(os.path.join(REPO, path)).read().split("\n")
    cut = len(src)
    for k, l in enumerate(src):
        if l.strip().startswith("#[cfg(test)]"):
            cut = k
            break
    res = []
    for name, a, b in functions(src[:cut]):
        if only and not re.search(only, name):
            continue
        if name.startswith("test_") or name in ("fmt", "default", "new", "stats", "get_stats"):
            continue
        for k in range(a + 1, b):
            l = src[k]
            if SKIP_LINE.match(l) or not l.strip():
                continue
            code = l.split("//")[0]
            if '"' in code and re.search(r'format!|message|Error|expect\(|panic!', code):
                continue
            muts = []
            for a_, b_ in [(" <= ", " < "), (" < ", " <= "), (" >= ", " > "), (" > ", " >= "), (" == ", " != "), (" != ", " == "), (" && ", " || "), (" || ", " && ")]:
                for m in re.finditer(re.escape(a_), code):
                    if a_.strip() in ("<", ">") and re.search(r"(Vec|Option|HashMap|HashSet|Result|Box|Arc|<[A-Za-z_:, ]*>)", code[max(0, m.start() - 12) : m.end() + 12]) and "if " not in code and "while " not in code and "&&" not in code and "||" not in code:
                        continue
                    muts.append((code[: m.start()] + b_ + code[m.end() :] + l[len(code) :], f"{a_.strip()} -> {b_.strip()}"))
            m = re.match(r"^(\s*)(\}?\s*else\s+)?if\s+(?!let\b)(.+)\s\{\s*$", code)
            if m:
                muts.append((f"{m.group(1)}{m.group(2) or ''}if !({m.group(3)}) {{", "negated if"))
            for m in re.finditer(r" \+ 1\b", code):
                muts.append((code[: m.start()] + " + 0" + code[m.end() :], "+ 1 -> + 0"))
            for m in re.finditer(r" - 1\b", code):
                muts.append((code[: m.start()] + " - 0" + code[m.end() :], "- 1 -> - 0"))
            if re.match(r"^\s*[\w\.\[\]\(\)&\*]+\.(clear|insert|push|push_back|remove|retain|extend|truncate|pop|pop_front|entry)\(.*\);\s*$", code) and not code.strip().startswith("let "):
                muts.append((re.match(r"^\s*", code).group(0) + "// " + code.strip(), "statement deleted"))
            if re.match(r"^\s*[\w\.\[\]]+\s*(\+=|-=)\s*[^;]+;\s*$", code):
                muts.append((re.match(r"^\s*", code).group(0) + "// " + code.strip(), "update deleted"))
            if re.match(r"^\s*(self\.)?[\w\.]+\s*=\s*(true|false);\s*$", code):
                muts.append((re.sub(r"\btrue\b", "FALSE_", code).replace("false", "true").replace("FALSE_", "false"), "flag flipped"))
            if re.match(r"^\s*continue;\s*$", code):
                muts.append((code.replace("continue", "break"), "continue -> break"))
            if re.match(r"^\s*break;\s*$", code):
                muts.append((code.replace("break", "continue"), "break -> continue"))
            if re.match(r"^\s*return (true|false);\s*$", code) or re.match(r"^\s*(true|false)\s*$", code):
                muts.append((re.sub(r"\btrue\b", "FALSE_", code).replace("false", "true").replace("FALSE_", "false"), "true <-> false"))
            for new, what in muts:
                if new != l:
                    res.append((path, k, name, l, new, what))
    return res


def named_functions(p):
    """function names that the property's anchors name (mechanism / state 'where' strings), per file"""
    res = {}
    for kind in ("mechanism", "state"):
        for m in p["anchors"].get(kind, []) or []:
            for part in m.get("where", "").split(";"):
                toks = part.strip().split()
                if not toks:
                    continue
                f = toks[0] if toks[0].endswith(".rs") else None
                names = set(re.findall(r"[A-Za-z_][A-Za-z0-9_]*", " ".join(toks[1:] if f else toks)))
                for ff in [f] if f else [x for x in p["anchors"]["files"]]:
                    res.setdefault(ff, set()).update(n for n in names if n.islower() or "_" in n)
    return res


for p in props:
    pid = p["id"]
    files = [f for f in p["anchors"]["files"] if f.endswith(".rs") and os.path.exists(os.path.join(REPO, f))]
    named = named_functions(p)
    cands = []
    for f in files:
        cands += candidates(f, ONLY_FUNCS.get(pid, {}).get(f))
    rnd = random.Random(seed * 1000 + int(pid[1:]))
    rnd.shuffle(cands)
    # two thirds of the sample from the functions the anchors name, the rest from anywhere in the anchored files
    on = [c for c in cands if c[2] in named.get(c[0], set())]
    off = [c for c in cands if c[2] not in named.get(c[0], set())]
    k_on = min(len(on), (2 * per + 2) // 3)
    cands = on[: k_on * 6] + off
    if on:
        cands = sorted(cands, key=lambda c: 0 if c in on[: k_on * 6] else 1)
    # at most 2 mutants per function so the sample spreads over the mechanisms
    perfn, chosen = {}, []
    for c in cands:
        key = (c[0], c[2])
        if perfn.get(key, 0) >= (4 if c[2] in named.get(c[0], set()) else 1):
            continue
        perfn[key] = perfn.get(key, 0) + 1
        chosen.append(c)
        if len(chosen) >= per:
            break
    d = os.path.join(out, pid)
    os.makedirs(d, exist_ok=True)
    for n, (path, k, fn, old, new, what) in enumerate(chosen):
        full = os.path.join(REPO, path)
        src = open(full).read().split("\n")
        mod = src[:]
        mod[k] = new
        tmp = f"/tmp/automut_{os.getpid()}.rs"
        open(tmp, "w").write("\n".join(mod))
        diff = subprocess.run(["diff", "-u", "--label", "a/" + path, "--label", "b/" + path, full, tmp], capture_output=True, text=True).stdout
        os.remove(tmp)
        open(os.path.join(d, f"{n:03d}.diff"), "w").write(diff)
        open(os.path.join(d, f"{n:03d}.txt"), "w").write(f"{path}:{k+1} fn {fn}: {what}\n- {old.strip()}\n+ {new.strip()}\n")
    print(pid, len(cands), "sites ->", len(chosen), "mutants")
