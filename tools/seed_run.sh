#!/bin/bash
# usage: seed_run.sh <ID> <k> [check ids...]  — apply the seeded patch to /repo, run quick checks, always revert
set -u
id=$1; k=$2; shift 2; checks=${@:-$id}
P=/verif/seeded/${id}_${k}/patch.diff; [ -f $P ] || P=/tmp/seed_${id}_${k}/out/patch.diff
cd /repo || exit 2
if ! git diff --quiet; then echo "/repo dirty"; exit 2; fi
trap 'git -C /repo checkout -- . 2>/dev/null' EXIT
git apply $P || exit 2
for c in $checks; do
  s=$(date +%s); out=$(cd /verif && ./check $c quick 2>&1); rc=$?; e=$(date +%s)
  echo "SEEDRUN ${id}_${k} check=$c exit=$rc $((e-s))s $(echo "$out" | grep -c '^VIOLATION') violations"
  echo "$out" | grep -A1 '^VIOLATION' | head -4 | cut -c1-300 | sed 's/^/    /'
done
