#!/usr/bin/env python3
"""usage: automut_run.py <mutant-dir> <jobs> <result.tsv> [ID ...]

Runs the mutants written by automut_gen.py against the quick tier of the check of their own property, <jobs> at a time.
Each job owns a slot /tmp/amslot<k>/{repo,verif}: a git worktree of /repo HEAD and a private copy of /verif whose harness
points at it (so /repo and /verif are never touched and dependencies are compiled once per slot). For a mutant the check
does not catch, the baseline suite is run in the slot's worktree: a mutant the existing tests kill is not a realistic
change in the sense of the brief. One TSV line per mutant: id, n, verdict, seconds, what, first signature.
verdicts: caught | survived(tests pass) | killed-by-baseline-tests | does-not-compile | could-not-run"""
import os, queue, re, subprocess, sys, threading, time

mdir, jobs, result = sys.argv[1], int(sys.argv[2]), sys.argv[3]
ids = sys.argv[4:] or sorted(os.listdir(mdir))
VERIF = os.path.dirname(os.path.dirname(os.path.abspath(__file__)))
q = queue.Queue()
for pid in ids:
    for f in sorted(os.listdir(os.path.join(mdir, pid))):
        if f.endswith(".diff"):
            q.put((pid, f[:-5]))
lock = threading.Lock()
done = set()
if os.path.exists(result):
    for l in open(result):
        t = l.split("\t")
        if len(t) > 2:
            done.add((t[0], t[1]))


def sh(cmd, cwd=None, env=None, timeout=3600):
    try:
        p = subprocess.run(cmd, shell=True, cwd=cwd, env=env, capture_output=True, text=True, timeout=timeout)
        return p.returncode, p.stdout + p.stderr
    except subprocess.TimeoutExpired:
        return 124, "timeout"


def setup(k):
    S = f"/tmp/amslot{k}"
    sh(f"git -C /repo worktree remove --force {S}/repo; rm -rf {S}; git -C /repo worktree prune; mkdir -p {S}")
    rc, o = sh(f"git -C /repo worktree add --detach {S}/repo HEAD")
    assert rc == 0, o
    sh(f"rsync -a --exclude /target --exclude /.git --exclude /replays --exclude /.scratch --exclude /fuzz/target --exclude /fuzz/corpus {VERIF}/ {S}/verif/")
    sh(f"sed -i 's#path = \"/repo\"#path = \"{S}/repo\"#' {S}/verif/harness/Cargo.toml; sed -i 's#/verif/target#{S}/verif/target#' {S}/verif/harness/.cargo/config.toml")
    return S


def worker(k):
    S = setup(k)
    env = dict(os.environ, VERIF_ROOT=f"{S}/verif", CARGO_NET_OFFLINE="true", VERIF_SEED="1")
    while True:
        try:
            pid, n = q.get_nowait()
        except queue.Empty:
            break
        if (pid, n) in done:
            continue
        what = open(os.path.join(mdir, pid, n + ".txt")).read().split("\n")[0]
        sh("git checkout -q -- .", cwd=f"{S}/repo")
        rc, o = sh(f"git apply {os.path.join(mdir, pid, n + '.diff')}", cwd=f"{S}/repo")
        t0 = time.time()
        if rc != 0:
            verdict, sig = "could-not-run", "patch does not apply"
        else:
            sh(f"rm -rf {S}/verif/replays")
            rc, o = sh(f"./check {pid} quick", cwd=f"{S}/verif", env=env, timeout=2400)
            m = re.search(r"sig=(\S+)", o)
            sig = m.group(1) if m else ""
            if rc == 1:
                verdict = "caught"
            elif rc == 2 and "build failed" in o:
                verdict = "does-not-compile"
            elif rc == 0:
                rc2, o2 = sh("cargo test --workspace --no-fail-fast --offline 2>&1 | grep -E '^test result' | awk '{p+=$4; f+=$6} END {print p\" \"f}'", cwd=f"{S}/repo", env=env, timeout=2400)
                pf = o2.strip().split()
                if len(pf) == 2 and pf[1] == "0" and int(pf[0]) >= 205:
                    verdict = "survived(tests pass)"
                else:
                    verdict = "killed-by-baseline-tests"
                    sig = o2.strip()
            else:
                verdict, sig = "could-not-run", f"exit {rc}: " + o.strip().split("\n")[-1][:120]
        with lock:
            with open(result, "a") as f:
                f.write(f"{pid}\t{n}\t{verdict}\t{int(time.time()-t0)}\t{what}\t{sig}\n")
    sh(f"git -C /repo worktree remove --force {S}/repo; rm -rf {S}; git -C /repo worktree prune")


ts = [threading.Thread(target=worker, args=(k,)) for k in range(jobs)]
for t in ts:
    t.start()
for t in ts:
    t.join()
print("done")
