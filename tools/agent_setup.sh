#!/bin/bash
# usage: agent_setup.sh <ID>   — private workspace for building one property module
set -e
ID=$1
W=/tmp/w_$ID
rm -rf $W; mkdir -p $W/out $W/evidence $W/corpus $W/replays
cp -r /verif/harness $W/harness
git -C /repo worktree add --detach $W/repo HEAD >/dev/null 2>&1
sed -i "s#/verif/target#$W/target#" $W/harness/.cargo/config.toml
sed -i "s#path = \"/repo\"#path = \"$W/repo\"#" $W/harness/Cargo.toml
cp /verif/KNOWN_FINDINGS.txt $W/ 2>/dev/null || touch $W/KNOWN_FINDINGS.txt
cat > $W/check <<EOS
#!/bin/bash
# private check driver: builds against $W/repo, writes evidence/replays under $W
export VERIF_ROOT=$W CARGO_NET_OFFLINE=true
if ! out=\$(cd $W/harness && cargo build --bin rre-check 2>&1); then echo "build failed"; echo "\$out" | tail -60; exit 2; fi
exec $W/target/debug/rre-check "\$@"
EOS
chmod +x $W/check
echo "workspace $W ready"
