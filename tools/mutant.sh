#!/bin/bash
# usage: mutant.sh <patch.diff> <ID> [<ID>...]   — apply a mutant to /repo, run the quick checks, always revert
set -u
patch=$(realpath "$1"); shift
cd /repo || exit 2
if ! git diff --quiet; then echo "/repo is dirty; refusing"; exit 2; fi
trap 'git -C /repo checkout -- . 2>/dev/null' EXIT
if ! git apply "$patch"; then echo "patch does not apply"; exit 2; fi
for id in "$@"; do
  start=$(date +%s.%N)
  out=$(cd /verif && ./check "$id" quick 2>&1); rc=$?
  end=$(date +%s.%N)
  v=$(echo "$out" | grep -c '^VIOLATION')
  printf "%-40s %-4s exit=%d violations=%d  %.1fs\n" "$(basename "$patch")" "$id" "$rc" "$v" "$(echo "$end - $start" | bc)"
  echo "$out" | grep -A1 '^VIOLATION' | head -4 | sed 's/^/    /'
done
