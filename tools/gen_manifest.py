#!/usr/bin/env python3
"""Regenerates /verif/MANIFEST.json from the table below (one entry per claimed property)."""
import json, subprocess, os
ROOT = os.path.dirname(os.path.dirname(os.path.abspath(__file__)))

# id -> (category, technique, level text, level note, design ref)
CLAIMED = {
 "C01": ("exploration",
         "differential property testing: grammar-generated GRL rule sets and fact stores (proptest-driven, shrunk) judged by an independent tri-state reference evaluator (REF) that runs the pass itself; plus an exhaustive operator x value-kind sweep",
         "Firing sequence, store after every firing, final store and counters are compared with REF for hundreds of thousands of generated programs per run, through the GRL parser and through directly built Rule values, via execute_with_callback and execute. Detects fired-although-false, not-fired-although-true and wrong assignment values for the typed core of GRL on the domain where the documentation defines the semantics. No claim beyond the generated sizes; cases REF calls undefined are counted, not judged.",
         "Trusts REF (harness/src/typed.rs, written from docs and the statement; undefined classes in DESIGN.md §4.1). Exists/forall/accumulate/function-call conditions are outside the typed core.",
         "DESIGN.md §6 C01, §4.1"),
 "C02": ("exploration",
         "model-based property testing of call histories: API-built rules with generated attribute combinations and histories of execute/focus/pop/clear/reset/enable/flag steps, judged against a model interpreter of the eligibility gate (exact trace); exhaustive small-scope enumeration of attribute assignments for 3 rules",
         "Every execute of every generated history must produce exactly the firing trace, fired count and active agenda group of the model written from the statement (salience order with insertion order among ties, enabled/date/focus gates, no-loop until reset, one rule per activation group per pass, lock-on-active once per activation). Large rule sets (21-60) expose unstable sorting. Shapes the statement leaves open (pop/clear returning to a locked group, a lock-on-active rule re-activating its own group) are not judged.",
         "Trusts the 120-line model in harness/src/c02.rs; date boundaries excluded by construction; rules_evaluated not compared.",
         "DESIGN.md §6 C02"),
 "C03": ("exploration",
         "differential property testing of looping rule sets (generated counters, always-true rules, toggles, chains) against a multi-pass REF interpreter with no-loop, plus fixpoint re-evaluation and a termination watchdog",
         "For every generated program and every max_cycles in 0..=64: the call returns (120 s watchdog in a monitor process), cycle_count <= max_cycles, rules_fired = callbacks, the pass count / firing sequence / final facts equal REF's, and when the engine stops early no eligible rule is true on its own final facts. Both execute_with_callback and execute are driven.",
         "Trusts REF; termination means 'returns within the 120 s watchdog'; wall-clock timeout disabled as the quantifier says.",
         "DESIGN.md §6 C03"),
 "C19": ("exploration",
         "differential property testing under perturbed schedules: generated rule sets x thread configurations, each executed repeatedly with a yield/spin/sleep hook at schedule points inside the worker loop, compared with the sequential path of the same engine and with REF",
         "For every generated configuration and every repetition: the call returns, there is exactly one execution context per enabled rule, the (rule, fired) map and both counters equal the sequential path, and the sequential verdicts equal REF where defined. Schedules are sampled (OS + hook), not enumerated: a sound oracle with stress-level schedule coverage.",
         "Real threads; schedule coverage is whatever the OS and the H5 hook produce. No custom functions, so actions do not change the facts.",
         "DESIGN.md §6 C19, §8"),
 "C13": ("exploration",
         "model-based property testing (proptest-driven byte strings decoded into timestamp sequences + exhaustive small-scope enumeration) against an executable watermark/late-data model",
         "Every prefix of every generated sequence is compared with a model written from the statement (watermark value and monotonicity, accepted/side-output/dropped routing, statistics, conservation). Random search over lengths up to 12 plus complete enumeration of short sequences over a 6-value domain for 20 configurations; bounded by those sizes, no claim beyond them.",
         "Trusts the harness model (60 lines, written from the statement); Periodic/Custom strategies (wall clock / no-op) are outside the statement.",
         "DESIGN.md §6 C13"),
}

ALL = [json.loads(l)["id"] for l in open(os.path.join(ROOT, "properties.jsonl"))]

def hooks_commits():
    try:
        out = subprocess.check_output(["git", "-C", "/repo", "log", "--format=%h %s"], text=True)
        return [l.split()[0] for l in out.splitlines() if l.split(" ", 1)[1].startswith("verif-hooks:")][::-1]
    except Exception:
        return []

NA_REASON = {}

def main():
    checks = []
    for pid in ALL:
        if pid not in CLAIMED:
            continue
        cat, tech, text, note, ref = CLAIMED[pid]
        checks.append({
            "property_id": pid,
            "quick_cmd": f"./check {pid} quick",
            "thorough_cmd": f"./check {pid} thorough",
            "evidence_file": f"/verif/evidence/{pid}.json",
            "replay_cmd_template": f"./check {pid} --replay {{path}}",
            "engine": "rre-check",
            "level_claimed": {"category": cat, "text": text, "design_ref": ref},
            "level_note": note,
            "technique": tech,
        })
    na = [{"property_id": p, "reason": NA_REASON.get(p, "check not built yet (work in progress; see DESIGN.md §6 for the planned generator and oracle)")}
          for p in ALL if p not in CLAIMED]
    m = {
        "version": 1,
        "setup_cmd": "cd /verif/harness && CARGO_NET_OFFLINE=true cargo build --bin rre-check",
        "hooks": {
            "guard": "cargo feature `verif-hooks` of rust-rule-engine (off by default)",
            "enable": "the harness crate /verif/harness depends on /repo by path with features [streaming, backward-chaining, verif-hooks]; ./check runs cargo build before every run",
            "baseline_off_cmd": "cd /repo && cargo test --workspace --no-fail-fast --offline",
            "source_commits": hooks_commits(),
            "add_only": True,
        },
        "engines": [
            {"name": "rre-check", "path": "/verif/harness", "serves_properties": [c["property_id"] for c in checks],
             "kind_free_text": "Rust binary: proptest TestRunner over byte strings decoded by per-property generators (shrinking by proptest), exhaustive choice-tree enumeration for small scopes, executable reference models / differentials as oracles, watchdog monitor process for hangs and crashes"},
        ],
        "checks": checks,
        "notes": "Exit codes: 0 held, 1 violation (VIOLATION line), 2 could not run / inconclusive. VERIF_SEED selects the seed (default 1). KNOWN_FINDINGS.txt lists recorded defects; see DESIGN.md §5.",
        "not_applicable": na,
    }
    json.dump(m, open(os.path.join(ROOT, "MANIFEST.json"), "w"), indent=1)
    print("wrote MANIFEST.json:", len(checks), "checks,", len(na), "not claimed")

if __name__ == "__main__":
    main()
