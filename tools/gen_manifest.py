#!/usr/bin/env python3
"""Regenerates /verif/MANIFEST.json from the table below (one entry per claimed property)."""
import json, subprocess, os
ROOT = os.path.dirname(os.path.dirname(os.path.abspath(__file__)))

# id -> (category, technique, level text, level note, design ref)
CLAIMED = {
 "C01": ("exploration",
         "differential property testing: grammar-generated GRL rule sets and fact stores (proptest-driven, shrunk) judged by an independent tri-state reference evaluator (REF) that runs the pass itself; plus an exhaustive operator x value-kind sweep",
         "Firing sequence, store after every firing, final store and counters are compared with REF for hundreds of thousands of generated programs per run, through the GRL parser and through directly built Rule values, via execute_with_callback and execute. Detects fired-although-false, not-fired-although-true and wrong assignment values for the typed core of GRL on the domain where the documentation defines the semantics. One case in four calls its numeric fields by names that end like an exponent or in a digit (A.xe, B.e, C.x1e), one in four writes arithmetic without blanks. No claim beyond the generated sizes; cases REF calls undefined are counted, not judged.",
         "Trusts REF (harness/src/typed.rs, written from docs and the statement; undefined classes in DESIGN.md §4.1). Exists/forall/accumulate/function-call conditions are outside the typed core.",
         "DESIGN.md §6 C01, §4.1"),
 "C02": ("exploration",
         "model-based property testing of call histories: API-built rules with generated attribute combinations and histories of execute/focus/pop/clear/reset/enable/flag steps, judged against a model interpreter of the eligibility gate (exact trace); exhaustive small-scope enumeration of attribute assignments for 3 rules",
         "Every execute of every generated history must produce exactly the firing trace, fired count and active agenda group of the model written from the statement (salience order with insertion order among ties, enabled/date/focus gates, no-loop until reset, one rule per activation group per pass, lock-on-active once per activation). Large rule sets (21-60) expose unstable sorting. Half of the random cases name their agenda groups from look-alike tables (orders / orders::priority, a.b / a, MAIN::x / main). Part timeout lets a 10 ms wall-clock timeout really elapse inside a pass (a sleeping action) and judges the next call on the same engine by a timing-independent clause (a no-loop rule that ran does not run again). Shapes the statement leaves open (pop/clear returning to a locked group, a lock-on-active rule re-activating its own group) are not judged.",
         "Trusts the model in harness/src/c02.rs; date boundaries excluded by construction; rules_evaluated not compared. The public activate_agenda_group call is part of the history alphabet (a history is cut where its interleaving with other focus operations is unspecified).",
         "DESIGN.md §6 C02"),
 "C03": ("exploration",
         "differential property testing of looping rule sets (generated counters, always-true rules, toggles, chains) against a multi-pass REF interpreter with no-loop, plus fixpoint re-evaluation and a termination watchdog",
         "For every generated program and every max_cycles in 0..=64: the call returns (120 s watchdog in a monitor process), cycle_count <= max_cycles, rules_fired = callbacks, the pass count / firing sequence / final facts equal REF's, and when the engine stops early no eligible rule is true on its own final facts. Both execute_with_callback and execute are driven; directly built rules may have an empty action list (a firing without actions still counts and keeps the loop going); part reuse makes 2-3 calls on one engine (activation groups, failing actions, the knowledge base replaced through knowledge_base_mut() by an equally-versioned object with one more rule) and judges the per-call clauses.",
         "Trusts REF; termination means 'returns within the 120 s watchdog'; wall-clock timeout disabled as the quantifier says.",
         "DESIGN.md §6 C03"),
 "C20": ("fault_enumeration",
         "model-based property testing of checkpoint/restore histories under an injected clock (random + exhaustive short histories) and fault enumeration: every truncation length of the checkpoint file and every intermediate directory state of an interrupted checkpoint is materialised and restored from, cross-checked by real RLIMIT_FSIZE crashes in a child process (also with a full history, max_checkpoints = 1)",
         "Restore must reproduce the recording taken at checkpoint time (bit-exact floats), ids of listed checkpoints are distinct and every listed id restores; in every enumerated crash state of a checkpoint write, earlier checkpoints restore exactly and the interrupted one restores completely or fails leaving the live state unchanged.",
         "Crash enumeration assumes the write sequence create_dir_all -> File::create -> write_all -> retention (cross-checked by real size-limited crashes); no fsync/power-loss reordering modelled.",
         "DESIGN.md §6 C20, §8"),
 "C18": ("exploration",
         "model-based property testing of the module manager: exhaustive enumeration of all operation histories up to length 4-6 over several alphabets plus random histories, against a module-graph model (acyclicity, refused imports change nothing, visibility queries always answer, visibility equals the declarations)",
         "In every reachable state of millions of enumerated histories: the declared import relation among existing modules is acyclic and equals get_import_graph, a cycle-closing or self import returns Err and changes nothing, visibility queries return Ok for every existing module, and (without re-export clauses) visibility equals 'owns, or imports with a matching pattern from an existing module that exports it'.",
         "States with re-export clauses are judged by necessary/sufficient bounds only (the repository's own tests call their meaning unsettled); 4 module names bound the cycle length.",
         "DESIGN.md §6 C18"),
 "C19": ("exploration",
         "differential property testing under perturbed schedules: generated rule sets x thread configurations, each executed repeatedly with a yield/spin/sleep hook at schedule points inside the worker loop, compared with the sequential path of the same engine, with REF, and (for rules whose registered functions write facts read at lower salience) with a level-by-level model",
         "For every generated configuration and every repetition (and for two threads calling the same engine at once): the call returns, there is exactly one execution context per enabled rule, the (rule, fired) map and both counters equal the sequential path, and the sequential verdicts equal REF where defined. Schedules are sampled (OS + hook), not enumerated: a sound oracle with stress-level schedule coverage.",
         "Real threads; schedule coverage is whatever the OS and the H5 hook produce. Fact-writing actions only through registered functions whose readers sit at a strictly lower salience (part writers), so the one-by-one result is order-independent inside a level.",
         "DESIGN.md §6 C19, §8"),
 "C04": ("exploration",
         "grammar-based property testing of the GRL parser: files generated from the documented grammar with layout/comment noise, judged by a full structural round trip against the generating AST, by a metamorphic relation (each rule of a file equals the canonical one-line print of that rule parsed alone) and by agreement of the three entry points; exhaustive enumeration of attribute subsets/orders and of small condition trees; optional libFuzzer target over the same byte decoding",
         "Every parsed Rule (name, salience, flags, groups, dates, condition tree modulo associativity, action list) must equal what was written, in source order, whatever the whitespace, line breaks, comments and neighbouring rules; parse_rule and parse_with_modules must agree with parse_rules. 7 recorded findings (a brace or ' then ' inside a string literal moves a boundary drawn by a regular expression, a ')' inside a string argument of a function call in a condition, tight bare arithmetic, $-forms, parenthesised left sides; four more were repaired by fix commits and are regression cases now) are excluded by per-finding generator switches and re-checked through their witnesses on every run. The quick command runs the check twice: on the default build (debug assertions on) and on a build without debug assertions.",
         "Grammar = the documented one minus aspirational constructs; Rule.description is not judged (the statement does not list it). Each known finding's switch is armed only while its `known:` line is present.",
         "DESIGN.md §6 C04, §10.5"),
 "C05": ("exploration",
         "fuzzing and property-based testing of 14 parser / evaluator entry points with the oracle 'the call returns': random search over three input families (raw bytes, token soups in valid skeletons, 12 mutation operators over valid seeds and grammar-printed rules) shrunk by proptest, exhaustive single-edit enumeration of every seed (truncation at every byte, every deletion, multi-byte insertion at every position, extreme numbers, bracket groups), seeds whose quoted names are widened to long runs of mixed-width characters before one late edit, exhaustive deep-nesting/long-chain enumeration to 4 KiB with large cases in a child process (stack overflow and hang become exit statuses); exhaustive module-import-graph shapes for parse_with_modules (stacked diamonds, complete DAGs, fans, refused back edges) in a child with a 3 GiB address-space cap; thorough adds the engine built at opt-level 0 with overflow checks and a coverage-guided libFuzzer+ASan campaign per entry point",
         "Every one of ~500k (quick) / ~9M (thorough) generated texts per run, on each entry point it applies to, must come back as a value or an error: a panic (any site), a stack overflow, an abort or a call that outlives the watchdog is a violation unless it is the recorded finding C05-F10 (super-cubic regex matching in the third-party matcher), whose witness is replayed on every run. While F10 stands, texts for the regex-based GRL entry points are bounded (condition atoms <= 48 characters, rule text <= 192 bytes) so that the search can continue.",
         "Termination = returns within the 120 s watchdog (wall clock, as the quantifier says; slowest case seen under the F10 bound: 3.3 s). Stack depth is a property of the build: the default harness build has the engine at opt-level 2, the thorough command adds the opt-level-0 build.",
         "DESIGN.md §6 C05, §10.5"),
 "C06": ("exploration",
         "stateful property testing of the incremental RETE engine: generated single-type rule sets converted by the real GRL loader with recorder-wrapped actions, histories of insert/update/retract/fire_all/reset/set_conflict_resolution_strategy and bursts of 1001 identical updates, judged by REF on the matched fact's contents at firing time, a completeness oracle for every fire_all of the all-noop sub-domain, and a 4-view working-memory invariant; exhaustive short histories",
         "Every firing in every generated history is checked at the moment it happens: the matched handle (exposed by a hook) is live and REF says the rule's condition is true of exactly the contents the engine presents; when actions are no-ops and rules no-loop, every fire_all fires each armed rule that a newly written live fact satisfies, and nothing that no live fact satisfies; updates may change only the type of a value (type twins), and where REF is undefined a fresh engine holding only that rule is asked whether it fires for the same contents; all working-memory views agree after every operation and retracted handles are rejected. Bounded by <= 6 facts, <= 3 types, <= 4 rules, histories <= 15.",
         "Trusts REF on a well-typed sub-core (multi-type joins, multi-operator arithmetic excluded); facts may lack a field: a firing is flagged only if the condition is false under both readings of an absent field (null / atom false), demanded only if true under both; cross-type activations are not judged.",
         "DESIGN.md §6 C06"),
 "C07": ("exploration",
         "model-based property testing of the RETE agenda (validity predicate on every pop over generated add/pop/mark/focus/reset sequences, exhaustive to length 5-6) and termination testing of the three fire_all entry points with fuel-counting actions under a watchdog",
         "Every activation returned by get_next_activation must be pending, in the focused group (the focus may only fall back to a group that was left through set_focus since the last clear), not excluded by no-loop / fired activation group, and maximal by (salience, earlier created_at) among the definitely eligible ones (creation instants from 1 us to 0.7 s apart); fire_all of IncrementalEngine, TypedReteUlEngine and ReteUlEngine must return within its iteration bound for generated always-true and self-re-enabling rule sets.",
         "created_at is set through the public field for determinism; lock-on-active/auto-focus/ruleflow not exercised; order of the two non-incremental engines not judged.",
         "DESIGN.md §6 C07"),
 "C08": ("exploration",
         "model-based property testing of truth maintenance: generated and exhaustively enumerated histories of explicit/logical insertions, extra justifications and retractions against a least-fixpoint support model, compared for every handle after every operation",
         "After every operation of every history, presence in working memory of every handle ever issued equals the model's least-fixpoint support verdict; the set returned by retract_with_cascade equals the model's removed set; TMS flags agree. Exhaustive to 8-10 operations on small fact counts (millions of histories per quick run). Premise lists may repeat a handle. Some plain facts bypass the TMS (working_memory_mut().insert / never registered): present, legal premises, their retraction cascades.",
         "Acyclic support only (premises are live and older than the fact, as the quantifier says); no rules loaded.",
         "DESIGN.md §6 C08"),
 "C09": ("exploration",
         "property-based testing of backward chaining over generated Horn knowledge bases: soundness judged by REF on the returned facts and by an over-approximated forward closure (possible-values fixpoint), bounded completeness judged by a derivation-height reference on monotone KBs",
         "For every generated (KB, store, goal, config): a provable answer implies the goal comparison is true in the facts handed back and satisfiable in the forward closure; under DFS on monotone conjunctive KBs a goal with derivation height <= max_depth must be provable; part ladder demands the same of single-path derivations in which a step tests a field and assigns the next value to the same field. All three strategies, max_depth 0..6, max_solutions 1 and 3.",
         "Trusts REF and the 40-line closure/height computations in harness/src/bc.rs; engine panics/errors are counted, not judged; numeric equality goals not generated.",
         "DESIGN.md §6 C09"),
 "C10": ("exploration",
         "differential (before/after) property testing of failed backward-chaining proofs, and model-based testing of the undo-frame API against a snapshot-stack model with exhaustive enumeration of all operation sequences of length 5-6",
         "Whenever a generated query is reported not provable the caller's facts are deeply equal to what they were (rules may carry an action that fails at run time or be disabled; one case in four is asked inside a caller-owned undo frame, which must still be the caller's afterwards); every sequence of begin/commit/rollback/set/set_nested/remove (exhaustive to length 5 in quick, 6 in thorough, random to 10) leaves get_all_facts(), snapshot() and the open-frame count equal to the snapshot-stack model after every operation.",
         "Open-frame count read through hook verif_undo_depth; engine panics/errors during a query are counted, not judged.",
         "DESIGN.md §6 C10"),
 "C11": ("exploration",
         "differential property testing of query histories: every query of a generated history on one engine is compared with the same query on a freshly built engine on a deep copy of the same facts",
         "The k-th answer of every generated history (queries interleaved with fact changes, fresh equal stores, retractions in an attached RETE engine, set_config calls; memoisation on and off) equals the fresh engine's answer, so any dependence on history - and any run-to-run nondeterminism - shows as a disagreement.",
         "The fresh engine is the same code without history, so a defect that is independent of history is invisible here (C09 owns it).",
         "DESIGN.md §6 C11"),
 "C12": ("exploration",
         "model-based property testing of windows under an injected clock: generated event sequences in all arrival orders (exhaustive over all orders of 5-6 events) against interval arithmetic, a retention validity predicate and harness-side aggregate folds",
         "Tumbling placement (WindowedStream, WindowManager, TimeWindow, StreamAlphaNode), sliding retention after every record (nothing older than the span, nothing younger dropped except oldest-first by the cap, either notion of oldest accepted) and count/sum/average/min/max against a fold over exactly the window's events (payloads include infinities of one sign). Tumbling durations with a sub-millisecond rest are judged by what every reading shares (disjoint windows, every held event inside its window, held once, none lost).",
         "StreamAlphaNode judged relative to the injected clock (hook); NaN payloads and durations < 1 ms outside the domain; buffer order not judged; how a duration with a sub-millisecond rest is laid on whole-millisecond timestamps is not judged.",
         "DESIGN.md §6 C12"),
 "C14": ("exploration",
         "differential property testing over ALL arrival interleavings: generated and exhaustively enumerated pairs of event sequences, every merge of the two arrival orders executed, compared as multisets with a nested-loop reference join; eviction-aware validity predicate when watermarks advance",
         "Without watermark advances the concatenated output of process_left/right equals the reference join exactly (nothing missing, nothing twice) for every one of up to 70 merges per pair, and a final update_watermark emits nothing; with advances the output is a duplicate-free subset of the reference that contains every pair whose earlier element was not yet evictable. Also through StreamJoinManager routing.",
         "Timestamps in seconds (the node compares with Duration::as_secs), event ids unique per stream, non-decreasing watermarks; outer joins and session/count windows out of scope.",
         "DESIGN.md §6 C14"),
 "C15": ("exploration",
         "exhaustive small-scope enumeration of knowledge-base operation sequences against an ordered-list model, and Wing-Gong linearizability checking of recorded 3-thread histories under a schedule-perturbation hook",
         "All 25^4 (quick) / 25^5 (thorough) operation sequences and 60k-1M random ones are compared observer by observer with the model after every step; 16k-50k concurrent programs x 50-500 repetitions are checked for linearizability against the same model (a thread may take a clone() mid-history: its listing, names, count and lookups must describe one state within the call), plus deadlock detection; part many drives 21-60 rules (listing order and lookup against a stable-sort model).",
         "Schedules are sampled (OS + yield hook), not enumerated; the version is modelled relationally (must grow on every real change; rejected duplicate add must not move it).",
         "DESIGN.md §6 C15, §8"),
 "C16": ("exploration",
         "differential property testing of four keyed shortcuts against the plain computation over generated histories with type-twin values (5/\"5\"/5.0, 0.0/-0.0, NaN, true/\"true\"), exhaustive short histories for the alpha and beta indexes, exhaustive pair tables of unequal values a key rendering could write alike (integers equal as f64; separator-bearing string elements, flattened nesting, case/blank/composition/escape variants)",
         "Every indexed filter equals the linear == scan; every beta lookup returns exactly the live facts carrying the key; every memoised evaluation equals evaluate_typed; the conclusion index (directly and through BackwardEngine) proposes every enabled rule with a Set on the goal field.",
         "Beta index judged with a validity interval where == and rendering differ (±0.0, NaN); extra candidates from the conclusion index are allowed.",
         "DESIGN.md §6 C16"),
 "C17": ("exploration",
         "model-based property testing of the proof graph: exhaustive enumeration (up to handle renaming) and random generation of insert_proof/invalidate_handle/is_proven histories in every insertion order against a justification-graph fixpoint model",
         "After every operation get_node().valid, is_proven and lookup_by_key equal 'not invalidated and at least one surviving justification' for every handle; exhaustive to 6 operations on 3 handles and 5 on 4 handles in quick (3.4M histories), deeper in thorough. Handle ids come in six styles (small, equal low 32 / low 16 / high 32 bits, near u64::MAX, top bit set). One history in three files some insertions of a handle under a second key (judged where every reading agrees).",
         "A handle that was ever invalid is not reused as a premise (stricter reading of the quantifier).",
         "DESIGN.md §6 C17"),
 "C13": ("exploration",
         "model-based property testing (proptest-driven byte strings decoded into timestamp sequences + exhaustive small-scope enumeration) against an executable watermark/late-data model",
         "Every prefix of every generated sequence is compared with a model written from the statement (watermark value and monotonicity, accepted/side-output/dropped routing, statistics, conservation); delays and latenesses cover the whole millisecond range and one case in three carries a sub-millisecond rest, which must change nothing observable; event ids and non-zero sequence numbers may recur. Random search over lengths up to 12 plus complete enumeration of short sequences over a 6-value domain for 20 configurations; part components drives WatermarkGenerator and LateDataHandler directly (with side-output drains) against the same model; bounded by those sizes, no claim beyond them.",
         "Trusts the harness model (60 lines, written from the statement); the Periodic strategy is driven with real sleeps and judged against the watermark observed through the API just before each call; Custom (no-op) is outside the statement.",
         "DESIGN.md §6 C13"),
}

ALL = [json.loads(l)["id"] for l in open(os.path.join(ROOT, "properties.jsonl"))]

def hooks_commits():
    try:
        out = subprocess.check_output(["git", "-C", "/repo", "log", "--format=%h %s"], text=True)
        return [l.split()[0] for l in out.splitlines() if l.split(" ", 1)[1].startswith("verif-hooks:")][::-1]
    except Exception:
        return []

NA_REASON = {}

# thorough commands that are more than one run of the same binary
THOROUGH = {
 "C05": "./check C05 thorough && VERIF_PROFILE=o0 ./check C05 quick && VERIF_PROFILE=rel ./check C05 quick && tools/c05_fuzz.sh 1000000 5000",
}
# quick commands that are more than one run: the parser check also runs on the build without debug assertions (what a
# user's --release build executes; a debug_assert! with a side effect differs there -- seeded change C04_8)
QUICK = {
 "C04": "./check C04 quick && VERIF_PROFILE=rel ./check C04 quick",
}

def main():
    checks = []
    for pid in ALL:
        if pid not in CLAIMED:
            continue
        cat, tech, text, note, ref = CLAIMED[pid]
        checks.append({
            "property_id": pid,
            "quick_cmd": QUICK.get(pid, f"./check {pid} quick"),
            "thorough_cmd": THOROUGH.get(pid, f"./check {pid} thorough && VERIF_PROFILE=rel ./check {pid} quick"),
            "evidence_file": f"/verif/evidence/{pid}.json",
            "replay_cmd_template": f"./check {pid} --replay {{path}}",
            "engine": "rre-check",
            "level_claimed": {"category": cat, "text": text, "design_ref": ref},
            "level_note": note,
            "technique": tech,
        })
    na = [{"property_id": p, "reason": NA_REASON.get(p, "check not built yet (work in progress; see DESIGN.md §6 for the planned generator and oracle)")}
          for p in ALL if p not in CLAIMED]
    m = {
        "version": 1,
        "setup_cmd": "cd /verif/harness && CARGO_NET_OFFLINE=true cargo build --bin rre-check && CARGO_NET_OFFLINE=true cargo build --bin rre-check --profile rel",
        "hooks": {
            "guard": "cargo feature `verif-hooks` of rust-rule-engine (off by default)",
            "enable": "the harness crate /verif/harness depends on /repo by path with features [streaming, backward-chaining, verif-hooks]; ./check runs cargo build before every run",
            "baseline_off_cmd": "cd /repo && cargo test --workspace --no-fail-fast --offline",
            "source_commits": hooks_commits(),
            "add_only": True,
        },
        "engines": [
            {"name": "rre-check", "path": "/verif/harness", "serves_properties": [c["property_id"] for c in checks],
             "kind_free_text": "Rust binary: proptest TestRunner over byte strings decoded by per-property generators (shrinking by proptest), exhaustive choice-tree enumeration for small scopes, executable reference models / differentials as oracles, watchdog monitor process for hangs and crashes"},
        ],
        "checks": checks,
        "notes": "Objects under test are built with new() or default() in turn (by a hash of the case), values include signed zeros compared bit-exactly where a statement speaks of exact reproduction. Exit codes: 0 held, 1 violation (VIOLATION line), 2 could not run / inconclusive. VERIF_PROFILE=rel runs the same check on a build without debug assertions (evidence then goes to evidence/<ID>.rel.json; the main evidence file is kept). VERIF_SEED selects the seed (default 1). KNOWN_FINDINGS.txt lists recorded defects; see DESIGN.md §5.",
        "not_applicable": na,
    }
    json.dump(m, open(os.path.join(ROOT, "MANIFEST.json"), "w"), indent=1)
    print("wrote MANIFEST.json:", len(checks), "checks,", len(na), "not claimed")

if __name__ == "__main__":
    main()
