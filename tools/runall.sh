#!/bin/bash
# usage: runall.sh [quick|thorough] [seed]  — runs every registered check, prints one line each
tier=${1:-quick}; seed=${2:-1}
cd "$(dirname "$0")/.." || exit 2
for id in $(python3 -c "import json;print(' '.join(c['property_id'] for c in json.load(open('MANIFEST.json'))['checks']))"); do
  out=$(VERIF_SEED=$seed ./check $id $tier 2>&1); rc=$?
  echo "$id rc=$rc $(echo "$out" | tail -1 | cut -c1-160)"
  echo "$out" | grep -E '^(VIOLATION|KNOWN-FINDING|harness:)' | head -5
done
