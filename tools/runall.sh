#!/bin/bash
# usage: runall.sh [quick|thorough] [seed]  — runs every registered check by its MANIFEST command, prints one line each
tier=${1:-quick}; seed=${2:-1}
cd "$(dirname "$0")/.." || exit 2
python3 -c "
import json
for c in json.load(open('MANIFEST.json'))['checks']: print(c['property_id'] + '\t' + c['${tier}_cmd'])" | while IFS=$'\t' read -r id cmd; do
  s=$(date +%s)
  out=$(VERIF_SEED=$seed bash -c "$cmd" 2>&1); rc=$?
  echo "$id rc=$rc $(( $(date +%s) - s ))s $(echo "$out" | grep -E "^$id (quick|thorough) seed=" | tail -1 | cut -c1-160)"
  echo "$out" | grep -E '^(VIOLATION|KNOWN-FINDING|harness:|C05 fuzz|run_fuzz:|c05_fuzz:)' | cut -c1-220 | head -16
done
