#!/bin/bash
# usage: c05_fuzz.sh <runs for the hand-written parsers> <runs for the regex-based GRL targets>
# Coverage-guided (libFuzzer + ASan) campaign for property C05 over all 14 parser entry points, run in parallel
# from a fresh copy of the committed seed corpus. Seed = VERIF_SEED (0 is remapped to 1: libFuzzer reads 0 as "random").
# Prints the VIOLATION lines of fuzz/run_fuzz.sh; exit 0 none, 1 violation, 2 inconclusive.
# Evidence of the campaign: evidence/C05.fuzz.json (the main evidence file evidence/C05.json is written by ./check).
set -u
root="$(cd "$(dirname "$0")/.." && pwd)"
fast=${1:-300000}; slow=${2:-3000}
seed=${VERIF_SEED:-1}; [ "$seed" = 0 ] && seed=1
export CARGO_NET_OFFLINE=true
cd "$root/fuzz" || exit 2
if ! out=$(cargo +nightly fuzz build --fuzz-dir . 2>&1); then
  echo "c05_fuzz: build failed (exit 2 = could not run)"; echo "$out" | tail -30; exit 2
fi
logdir=$(mktemp -d "${TMPDIR:-/tmp}/c05fuzz.all.XXXXXX") || exit 2
trap 'rm -rf "$logdir"' EXIT
t0=$(date +%s)
for t in parse_rules parse_rule parse_with_modules grl_query grl_queries query_parser expression_parser aggregate_query disjunction nested_query stream_pattern stream_join window_spec evaluate_expression; do
  case "$t" in parse_rules|parse_rule|parse_with_modules) n=$slow ;; grl_query|grl_queries) n=$((slow*10)) ;; *) n=$fast ;; esac
  ( ./run_fuzz.sh "$t" "$n" "$seed" > "$logdir/$t.out" 2>&1; echo $? > "$logdir/$t.rc" ) &
done
wait
rc=0
for f in "$logdir"/*.out; do
  t=$(basename "$f" .out); r=$(cat "$logdir/$t.rc")
  grep -E '^(C05-FUZZ|VIOLATION|  target=|run_fuzz:)' "$f"
  if [ "$r" = 1 ]; then rc=1; elif [ "$r" != 0 ] && [ $rc = 0 ]; then rc=2; fi
done
python3 - "$logdir" "$seed" "$rc" $(( $(date +%s) - t0 )) > "$root/evidence/C05.fuzz.json" <<'PY'
import sys, glob, re, json, os
d, seed, rc, wall = sys.argv[1], int(sys.argv[2]), int(sys.argv[3]), int(sys.argv[4])
rows = []
for f in sorted(glob.glob(d + "/*.out")):
    for l in open(f):
        if l.startswith("C05-FUZZ target="):
            rows.append(dict(kv.split("=", 1) for kv in l.split()[1:]))
print(json.dumps({"property": "C05", "engine": "cargo-fuzz/libFuzzer + ASan, one target per entry point (fuzz/)", "seed": seed,
                  "targets": rows, "total_executions": sum(int(r.get("executions", "0") or 0) for r in rows if r.get("executions", "?").isdigit()),
                  "exit": rc, "wall_s": wall,
                  "oracle": "no panic outside the sites listed as known, no ASan report (stack overflow), no input slower than 120 s"}, indent=1))
PY
echo "C05 fuzz campaign seed=$seed targets=14 exit=$rc wall=$(( $(date +%s) - t0 ))s"
exit $rc
