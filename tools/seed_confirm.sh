#!/bin/bash
# usage: seed_confirm.sh <ID> <k>  — confirm a seeded change in its scratch worktree /tmp/seed_<ID>_<k>:
#   (1) with the change the baseline suite passes, (2) the demo fails with the change, (3) the demo passes without it.
set -u
id=$1; k=$2; W=/tmp/seed_${id}_${k}
cd $W || exit 2
feat=$(grep -o -- '--features [a-z,-]*' out/NOTES.txt | grep -E 'streaming|backward-chaining|verif-hooks' | head -1)
[ -f out/patch.diff ] || { echo "no patch"; exit 2; }
# normalise: worktree = HEAD + patch, demo in tests/
git checkout -q -- src 2>/dev/null; git apply out/patch.diff || { echo "patch does not apply to HEAD"; exit 2; }
mkdir -p tests; cp out/seed_demo.rs /tmp/seed_demo_${id}_${k}.rs; rm -f tests/seed_demo.rs
base=$(cargo test --workspace --no-fail-fast --offline 2>&1 | grep -E "^test result" | awk '{p+=$4; f+=$6} END {print p" passed "f" failed"}')
cp /tmp/seed_demo_${id}_${k}.rs tests/seed_demo.rs
with=$(cargo test --offline $feat --test seed_demo 2>&1 | grep -E "^test result" | tail -1)
git apply -R out/patch.diff
without=$(cargo test --offline $feat --test seed_demo 2>&1 | grep -E "^test result" | tail -1)
git apply out/patch.diff
echo "SEED $id/$k baseline-with-change: $base"
echo "SEED $id/$k demo-with-change:     $with"
echo "SEED $id/$k demo-without-change:  $without"
rm -rf $W/target
