#!/bin/bash
# usage: seed_run_iso.sh <patch.diff> <tag> <tier> <check ids...>
# Runs checks against a patched COPY of /repo's HEAD without touching /repo or /verif:
#   /tmp/sri_<tag>/repo   git worktree of /repo HEAD + patch
#   /tmp/sri_<tag>/verif  copy of /verif (no target, no .git) whose harness points at that worktree
# so that several seeded changes can be tried in parallel and a background run against /repo is not disturbed.
# The scratch directory (with its build output) is removed at the end unless KEEP=1.
set -u
patch=$(realpath "$1"); tag=$2; tier=$3; shift 3
S=/tmp/sri_$tag
rm -rf "$S"; git -C /repo worktree prune
mkdir -p "$S" || exit 2
cleanup() { [ "${KEEP:-0}" = 1 ] && return; git -C /repo worktree remove --force "$S/repo" 2>/dev/null; rm -rf "$S"; git -C /repo worktree prune; }
trap cleanup EXIT
git -C /repo worktree add --detach "$S/repo" HEAD >/dev/null 2>&1 || { echo "worktree failed"; exit 2; }
( cd "$S/repo" && git apply "$patch" ) || { echo "SEEDRUN $tag patch does not apply"; exit 2; }
rsync -a --exclude /target --exclude /.git --exclude /replays --exclude /.scratch --exclude /fuzz/target --exclude /fuzz/corpus /verif/ "$S/verif/"
sed -i "s#path = \"/repo\"#path = \"$S/repo\"#" "$S/verif/harness/Cargo.toml"
sed -i "s#/verif/target#$S/verif/target#" "$S/verif/harness/.cargo/config.toml"
export VERIF_ROOT="$S/verif"
for c in "$@"; do
  s=$(date +%s); out=$(cd "$S/verif" && ./check "$c" "$tier" 2>&1); rc=$?; e=$(date +%s)
  echo "SEEDRUN $tag check=$c tier=$tier exit=$rc $((e-s))s $(echo "$out" | grep -c '^VIOLATION') violations"
  echo "$out" | grep -A1 '^VIOLATION' | head -4 | cut -c1-300 | sed 's/^/    /'
  [ $rc -eq 2 ] && echo "$out" | tail -5 | cut -c1-300 | sed 's/^/    ! /'
done
