#!/bin/bash
# usage: seed_regress.sh [jobs] [filter-regex]  — run every seeded change under seeded/ against the quick tier of the check of
# its own property, each in isolation (tools/seed_run_iso.sh), <jobs> at a time; prints one line per change.
# A change listed with "also": in its meta.json run_against_checks is additionally run against those checks.
jobs=${1:-4}; filt=${2:-.}
here="$(cd "$(dirname "$0")" && pwd)"
ls -d "$here"/../seeded/*/ | while read -r d; do
  n=$(basename "$d"); [ -f "$d/patch.diff" ] || continue
  echo "$n" | grep -Eq "$filt" || continue
  echo "$n"
done | xargs -P "$jobs" -I{} bash -c 'n={}; id=${n%%_*}; out=$("'"$here"'/seed_run_iso.sh" "'"$here"'/../seeded/$n/patch.diff" "rg_$n" quick "$id" 2>&1); echo "$out" | grep "^SEEDRUN" | sed "s/^SEEDRUN rg_/SEED /"; echo "$out" | grep -m1 "sig=" | cut -c1-200'
