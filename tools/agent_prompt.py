#!/usr/bin/env python3
import json, sys, re
pid = sys.argv[1]
extra = sys.argv[2] if len(sys.argv) > 2 else ""
prop = [json.loads(l) for l in open('/verif/properties.jsonl') if json.loads(l)['id'] == pid][0]
design = open('/verif/DESIGN.md').read()
m = re.search(r'(### %s — .*?)(?=\n### C\d\d — |\n-{20,})' % pid, design, re.S)
sec = m.group(1) if m else ''
print(f"""You are building ONE property-based-testing check module for a verification harness of the Rust crate
`rust-rule-engine` (sources in /repo; do NOT edit /repo or /verif — you work in a private workspace).

## Setup (run first)
    /verif/tools/agent_setup.sh {pid}
This creates /tmp/w_{pid}/ with: `harness/` (a copy of the harness crate — read `harness/src/core.rs`, `harness/src/runner.rs`,
`harness/src/c13.rs` (reference example) and /verif/tools/MODULE_GUIDE.md FIRST), `repo/` (your own git worktree of the engine, with the
`verif-hooks` cargo feature available; the harness copy depends on it by path), and `./check` (builds + runs: `/tmp/w_{pid}/check {pid} quick`,
`VERIF_SEED=7 /tmp/w_{pid}/check {pid} thorough`, `/tmp/w_{pid}/check {pid} --replay <file>`). Evidence lands in /tmp/w_{pid}/evidence, replays in
/tmp/w_{pid}/replays. Everything is offline; the first build takes ~1 min. Use `VERIF_DEBUG=1` to see stderr of the worker process.

## Your job
Write `/tmp/w_{pid}/harness/src/{pid.lower()}.rs` exporting `pub fn property() -> Property` and register it in your copy of
`harness/src/lib.rs` (add `pub mod {pid.lower()};` and `{pid.lower()}::property()` to `registry()`). Touch no other harness file; if you
believe the shared runner needs a change, describe it in your report instead.

The property (fixed, given — do not reinterpret it more strongly than it reads):

{json.dumps(prop, indent=1)}

The planned design for it (from /verif/DESIGN.md; G=generator, O=oracle, NT=non-trivial rule, B=bounds, S=mutants to try, L=limits).
Follow it unless reading the code shows it is wrong; hook names mentioned there exist behind feature `verif-hooks`
(`rust_rule_engine::verif_hooks::set_clock_ms(Some(ms))`, `Facts::verif_undo_depth`, `GrlReteLoader::verif_convert_rule`, schedule points via
`verif_hooks::set_sched_callback(Some(fn(u32)))`):

{sec}

{extra}

## Method
1. Read the anchored source files in /tmp/w_{pid}/repo thoroughly before writing anything, so the generator only produces inputs the
   API accepts and the oracle demands exactly what the statement says.
2. Write generator + model/oracle + classifier. One `run_*` function per sub-oracle ("part"); random parts and, where the design says
   so, exhaustive parts (small alphabets driven by `ctx.exh`). Size budgets so that quick takes 5–40 s and thorough 3–10 min on 16 cores.
3. Run quick on the unchanged tree. For EVERY violation reported: reproduce from the replay file, read the engine code, and decide:
   (a) oracle/generator wrong or stronger than the statement → fix your module (note it in the report);
   (b) genuine defect of the engine → keep the oracle as it is. Write the minimal case, the root cause (file:line), and a proposed minimal
       repair as a unified diff against your worktree (`git -C /tmp/w_{pid}/repo diff > /tmp/w_{pid}/out/fix_<name>.diff`) — a patch a maintainer
       would accept, not special-casing the input — and verify with the fix applied that (i) `cd /tmp/w_{pid}/repo && cargo test --workspace --no-fail-fast --offline`
       still passes (199 tests + doctests; do not edit tests) and (ii) your check is silent. ALSO make the search continue behind the defect on the
       UNFIXED tree: give the generator an exclusion switch per finding (see MODULE_GUIDE "Known findings"), pick a specific `sig` for the failure, save the shrunk
       witness replay file as /tmp/w_{pid}/out/corpus/<finding>.json (copy of the replay JSON with `"no_exclusions": true` and `"expect": "known"` added), and propose the
       KNOWN_FINDINGS.txt line: `known: property={pid} id={pid}-F<n> sig=<glob> witness=corpus/{pid}/<finding>.json <one line: what fails>`.
       You can test that mechanism by putting the line into /tmp/w_{pid}/KNOWN_FINDINGS.txt and the witness into /tmp/w_{pid}/corpus/{pid}/:
       the check must then print `KNOWN-FINDING: ...` and exit 0 on the unfixed tree, and print nothing for it and exit 0 on the fixed tree.
       I (the coordinator) decide later whether each defect gets a `fix:` commit or stays a known finding; give me both.
4. Silence: with all confirmed defects either fixed in your worktree or excluded+listed, run quick with VERIF_SEED in 1..8 and thorough with 2 seeds: must exit 0 with no VIOLATION line.
   Check the evidence JSON: non-trivial share healthy, label histogram covers the classes the design names; fix the generator if a class is near zero.
5. Sensitivity: apply 3–5 realistic mutants (the "S" list plus your own; each must compile and pass the repo's `cargo test --workspace --offline`) one at a time in your worktree,
   run quick, record killed/missed + time, revert (`git -C /tmp/w_{pid}/repo checkout -- .`). Strengthen the module where a mutant that really breaks the property survives.
   Save each as /tmp/w_{pid}/out/mutants/<name>.diff.
6. Deliver in /tmp/w_{pid}/out/: `{pid.lower()}.rs` (final module), `REPORT.md` (what is generated, oracles, budgets + measured wall times, evidence excerpt,
   every violation triaged as above, mutant kill table, limits/assumptions, anything I must know), `fix_*.diff`, `corpus/*.json`, `mutants/*.diff`.
   Then clean up: `rm -rf /tmp/w_{pid}/target; git -C /repo worktree remove --force /tmp/w_{pid}/repo` (keep /tmp/w_{pid}/out and /tmp/w_{pid}/harness).

Hard rules: never edit /repo or /verif; no network; no new crates (proptest, libc, serde_json, chrono and the engine are available to the harness);
determinism (all randomness through `Src`; no wall clock in oracles); a false alarm is worse than a miss. Your final message to me should be a concise
summary (module status, defects found with one-line root causes and whether your proposed fix is small/safe, mutants killed/missed, open issues).""")
