//! C05 — no text makes a parser or the expression evaluator panic or hang.
//!
//! Fourteen entry points (`Target`), each driven as a function `&str -> ()`: the call either returns (a
//! value or an error — both fine) or the case is a violation: a panic (caught; signature = panic location),
//! the death of the process by a signal (stack overflow / abort) or a run longer than the watchdog.
//!
//! Input families (all valid UTF-8, ≤ 4 KiB, matched bracket nesting ≤ 32):
//!   raw     bytes lossily decoded (pure, ASCII-biased, or embedded at a random place of a valid seed)
//!   soup    tokens of the language's vocabulary + multi-byte tokens, bare or in the slots of a valid skeleton
//!   mutate  valid seeds (hand-written from the repository's docs / .grl files / tests, or printed from the
//!           typed rule AST of `typed.rs`) changed 1–4 times by: truncation at a byte, insertion / replacement
//!           of a multi-byte character, deletion of a delimiter / slice / bracket group, duplication, splice of
//!           another seed, insertion of a vocabulary token, a long run of one character, replacement of a
//!           number by an extreme one, swap
//!   edits   (exhaustive) every seed × every single {truncation, character deletion, number → extreme number,
//!           bracket group dropped or emptied, multi-byte insertion; thorough: 4 probes, also replacement}
//!   deep    (exhaustive) structured extremes: unit^n for 31 units (prefix operators, unbalanced openers and
//!           quotes, infix chains, multi-byte runs, keywords) and n = 1,2,4,…,4096 (quick: ≤ 512), and balanced
//!           nesting up to depth 32; bare, followed by an operand, and in every slot of a valid skeleton
//!   text    never searched: a literal text, so that a minimised witness is stored as the text itself
//!
//! Every call runs on a thread with an explicit 8 MiB stack (the default main-thread stack; the runner's
//! workers have 64 MiB, which would hide overflows). `deep` cases of 1000 bytes or more run in a child
//! process (this binary, `--replay`), so that a stack overflow or a hang is observed as an exit status and gets
//! a signature of its own (`stack-overflow@<target>`, `hang@<target>`) instead of taking the worker down.
//!
//! Known findings → exclusion switches (`apply_exclusions`), each on only while its `known:` line is listed.
//!
//! Development aids (stderr only, never part of a verdict): VERIF_C05_PARTS=a,b restricts the run to the named
//! parts; VERIF_C05_SLOW_MS=n (with VERIF_DEBUG=1) reports cases slower than n ms, VERIF_C05_SLOW_DIR saves them.

use crate::core::*;
use crate::findings;
use crate::runner::*;
use crate::typed;
use rust_rule_engine::backward::{parse_aggregate_query, DisjunctionParser, ExpressionParser, GRLQueryParser};
use rust_rule_engine::backward::nested::NestedQueryParser;
use rust_rule_engine::backward::query::QueryParser as BQueryParser;
use rust_rule_engine::parser::grl::stream_syntax::{parse_stream_join_pattern, parse_stream_pattern, parse_window_spec};
use rust_rule_engine::{Facts, GRLParser, Value};
use std::collections::HashMap;
use std::sync::OnceLock;

pub const MAX_LEN: usize = 4096;
pub const MAX_NEST: usize = 32;

// ------------------------------------------------------------------ targets

#[derive(Clone, Copy, Debug, PartialEq, Eq, Hash)]
pub enum Target {
    ParseRules,
    ParseRule,
    ParseWithModules,
    BQuery,
    ExprParser,
    GrlQuery,
    GrlQueries,
    Aggregate,
    Disjunction,
    Nested,
    StreamPattern,
    StreamJoin,
    WindowSpec,
    Eval,
}
use Target::*;

pub const ALL_TARGETS: [Target; 14] = [
    ParseRules,
    ParseRule,
    ParseWithModules,
    BQuery,
    ExprParser,
    GrlQuery,
    GrlQueries,
    Aggregate,
    Disjunction,
    Nested,
    StreamPattern,
    StreamJoin,
    WindowSpec,
    Eval,
];

#[derive(Clone, Copy, Debug, PartialEq, Eq)]
pub enum Lang {
    Grl,
    BExpr,
    GrlQ,
    Agg,
    Disj,
    Nest,
    Stream,
    Eval,
}

impl Target {
    pub fn name(self) -> &'static str {
        match self {
            ParseRules => "parse_rules",
            ParseRule => "parse_rule",
            ParseWithModules => "parse_with_modules",
            BQuery => "query_parser",
            ExprParser => "expression_parser",
            GrlQuery => "grl_query",
            GrlQueries => "grl_queries",
            Aggregate => "aggregate_query",
            Disjunction => "disjunction",
            Nested => "nested_query",
            StreamPattern => "stream_pattern",
            StreamJoin => "stream_join",
            WindowSpec => "window_spec",
            Eval => "evaluate_expression",
        }
    }
    pub fn lang(self) -> Lang {
        match self {
            ParseRules | ParseRule | ParseWithModules => Lang::Grl,
            BQuery | ExprParser => Lang::BExpr,
            GrlQuery | GrlQueries => Lang::GrlQ,
            Aggregate => Lang::Agg,
            Disjunction => Lang::Disj,
            Nested => Lang::Nest,
            StreamPattern | StreamJoin | WindowSpec => Lang::Stream,
            Eval => Lang::Eval,
        }
    }
}

/// the fixed 6-field store of the arithmetic evaluator target
pub fn eval_store() -> Facts {
    let f = Facts::new();
    f.set("a", Value::Integer(7));
    f.set("b", Value::Number(2.5));
    f.set("s", Value::String("x1".into()));
    f.set("t", Value::Boolean(true));
    f.set("Order.quantity", Value::Integer(3));
    let mut o = HashMap::new();
    o.insert("n".to_string(), Value::Integer(4));
    o.insert("v".to_string(), Value::Array(vec![Value::Integer(1), Value::Integer(2)]));
    o.insert("z".to_string(), Value::Null);
    f.set("U", Value::Object(o));
    f
}

/// Drive one entry point. The return value only classifies the outcome; it is never judged.
pub fn call(t: Target, text: &str) -> &'static str {
    fn r<T, E>(x: Result<T, E>) -> &'static str {
        if x.is_ok() {
            "ok"
        } else {
            "err"
        }
    }
    match t {
        ParseRules => match GRLParser::parse_rules(text) {
            Ok(v) if v.is_empty() => "ok-empty",
            Ok(_) => "ok",
            Err(_) => "err",
        },
        ParseRule => r(GRLParser::parse_rule(text)),
        ParseWithModules => match GRLParser::parse_with_modules(text) {
            Ok(p) if p.rules.is_empty() => "ok-empty",
            Ok(_) => "ok",
            Err(_) => "err",
        },
        BQuery => r(BQueryParser::parse(text)),
        ExprParser => r(ExpressionParser::parse(text)),
        GrlQuery => r(GRLQueryParser::parse(text)),
        GrlQueries => match GRLQueryParser::parse_queries(text) {
            Ok(v) if v.is_empty() => "ok-empty",
            Ok(_) => "ok",
            Err(_) => "err",
        },
        Aggregate => r(parse_aggregate_query(text)),
        Disjunction => {
            if DisjunctionParser::parse(text).is_some() {
                "ok"
            } else {
                "none"
            }
        }
        Nested => {
            if NestedQueryParser::parse(text).goals.is_empty() {
                "ok-empty"
            } else {
                "ok"
            }
        }
        StreamPattern => r(parse_stream_pattern(text)),
        StreamJoin => r(parse_stream_join_pattern(text)),
        WindowSpec => r(parse_window_spec(text)),
        Eval => {
            let f = eval_store();
            r(rust_rule_engine::expression::evaluate_expression(text, &f))
        }
    }
}

type Job = (Target, String);
type Outcome = Result<&'static str, String>;

struct Helper {
    tx: std::sync::mpsc::Sender<Job>,
    rx: std::sync::mpsc::Receiver<Outcome>,
}

fn spawn_helper() -> Helper {
    let (tx, job_rx) = std::sync::mpsc::channel::<Job>();
    let (res_tx, rx) = std::sync::mpsc::channel::<Outcome>();
    std::thread::Builder::new()
        .name("c05-8mib".into())
        .stack_size(8 << 20)
        .spawn(move || {
            // every call starts at the same, shallow stack depth of this thread
            for (t, text) in job_rx {
                if res_tx.send(catch(|| call(t, &text))).is_err() {
                    break;
                }
            }
        })
        .expect("spawn 8 MiB thread");
    Helper { tx, rx }
}

thread_local! {
    static HELPER: std::cell::RefCell<Option<Helper>> = const { std::cell::RefCell::new(None) };
}

/// Run the call on a thread with the default main-thread stack size (8 MiB); one such thread serves each
/// worker (creating a thread per case costs milliseconds here). Ok(outcome), or Err("file:line: message")
/// for a panic. A stack overflow kills the process.
pub fn call_on_8mib(t: Target, text: &str) -> Outcome {
    HELPER.with(|cell| {
        let mut h = cell.borrow_mut();
        if h.is_none() {
            *h = Some(spawn_helper());
        }
        let hp = h.as_ref().unwrap();
        if hp.tx.send((t, text.to_string())).is_err() {
            *h = None;
            return Err("?: the 8 MiB helper thread is gone".into());
        }
        match hp.rx.recv() {
            Ok(r) => r,
            Err(_) => {
                *h = None;
                Err("?: the 8 MiB helper thread died".into())
            }
        }
    })
}

// ------------------------------------------------------------------ vocabulary, seeds

/// multi-byte probes: 2-, 3- and 4-byte characters, combining mark, Arabic-Indic digit, non-ASCII
/// white space (trimmed by `str::trim`), characters whose lower-casing changes the byte length
pub const MB: [&str; 14] = ["é", "日本", "😀", "e\u{301}", "٣", "\u{a0}", "\u{2028}", "İ", "ß", "\u{feff}", "“", "\u{fffd}", "\u{3000}", "Ω"];
/// the probes used by the exhaustive `edits` part (one per UTF-8 length + white space)
/// ('İ' is one of the few characters whose lower-case form has another UTF-8 length: offsets found in a case-folded copy
/// of a text do not fit the text; U+212A KELVIN SIGN and U+1E9E are of the few whose lower-case form is SHORTER)
pub const MB_EDIT: [char; 7] = ['é', 'İ', '\u{212a}', '日', '😀', '\u{a0}', '\u{1e9e}'];

const V_GRL: &[&str] = &[
    " ", "\n", "rule", "when", "then", "{", "}", "(", ")", "\"", "==", "&&", "||", "!", ";", "=", ".", ",", "X", "User.Age", "a.b", "1", "0", "42", "3.14", "-1", "true", "false",
    "null", "\"R1\"", "\"abc\"", "'q'", "salience", "no-loop", "lock-on-active", "agenda-group", "activation-group", "date-effective", "date-expires", "\"2024-01-01\"",
    "defmodule", "MAIN", "export:", "import:", "all", "none", "rules", "templates", ";; MODULE:", "exists(", "forall(", "accumulate(", "test(", "sum(", "$x", "$?x", "$x:", ":",
    "from stream(", "over window(", "sliding", "tumbling", "min", "5 min", "count", "first", "last", "empty", "not_empty", "contains", "startsWith", "endsWith", "matches", "in",
    "!=", ">=", "<=", ">", "<", "+=", "+", "-", "*", "/", "%", "[", "]", "'", "//", "\t", "\r\n", "1e9", "99999999999999999999", "Retract", "retract($x)", "log", "Log(\"m\")",
    "ActivateAgendaGroup", "ScheduleRule", "CompleteWorkflow", "SetWorkflowData", "$x.set(1)", "f(1, 2)", "\\", "#", "?", "@", "_", "rule R {", "when X.a == 1 then", "X.b = 1;",
];
const V_BEXPR: &[&str] = &[
    " ", "a", "User.IsVIP", "==", "true", "&&", "||", "!", "(", ")", "1", "\"s\"", "?x", "!=", ">=", "<=", ">", "<", "false", "null", "NOT ", "-", ".", "\"", "\\", "\\\"", "0.5", "-3",
    "1.2.3", "99999999999999999999", "_", "?", "=", "&", "|", "\n", "\t", ",", "'", "[", "]", "truex", "nullable", "+", "*",
];
const V_GRLQ: &[&str] = &[
    " ", "\n", "query", "\"Q\"", "{", "}", "goal:", "A == true", "strategy:", "depth-first", "breadth-first", "iterative", "max-depth:", "max-solutions:", "10", "enable-memoization:",
    "enable-optimization:", "true", "false", "when:", "on-success:", "on-failure:", "on-missing:", "X.a = 1;", "LogMessage(\"m\");", "(", ")", "\"", "\\", ";", "=", "&&", "||", "!=",
    "query \"Q\" {", "goal: (A == 1", "x", ".", ",", "'", "-", "99999999999999999999999", "//", "rule", "Print(", "\\\"", "\r",
];
const V_AGG: &[&str] = &[
    " ", "count", "(", ")", "?x", " WHERE ", "p(?x)", " AND ", "?x > 1", "sum", "avg", "min", "max", "first", "last", "COUNT", "WHERE", "AND", "?", ",", "\"", "x", "1", "\n", "İ", "K",
];
const V_DISJ: &[&str] = &[" ", "(", ")", "A", " OR ", "B", "\"", "p(?x)", "OR", " AND ", "(A OR B)", ",", "x == 1", "\n", "'", "  ", "O", "R"];
const V_NEST: &[&str] = &[" ", "g(?x)", " WHERE ", "p(?x, ?y)", " AND ", "(", ")", "WHERE", "AND", "?z", "\"", ",", " OR ", "W", "\n", "x"];
const V_STREAM: &[&str] = &[
    " ", "e", ":", "Evt", "from", "stream", "(", "\"s\"", ")", "over", "window", "5", "min", ",", "sliding", "tumbling", "&&", "\"", "ms", "sec", "seconds", "hour", "hours", "minutes",
    "session", "99999999999999999999", "999999999999999999", "18446744073709551615", "0", "_", "e2", "\n", "\t", "from stream(\"s\")", "over window(5 min, sliding)", "e: Evt", "-", ".",
];
const V_EVAL: &[&str] = &[
    " ", "a", "+", "1", "b", "-", "*", "/", "%", "(", ")", "s", "t", "Order.quantity", "U.n", "U.v", "U.z", "U.n.q", "U", "missing", "\"", "'", "\"x\"", "'y'", "0", "2.5", "-3", "1e308",
    "9223372036854775807", "9223372036854775808", "NaN", "inf", "0.0", ".", "\"a+b\"", "\t", "\n", "_", "e", "1e", "+-", "--",
];

pub fn vocab(l: Lang) -> &'static [&'static str] {
    match l {
        Lang::Grl => V_GRL,
        Lang::BExpr => V_BEXPR,
        Lang::GrlQ => V_GRLQ,
        Lang::Agg => V_AGG,
        Lang::Disj => V_DISJ,
        Lang::Nest => V_NEST,
        Lang::Stream => V_STREAM,
        Lang::Eval => V_EVAL,
    }
}

// every GRL seed is shorter than GRL_HEAD + GRL_TAIL, so the slow-regex exclusion does not cut it
const S_GRL: &[&str] = &[
    "rule \"CheckAge\" salience 10 {\n    when\n        User.Age >= 18 && User.Country == \"US\"\n    then\n        User.IsAdult = true;\n        log(\"adult\");\n}\n",
    "rule R1 \"desc\" no-loop lock-on-active salience 5 agenda-group \"g1\" activation-group \"a1\" {\n when (X.a > 1 || !(X.b == 'q')) && X.c != null\n then X.d = X.a * 2 + 1; X.e += 1; Retract($X); }",
    "rule \"D\" date-effective \"2024-01-01\" date-expires \"2030-12-31T00:00:00Z\" { when X.a < 1.5 then X.s = \"v\"; }",
    "// comment\nrule \"P\" {\n  when\n    exists(C.tier == \"VIP\") && !exists(O.st == \"p\") && forall(S.ok == true)\n  then\n    ActivateAgendaGroup(\"next\");\n    ScheduleRule(5000, \"P2\");\n}\n",
    "rule \"W\" { when W.a == 1 then CompleteWorkflow(\"wf\"); SetWorkflowData(\"k=1\"); retract($W); }",
    "rule \"Acc\" { when accumulate(O($a: amt, st == \"d\", k != 1), sum($a)) && A.b > 0 then T.total = 1; }",
    "rule \"MF\" { when O.items count >= 2 && O.items $?all && Q.tasks first $t && C.items not_empty && C.tags empty && P.tags contains \"x\" then log(\"m\"); }",
    "rule \"T\" { when test(isValid(U.email, 3)) && $c : Car( up == true && speed < max ) && calc(X.a, 2) >= 10 && X.n % 3 == 0 then $c.setSpeed($c.Speed + 1, \"s\"); f(20000, X.a); }",
    "rule \"St\" salience 100 {\n  when\n    e: Ev from stream(\"s\") over window(10 min, sliding) && e.id == \"t\"\n  then\n    A.t = \"S\";\n}\n",
    "rule \"Arr\" { when X.role in [\"admin\", 'mod', 3] && X.name startsWith \"J\" && X.mail matches \"a.*\" then X.tags = [1, 2.5, true]; X.msg = \"Hi \" + X.name; }",
    ";; MODULE: SENSORS - t\ndefmodule SENSORS {\n export: all\n}\ndefmodule CONTROL {\n import: SENSORS (rules * (templates t))\n export: none\n}\nrule \"Temp\" {\n when t.value > 28\n then println(\"Hot\");\n}\n",
    "rule One { when a.b == 1 then c.d = 2; }\nrule \"Two\" { when a.b == 2 then c.d = 3; }\n",
    // module markers in other placements: directly in front of the rule, followed by non-ASCII text, two sections
    ";; MODULE:rule \"R\" { when X.a == 1 then X.b = 1; }",
    ";; MODULE:制御 - t\nrule \"R\" { when X.a == 1 then X.b = 1; }\n;; MODULE: B\nrule S { when X.a == 2 then X.b = 2; }",
];
const S_BEXPR: &[&str] = &[
    "User.IsVIP == true && Order.Amount > 1000",
    "(User.IsVIP == true && Order.Amount > 1000) || (User.Points >= 100 && Order.Discount < 0.5)",
    "NOT User.IsBanned == true",
    "!(?x != \"a\\\"b\\n\") || !flag && -12.5 <= n",
    "null == A.b && false != true",
];
const S_GRLQ: &[&str] = &[
    "query \"CheckVIP\" {\n    goal: User.IsVIP == true\n    strategy: depth-first\n    max-depth: 10\n    on-success: {\n        User.DiscountRate = 0.2;\n        LogMessage(\"VIP confirmed\");\n    }\n    on-failure: {\n        LogMessage(\"Not a VIP user\");\n    }\n}\n",
    "query \"Q2\" {\n  goal: (A.x == true && B.y == \"s\\\"(\") || C.z > 10\n  strategy: iterative\n  max-solutions: 5\n  enable-memoization: false\n  enable-optimization: true\n  when: Env.Mode == \"Prod\"\n  on-missing: { Request(\"need\"); X.m = \"v\"; }\n}\nquery \"Q3\" { goal: eligible(?c) WHERE (vip(?c) OR premium(?c)) AND active(?c)\n strategy: breadth-first\n}\n",
    "// two\nquery \"A\" { goal: A == true\n}\nrule \"R\" { when A == 1 then B = 2; }\nquery \"B\" {\n goal: count(?x) WHERE employee(?x)\n on-success: { Total = result; }\n}",
];
const S_AGG: &[&str] = &["count(?x) WHERE employee(?x)", "sum(?amount) WHERE purchase(?item, ?amount) AND ?amount > 100", "AVG( ?s ) WHERE salary(?n, ?s) AND ?s > 1 AND ?n != \"x\"", "first() WHERE p(?x)"];
const S_DISJ: &[&str] = &["(manager(?p) OR senior(?p))", "(A OR (B AND C) OR \"x OR y\")", " ( f(a, OR b) OR c ) "];
const S_NEST: &[&str] = &[
    "grandparent(?x, ?z) WHERE parent(?x, ?y) AND (parent(?y, ?z) WHERE child(?z, ?y))",
    "eligible(?p) WHERE (manager(?p) WHERE senior(?p))",
    "q(?c) WHERE a(?c) AND b(?c) AND  AND c",
];
const S_STREAM: &[&str] = &[
    "event: LoginEvent from stream(\"logins\") over window(10 min, sliding)",
    "e: from stream(\"events\")",
    "click: ClickEvent from stream(\"clicks\") over window(10 min, sliding) && purchase: PurchaseEvent from stream( \"p\" ) over window(1 hour, tumbling)",
    "  over   window( 500 ms , tumbling )",
    "over window(5 min, sliding)",
    "over window(2 hours, tumbling)",
    "over window(30 seconds, sliding)",
];
const S_EVAL: &[&str] = &["Order.quantity * a + 1", "a + b * U.n - 10 / 4 % 3", "\"x\" + s + 'y'", "(a + b) * 2", "-3 + 2.5", "U.n.q - missing"];

pub fn seeds(l: Lang) -> &'static [&'static str] {
    match l {
        Lang::Grl => S_GRL,
        Lang::BExpr => S_BEXPR,
        Lang::GrlQ => S_GRLQ,
        Lang::Agg => S_AGG,
        Lang::Disj => S_DISJ,
        Lang::Nest => S_NEST,
        Lang::Stream => S_STREAM,
        Lang::Eval => S_EVAL,
    }
}

/// valid skeletons with slots (`\u{1}`) for soups
fn skeletons(l: Lang) -> &'static [&'static str] {
    match l {
        Lang::Grl => &[
            "rule \"R\" \u{1} { when \u{1} then \u{1} }",
            "rule R { when X.a == \u{1} then X.b = \u{1}; }",
            "rule \"R\" { when \u{1} then X.b = 1; }",
            "defmodule M { \u{1} }\nrule \"R\" { when X.a == 1 then \u{1}; }",
            "rule \u{1} { when X.a == 1 then X.b = 1; }",
        ],
        Lang::GrlQ => &[
            "query \"Q\" {\n goal: \u{1}\n \u{1}\n}",
            "query \"\u{1}\" { goal: A == 1\n on-success: { \u{1} }\n when: \u{1}\n}",
            "query \"Q\" { goal: A == 1\n \u{1} }\nquery \"P\" { \u{1} }",
        ],
        Lang::Agg => &["count(\u{1}) WHERE \u{1}", "\u{1}(?x) WHERE p(?x) AND \u{1}"],
        Lang::Disj => &["(\u{1} OR \u{1})", "(\u{1})"],
        Lang::Nest => &["g(?x) WHERE \u{1}", "\u{1} WHERE (\u{1} WHERE \u{1})"],
        Lang::Stream => &["e: Evt from stream(\"\u{1}\") over window(\u{1}, \u{1})", "\u{1}: \u{1} from stream(\"s\")\u{1}", "over window(\u{1} \u{1}, sliding)"],
        Lang::BExpr => &["(\u{1}) && \u{1}", "\"\u{1}\" == \u{1}"],
        Lang::Eval => &["a + \u{1}", "(\u{1}) * \u{1}", "\"\u{1}\" + \u{1}"],
    }
}

// ------------------------------------------------------------------ generators

#[derive(Clone, Copy, Debug, PartialEq, Eq)]
pub enum Fam {
    Raw,
    Soup,
    Mutate,
}

/// position in 0..=len from a fixed two-byte draw
fn pos(s: &mut Src, len: usize) -> usize {
    (s.below(65536) * (len + 1)) >> 16
}

fn len_class(s: &mut Src) -> usize {
    match s.weighted(&[6, 4, 2]) {
        0 => s.below(65),
        1 => s.below(513),
        _ => pos(s, MAX_LEN),
    }
}

pub fn clamp(mut t: String) -> String {
    if t.len() > MAX_LEN {
        let mut e = MAX_LEN;
        while !t.is_char_boundary(e) {
            e -= 1;
        }
        t.truncate(e);
    }
    t
}

fn gen_token(s: &mut Src, l: Lang) -> &'static str {
    let v = vocab(l);
    // one byte: vocabulary first (simple tokens first), then the multi-byte probes
    let i = s.below(v.len() + MB.len() * 2);
    if i < v.len() {
        v[i]
    } else {
        MB[(i - v.len()) % MB.len()]
    }
}

fn gen_soup_piece(s: &mut Src, l: Lang, n: usize, sep: usize, out: &mut String) {
    for _ in 0..n {
        if s.overrun > 0 || out.len() > MAX_LEN {
            break;
        }
        out.push_str(gen_token(s, l));
        match sep {
            0 => out.push(' '),
            1 => {}
            _ => {
                if s.below(3) == 0 {
                    out.push(' ')
                }
            }
        }
    }
}

fn gen_raw_bytes(s: &mut Src, n: usize, ascii_bias: bool) -> Vec<u8> {
    let mut b = Vec::with_capacity(n);
    for _ in 0..n {
        if s.overrun > 0 {
            break;
        }
        let x = s.below(256) as u8;
        if ascii_bias {
            // two draws out of three are folded into printable ASCII
            let y = s.below(3);
            b.push(if y < 2 { 0x20 + (x % 0x5f) } else { x });
        } else {
            b.push(x);
        }
    }
    b
}

fn typed_rule(s: &mut Src) -> String {
    let cfg = typed::GenCfg { absent: false, arrays: true, floats: true, strings: true, extremes: true, nested: true, max_depth: 3 };
    let cond = typed::gen_cond(s, &cfg, 0);
    let n = 1 + s.below(2);
    let actions = (0..n).map(|_| typed::gen_assign(s, &cfg)).collect();
    typed::RuleAst { name: "G".into(), salience: s.below(20) as i32, no_loop: s.bool(), cond, actions }.grl()
}

fn pick_seed(s: &mut Src, l: Lang) -> String {
    let sd = seeds(l);
    if l == Lang::Grl {
        let i = s.below(sd.len() + 3);
        if i >= sd.len() {
            return typed_rule(s);
        }
        return sd[i].to_string();
    }
    sd[s.below(sd.len())].to_string()
}

/// numbers at and beyond the edges of the integer types the parsers convert to
pub const EXTREME_NUMBERS: [&str; 10] =
    ["0", "18446744073709551615", "999999999999999999", "99999999999999999999", "9223372036854775807", "2147483648", "4294967296", "-1", "1e309", "00000000000000000001"];

/// byte ranges of the maximal ASCII-digit runs
fn digit_runs(text: &str) -> Vec<(usize, usize)> {
    let b = text.as_bytes();
    let mut v = Vec::new();
    let mut i = 0;
    while i < b.len() {
        if b[i].is_ascii_digit() {
            let st = i;
            while i < b.len() && b[i].is_ascii_digit() {
                i += 1;
            }
            v.push((st, i));
        } else {
            i += 1;
        }
    }
    v
}

fn replace_number(text: &str, which: usize, by: &str) -> String {
    let runs = digit_runs(text);
    if runs.is_empty() {
        return format!("{}{}", text, by);
    }
    let (a, b) = runs[which % runs.len()];
    format!("{}{}{}", &text[..a], by, &text[b..])
}

/// (open, close) character positions of every bracket group that is closed by a matching bracket
fn bracket_groups(chars: &[char]) -> Vec<(usize, usize)> {
    let mut stack: Vec<(usize, char)> = Vec::new();
    let mut v = Vec::new();
    for (i, c) in chars.iter().enumerate() {
        match c {
            '(' | '[' | '{' => stack.push((i, *c)),
            ')' | ']' | '}' => {
                let want = match c {
                    ')' => '(',
                    ']' => '[',
                    _ => '{',
                };
                if let Some(k) = stack.iter().rposition(|x| x.1 == want) {
                    v.push((stack[k].0, i));
                    stack.truncate(k);
                }
            }
            _ => {}
        }
    }
    v.sort();
    v
}

/// remove the `which`-th bracket group: with its brackets (`keep_brackets` false) or only its content
fn drop_group(text: &str, which: usize, keep_brackets: bool) -> String {
    let chars: Vec<char> = text.chars().collect();
    let g = bracket_groups(&chars);
    if g.is_empty() {
        return text.to_string();
    }
    let (a, b) = g[which % g.len()];
    let (a, b) = if keep_brackets { (a + 1, b) } else { (a, b + 1) };
    chars[..a].iter().chain(chars[b..].iter()).collect()
}

const DELIMS: &[char] = &['{', '}', '(', ')', '"', '\'', ';', ':', ',', '[', ']', '.', '=', ' ', '\n'];

fn mutate_once(s: &mut Src, l: Lang, text: String) -> String {
    let op = s.below(12);
    let a = s.below(65536);
    let b = s.below(65536);
    let k = s.below(256);
    let chars: Vec<char> = text.chars().collect();
    let n = chars.len();
    let at = |x: usize, m: usize| (x * (m + 1)) >> 16;
    match op {
        0 => {
            // truncate at an arbitrary byte (lossy: a split character becomes U+FFFD)
            let cut = at(a, text.len());
            String::from_utf8_lossy(&text.as_bytes()[..cut]).into_owned()
        }
        1 => {
            // insert a multi-byte probe
            let p = at(a, n);
            let mut o: String = chars[..p].iter().collect();
            o.push_str(MB[k % MB.len()]);
            o.extend(chars[p..].iter());
            o
        }
        2 => {
            // replace one character by a multi-byte probe
            if n == 0 {
                return text;
            }
            let p = at(a, n - 1);
            let mut o: String = chars[..p].iter().collect();
            o.push_str(MB[k % MB.len()]);
            o.extend(chars[p + 1..].iter());
            o
        }
        3 => {
            // delete a delimiter (the first one at or after a random position), else that character
            if n == 0 {
                return text;
            }
            let p0 = at(a, n - 1);
            let p = (p0..n).find(|&i| DELIMS.contains(&chars[i])).unwrap_or(p0);
            chars.iter().enumerate().filter(|(i, _)| *i != p).map(|(_, c)| *c).collect()
        }
        4 => {
            // duplicate a slice
            let (x, y) = (at(a, n), at(b, n));
            let (x, y) = (x.min(y), x.max(y));
            let y = y.min(x + 64 + k);
            let mut o: String = chars[..y].iter().collect();
            o.extend(chars[x..y].iter());
            o.extend(chars[y..].iter());
            o
        }
        5 => {
            // splice a slice of another seed
            let other: Vec<char> = seeds(l)[k % seeds(l).len()].chars().collect();
            let p = at(a, n);
            let x = at(b, other.len());
            let y = (x + 1 + (k >> 2)).min(other.len());
            let mut o: String = chars[..p].iter().collect();
            o.extend(other[x..y].iter());
            o.extend(chars[p..].iter());
            o
        }
        6 => {
            // insert a vocabulary token
            let p = at(a, n);
            let v = vocab(l);
            let mut o: String = chars[..p].iter().collect();
            o.push_str(v[k % v.len()]);
            o.extend(chars[p..].iter());
            o
        }
        7 => {
            // delete a slice
            let (x, y) = (at(a, n), at(b, n));
            let (x, y) = (x.min(y), x.max(y));
            let mut o: String = chars[..x].iter().collect();
            o.extend(chars[y..].iter());
            o
        }
        8 => {
            // repeat one character / token many times (prefix chains, long runs)
            let p = at(a, n);
            let reps = 1 + (b >> 6); // up to 1024
            let unit: String = if n == 0 || k % 2 == 0 { ["!", "(", "[", "\"", "-", "{", " ", "é"][(k / 2) % 8].to_string() } else { chars[p.min(n - 1)].to_string() };
            let mut o: String = chars[..p].iter().collect();
            for _ in 0..reps {
                if o.len() > MAX_LEN {
                    break;
                }
                o.push_str(&unit);
            }
            o.extend(chars[p..].iter());
            o
        }
        9 => replace_number(&text, a, EXTREME_NUMBERS[k % EXTREME_NUMBERS.len()]),
        10 => drop_group(&text, a, k % 2 == 0),
        _ => {
            // swap two characters
            if n < 2 {
                return text;
            }
            let (x, y) = (at(a, n - 1), at(b, n - 1));
            let mut c = chars.clone();
            c.swap(x, y);
            c.into_iter().collect()
        }
    }
}

/// (family, sub-label, text)
pub fn gen_text(s: &mut Src, l: Lang) -> (Fam, &'static str, String) {
    match s.weighted(&[3, 4, 5]) {
        0 => {
            let mode = s.below(3);
            let n = len_class(s);
            match mode {
                0 => (Fam::Raw, "raw-pure", String::from_utf8_lossy(&gen_raw_bytes(s, n, false)).into_owned()),
                1 => (Fam::Raw, "raw-ascii-biased", String::from_utf8_lossy(&gen_raw_bytes(s, n, true)).into_owned()),
                _ => {
                    let seed = pick_seed(s, l);
                    let p = pos(s, seed.len());
                    let mut b = seed.as_bytes()[..p].to_vec();
                    b.extend(gen_raw_bytes(s, n.min(96), s.overrun == 0 && n % 2 == 0));
                    b.extend_from_slice(&seed.as_bytes()[p..]);
                    (Fam::Raw, "raw-in-seed", String::from_utf8_lossy(&b).into_owned())
                }
            }
        }
        1 => {
            let sk = skeletons(l);
            let use_sk = s.below(3); // 0: bare soup, 1,2: soup in the slots of a valid skeleton
            let sep = s.below(3);
            let budget = match s.weighted(&[6, 4, 1]) {
                0 => s.below(13),
                1 => s.below(65),
                _ => s.below(256) * 4,
            };
            if use_sk == 0 {
                let mut o = String::new();
                gen_soup_piece(s, l, budget, sep, &mut o);
                (Fam::Soup, "soup-bare", o)
            } else {
                let k = sk[s.below(sk.len())];
                let slots = k.matches('\u{1}').count().max(1);
                let mut o = String::new();
                for (i, part) in k.split('\u{1}').enumerate() {
                    if i > 0 {
                        let m = if budget == 0 { 0 } else { 1 + s.below((2 * budget / slots).max(1)) };
                        gen_soup_piece(s, l, m, sep, &mut o);
                    }
                    o.push_str(part);
                }
                (Fam::Soup, "soup-skeleton", o)
            }
        }
        _ => {
            let mut t = pick_seed(s, l);
            let k = 1 + s.weighted(&[6, 3, 2, 1]);
            for _ in 0..k {
                t = mutate_once(s, l, t);
            }
            (Fam::Mutate, "mutate", t)
        }
    }
}

// ------------------------------------------------------------------ domain and non-trivial predicates

/// Height of the forest of *matched* bracket pairs (each kind on its own); unclosed openers do not count.
pub fn matched_nesting(text: &str) -> usize {
    let mut worst = 0;
    for (o, c) in [('(', ')'), ('[', ']'), ('{', '}')] {
        let mut stack: Vec<usize> = Vec::new();
        let mut root = 0usize;
        for ch in text.chars() {
            if ch == o {
                stack.push(0);
            } else if ch == c {
                if let Some(h) = stack.pop() {
                    let h = h + 1;
                    match stack.last_mut() {
                        Some(top) => *top = (*top).max(h),
                        None => root = root.max(h),
                    }
                }
            }
        }
        for h in stack {
            root = root.max(h);
        }
        worst = worst.max(root);
    }
    worst
}

fn after<'a>(t: &'a str, pat: &str) -> Option<&'a str> {
    t.find(pat).map(|i| &t[i + pat.len()..])
}

/// "reaches past the first syntactic gate of its parser", judged on the text alone
pub fn past_gate(t: Target, text: &str) -> bool {
    let tr = text.trim();
    let starts_ident = |x: &str| x.chars().next().map(|c| c.is_alphanumeric() || c == '_').unwrap_or(false);
    match t {
        // the rule regex can match: `rule`, white space, a name, `{` … `}`
        ParseRules | ParseRule | ParseWithModules => after(text, "rule").and_then(|r| after(r, "{")).map(|r| r.contains('}')).unwrap_or(false),
        // at least one token is consumed by the recursive descent
        BQuery | ExprParser => tr.chars().next().map(|c| c.is_alphanumeric() || "_!(?\"-".contains(c)).unwrap_or(false),
        GrlQuery => after(text, "query").map(|r| r.contains('{') && text.contains("goal:")).unwrap_or(false),
        GrlQueries => after(text, "query").and_then(|r| after(r, "{")).map(|r| r.contains('}')).unwrap_or(false),
        Aggregate => after(tr, " WHERE ").map(|_| tr.contains('(')).unwrap_or(false),
        Disjunction => tr.starts_with('(') && tr.ends_with(')') && tr.contains(" OR "),
        Nested => text.contains(" WHERE "),
        StreamPattern | StreamJoin => starts_ident(text),
        WindowSpec => tr.starts_with("over"),
        // at least one operator split
        Eval => tr.chars().any(|c| "+-*/%".contains(c)),
    }
}

// ------------------------------------------------------------------ known findings → exclusion switches

static LISTED: OnceLock<Vec<String>> = OnceLock::new();

/// ids of the `known:` findings of C05 (KNOWN_FINDINGS.txt, read once). Exclusion switches are on only while
/// their finding is listed, so a `fix:` commit that removes the line also removes the exclusion.
fn known_ids() -> &'static Vec<String> {
    LISTED.get_or_init(|| findings::load(&verif_root().join("KNOWN_FINDINGS.txt")).into_iter().filter(|f| f.kind == "known" && f.property == "C05").map(|f| f.id).collect())
}

/// The fuzz targets compile the list in instead of reading it at run time; must be called before the first case.
pub fn set_listed_ids(ids: Vec<String>) {
    let _ = LISTED.set(ids);
}

fn is_listed(id: &str) -> bool {
    known_ids().iter().any(|k| k == id)
}

pub const F_SLOW_REGEX: &str = "C05-F10";
pub const F_RECURSION_BEXPR: &str = "C05-F8";
pub const F_RECURSION_EVAL: &str = "C05-F9";

/// how many recursion-driving characters a text keeps while an unbounded-recursion finding is listed
const RECURSION_CAP: usize = 200;

/// keep only the first `cap` occurrences of the given characters
fn cap_occurrences(text: &str, units: &[char], cap: usize) -> Option<String> {
    if text.chars().filter(|c| units.contains(c)).count() <= cap {
        return None;
    }
    let mut seen = 0;
    Some(
        text.chars()
            .filter(|c| {
                if units.contains(c) {
                    seen += 1;
                    seen <= cap
                } else {
                    true
                }
            })
            .collect(),
    )
}

/// longest condition atom (after its leading `!`/white space) that the generators keep for the GRL rule
/// targets while the slow-condition-regex finding is listed as known
const ATOM_CAP: usize = 48;

/// Rewrite the `when … then` regions: every piece between `&&` / `||` keeps its leading `!`/white space
/// and at most ATOM_CAP further characters.
fn cap_condition_atoms(text: &str) -> Option<String> {
    let mut out = String::with_capacity(text.len());
    let mut rest = text;
    let mut changed = false;
    while let Some(i) = rest.find("when") {
        out.push_str(&rest[..i + 4]);
        let body = &rest[i + 4..];
        // the engine ends the clause at the first `then` that has white space on both sides
        let mut end = body.len();
        let mut from = 0;
        while let Some(j) = body[from..].find("then") {
            let at = from + j;
            let before = body[..at].chars().next_back().map(|c| c.is_whitespace()).unwrap_or(false);
            let after_ws = body[at + 4..].chars().next().map(|c| c.is_whitespace()).unwrap_or(false);
            if before && after_ws {
                end = at;
                break;
            }
            from = at + 4;
        }
        let clause = &body[..end];
        // split on && and || where the engine does (parenthesis count zero), keeping the separators
        let mut piece = String::new();
        let mut it = clause.chars().peekable();
        let mut depth = 0i32;
        let flush = |piece: &mut String, out: &mut String, changed: &mut bool| {
            // leading negations (`!`, each optionally followed by one blank) are not counted
            let pc: Vec<char> = piece.chars().collect();
            let mut k = 0;
            while k < pc.len() && pc[k] == '!' {
                k += 1;
                if k < pc.len() && pc[k] == ' ' {
                    k += 1;
                }
            }
            out.extend(pc[..k].iter());
            let body = &pc[k..];
            if body.len() > ATOM_CAP {
                *changed = true;
                out.extend(body[..ATOM_CAP].iter());
                out.push(' '); // keep the white space that delimits a following `then`
            } else {
                out.extend(body.iter());
            }
            piece.clear();
        };
        while let Some(c) = it.next() {
            if c == '(' {
                depth += 1;
            } else if c == ')' {
                depth -= 1;
            }
            if (c == '&' || c == '|') && depth == 0 && it.peek() == Some(&c) {
                it.next();
                flush(&mut piece, &mut out, &mut changed);
                out.push(c);
                out.push(c);
            } else {
                piece.push(c);
            }
        }
        flush(&mut piece, &mut out, &mut changed);
        rest = &body[end..];
    }
    out.push_str(rest);
    if changed {
        Some(out)
    } else {
        None
    }
}

/// keep the first `head` and the last `tail` bytes (cut at character boundaries)
fn cap_total(text: &str, head: usize, tail: usize) -> Option<String> {
    if text.len() <= head + tail {
        return None;
    }
    let mut a = head;
    while !text.is_char_boundary(a) {
        a -= 1;
    }
    let mut b = text.len() - tail;
    while !text.is_char_boundary(b) {
        b += 1;
    }
    Some(format!("{}{}", &text[..a], &text[b..]))
}

/// Apply the exclusion switches of the listed known findings to a generated text.
/// `cheap_chain`: a deep case whose repeated unit never reaches a regular expression at full length.
fn apply_exclusions(t: Target, mut text: String, cheap_chain: bool, ctx: &mut Ctx) -> String {
    if ctx.no_exclusions {
        return text;
    }
    if is_listed(F_SLOW_REGEX) {
        // rexile's matcher is super-linear: bound what the regex-based parsers get to see
        let mut hit = false;
        match t.lang() {
            Lang::Grl => {
                if let Some(c) = cap_condition_atoms(&text) {
                    text = c;
                    hit = true;
                }
                if !cheap_chain {
                    if let Some(c) = cap_total(&text, GRL_HEAD, GRL_TAIL) {
                        text = c;
                        hit = true;
                    }
                }
            }
            Lang::GrlQ => {
                if let Some(c) = cap_total(&text, GRLQ_HEAD, GRLQ_TAIL) {
                    text = c;
                    hit = true;
                }
            }
            _ => {}
        }
        if hit {
            ctx.exclude(F_SLOW_REGEX);
        }
    }
    // unbounded recursion (stack overflow in unoptimised / ASan builds): bound the characters that recurse
    if t.lang() == Lang::BExpr && is_listed(F_RECURSION_BEXPR) {
        if let Some(c) = cap_occurrences(&text, &['(', '!'], RECURSION_CAP) {
            text = c;
            ctx.exclude(F_RECURSION_BEXPR);
        }
    }
    if t == Eval && is_listed(F_RECURSION_EVAL) {
        if let Some(c) = cap_occurrences(&text, &['+', '-', '*', '/', '%'], RECURSION_CAP) {
            text = c;
            ctx.exclude(F_RECURSION_EVAL);
        }
    }
    text
}

/// What a libFuzzer target does with its bytes before the call: the same decoding, domain and exclusion
/// switches as the harness. None = outside the domain (bracket nesting > 32).
pub fn fuzz_prepare(t: Target, data: &[u8]) -> Option<String> {
    let text = clamp(String::from_utf8_lossy(&data[..data.len().min(MAX_LEN)]).into_owned());
    let mut ctx = Ctx::new(false);
    let text = apply_exclusions(t, text, false, &mut ctx);
    if matched_nesting(&text) > MAX_NEST {
        return None;
    }
    Some(text)
}

const GRL_HEAD: usize = 128;
const GRL_TAIL: usize = 64;
const GRLQ_HEAD: usize = 768;
const GRLQ_TAIL: usize = 256;

// ------------------------------------------------------------------ judging one (target, text)

fn judge(t: Target, text: &str, ctx: &mut Ctx) -> Verdict {
    let t0 = std::time::Instant::now();
    let r = call_on_8mib(t, text);
    if let Some(ms) = std::env::var("VERIF_C05_SLOW_MS").ok().and_then(|x| x.parse::<u128>().ok()) {
        // development aid only (stderr, never part of a verdict)
        if t0.elapsed().as_millis() >= ms {
            eprintln!("SLOW {} ms {} {:?}", t0.elapsed().as_millis(), t.name(), short(text));
            if let Ok(d) = std::env::var("VERIF_C05_SLOW_DIR") {
                let _ = std::fs::create_dir_all(&d);
                let _ = std::fs::write(std::path::Path::new(&d).join(format!("{}-{}-{:016x}.txt", t.name(), t0.elapsed().as_millis(), hash_str(text))), text);
            }
        }
    }
    finish(t, text, r, ctx)
}

fn finish(t: Target, text: &str, r: Result<&'static str, String>, ctx: &mut Ctx) -> Verdict {
    if !text.is_ascii() {
        ctx.label("non-ascii");
    }
    match r {
        Ok(outcome) => {
            ctx.label(match outcome {
                "ok" => "returned-ok",
                "ok-empty" => "returned-ok-empty",
                "none" => "returned-none",
                _ => "returned-err",
            });
            if past_gate(t, text) {
                ctx.label("past-gate");
                ctx.nontrivial(hash_of(&(t, text)));
            }
            Verdict::Pass
        }
        Err(p) if p.starts_with("?: the 8 MiB helper thread") => Verdict::Discard("harness: the helper thread was lost"),
        Err(p) => {
            let loc = p.split(": ").next().unwrap_or("?").to_string();
            Verdict::fail(format!("panic@{}", loc), format!("{} panicked on {:?}: {}", t.name(), short(text), p))
        }
    }
}

fn short(t: &str) -> String {
    if t.len() <= 200 {
        return t.to_string();
    }
    let mut e = 200;
    while !t.is_char_boundary(e) {
        e -= 1;
    }
    format!("{}…[{} bytes]", &t[..e], t.len())
}

fn target_label(t: Target) -> &'static str {
    t.name()
}

const T_GRL: &[Target] = &[ParseRules, ParseRule, ParseWithModules];
const T_BQUERY: &[Target] = &[BQuery, ExprParser];
const T_GRLQ: &[Target] = &[GrlQuery, GrlQueries];
const T_BMISC: &[Target] = &[Aggregate, Disjunction, Nested];
const T_STREAM: &[Target] = &[StreamPattern, StreamJoin, WindowSpec];
const T_EVAL: &[Target] = &[Eval];

fn gen_random(s: &mut Src, targets: &[Target]) -> (Target, Fam, &'static str, String) {
    let t = targets[s.below(targets.len())];
    let (fam, sub, text) = gen_text(s, t.lang());
    (t, fam, sub, clamp(text))
}

/// Decode a case of any part without executing it (tooling: witness export, triage).
pub fn decode_case(part: &str, s: &mut Src, exh: u32) -> Option<(Target, String)> {
    let tg = match part {
        "grl" => T_GRL,
        "bquery" => T_BQUERY,
        "grlq" => T_GRLQ,
        "bmisc" => T_BMISC,
        "stream" => T_STREAM,
        "eval" => T_EVAL,
        "edits" => {
            let (t, _, text) = gen_edit(s, exh);
            return Some((t, text));
        }
        "deep" => {
            let (t, _, _, _, text) = gen_deep(s, exh);
            return Some((t, text));
        }
        "text" => return Some(gen_literal(s)),
        _ => return None,
    };
    let (t, _, _, text) = gen_random(s, tg);
    Some((t, text))
}

fn run_random(s: &mut Src, ctx: &mut Ctx, targets: &[Target]) -> Verdict {
    let (t, fam, sub, mut text) = gen_random(s, targets);
    if probe_only() {
        return Verdict::Pass;
    }
    text = apply_exclusions(t, text, false, ctx);
    ctx.describe(|| format!("{} [{}] {:?}", t.name(), sub, text));
    if matched_nesting(&text) > MAX_NEST {
        return Verdict::Discard("bracket nesting > 32");
    }
    ctx.label(target_label(t));
    ctx.label(match fam {
        Fam::Raw => "family-raw",
        Fam::Soup => "family-soup",
        Fam::Mutate => "family-mutate",
    });
    ctx.label(sub);
    judge(t, &text, ctx)
}

pub fn run_grl(s: &mut Src, ctx: &mut Ctx) -> Verdict {
    run_random(s, ctx, T_GRL)
}
pub fn run_bquery(s: &mut Src, ctx: &mut Ctx) -> Verdict {
    run_random(s, ctx, T_BQUERY)
}
pub fn run_grlq(s: &mut Src, ctx: &mut Ctx) -> Verdict {
    run_random(s, ctx, T_GRLQ)
}
pub fn run_bmisc(s: &mut Src, ctx: &mut Ctx) -> Verdict {
    run_random(s, ctx, T_BMISC)
}
pub fn run_stream(s: &mut Src, ctx: &mut Ctx) -> Verdict {
    run_random(s, ctx, T_STREAM)
}
pub fn run_eval(s: &mut Src, ctx: &mut Ctx) -> Verdict {
    run_random(s, ctx, T_EVAL)
}

// ------------------------------------------------------------------ exhaustive single edits of every seed

/// choices: target, seed, operation, position. `exh` = 1: truncation + deletion + insertion of 'é' and of 'İ';
/// `exh` = 2 adds the other probes and replacement.
fn gen_edit(s: &mut Src, exh: u32) -> (Target, usize, String) {
    let t = ALL_TARGETS[s.below(ALL_TARGETS.len())];
    let sd = seeds(t.lang());
    let seed = sd[s.below(sd.len())];
    // 0 truncate, 1 delete a character, 2 replace a number by an extreme one, 3 drop a bracket group or its content,
    // 4.. multi-byte insertion (then replacement)
    let nops = if exh >= 2 { 4 + 2 * MB_EDIT.len() } else { 7 };
    let op = s.below(nops);
    let chars: Vec<char> = seed.chars().collect();
    let text = match op {
        0 => {
            let cut = s.below(seed.len() + 1);
            String::from_utf8_lossy(&seed.as_bytes()[..cut]).into_owned()
        }
        1 => {
            let p = s.below(chars.len());
            chars.iter().enumerate().filter(|(i, _)| *i != p).map(|(_, c)| *c).collect()
        }
        2 => {
            let runs = digit_runs(seed).len().max(1);
            let which = s.below(runs);
            let by = EXTREME_NUMBERS[s.below(EXTREME_NUMBERS.len())];
            replace_number(seed, which, by)
        }
        3 => {
            let groups = bracket_groups(&chars).len().max(1);
            let which = s.below(groups);
            let keep = s.below(2) == 1;
            drop_group(seed, which, keep)
        }
        _ => {
            let k = op - 4;
            let probe = MB_EDIT[k % MB_EDIT.len()];
            let replace = k >= MB_EDIT.len();
            let p = s.below(chars.len() + if replace { 0 } else { 1 });
            let mut o: String = chars[..p].iter().collect();
            o.push(probe);
            o.extend(chars[if replace { p + 1 } else { p }..].iter());
            o
        }
    };
    (t, op, text)
}

pub fn run_edits(s: &mut Src, ctx: &mut Ctx) -> Verdict {
    let (t, op, text) = gen_edit(s, ctx.exh);
    if probe_only() {
        return Verdict::Pass;
    }
    let text = apply_exclusions(t, text, false, ctx);
    ctx.describe(|| format!("{} [edit op {}] {:?}", t.name(), op, text));
    ctx.label(target_label(t));
    ctx.label(match op {
        0 => "edit-truncate",
        1 => "edit-delete-char",
        2 => "edit-extreme-number",
        3 => "edit-drop-bracket-group",
        _ => "edit-multibyte",
    });
    judge(t, &text, ctx)
}

// ------------------------------------------------------------------ wide names, then one edit

const WIDE_POOL: [char; 16] = ['a', 'Z', '0', '_', '-', 'é', 'ß', '日', '😀', 'İ', '\u{a0}', 'Ω', '\u{301}', '“', '\u{212a}', '\u{1e9e}'];

/// A valid text whose quoted names and strings were replaced by long runs of characters of mixed UTF-8 width (so
/// that, further on in the text, hardly any byte offset reckoned from another one falls on a character boundary),
/// and then ONE edit that makes it malformed late: a structural character deleted, a truncation, a deleted
/// character, an extreme number, a dropped bracket group -- or none.
fn gen_wide_edit(s: &mut Src) -> (Target, usize, String) {
    let t = ALL_TARGETS[s.below(ALL_TARGETS.len())];
    let sd = seeds(t.lang());
    let seed = sd[s.below(sd.len())];
    let mut wide = String::new();
    let mut it = seed.chars().peekable();
    let mut widened = 0;
    while let Some(c) = it.next() {
        wide.push(c);
        if c != '"' {
            continue;
        }
        let mut content = String::new();
        let mut closed = false;
        for d in it.by_ref() {
            if d == '"' {
                closed = true;
                break;
            }
            content.push(d);
        }
        if closed && s.chance(3, 4) {
            let n = match s.below(3) {
                0 => 1 + s.below(8),
                1 => 20 + s.below(41),
                _ => 60 + s.below(91),
            };
            for _ in 0..n {
                wide.push(WIDE_POOL[s.below(WIDE_POOL.len())]);
            }
            widened += 1;
        } else {
            wide.push_str(&content);
        }
        if closed {
            wide.push('"');
        }
    }
    let _ = widened;
    let chars: Vec<char> = wide.chars().collect();
    let op = s.below(6);
    let text = match op {
        0 => wide.clone(),
        1 => {
            let cut = s.below(wide.len() + 1);
            String::from_utf8_lossy(&wide.as_bytes()[..cut]).into_owned()
        }
        2 => {
            let p = s.below(chars.len().max(1));
            chars.iter().enumerate().filter(|(i, _)| *i != p).map(|(_, c)| *c).collect()
        }
        3 => {
            let at: Vec<usize> = chars.iter().enumerate().filter(|(_, c)| ")(\"'},;:]{[".contains(**c)).map(|(i, _)| i).collect();
            if at.is_empty() {
                wide.clone()
            } else {
                let p = at[s.below(at.len())];
                chars.iter().enumerate().filter(|(i, _)| *i != p).map(|(_, c)| *c).collect()
            }
        }
        4 => {
            let runs = digit_runs(&wide).len().max(1);
            let which = s.below(runs);
            let by = EXTREME_NUMBERS[s.below(EXTREME_NUMBERS.len())];
            replace_number(&wide, which, by)
        }
        _ => {
            let groups = bracket_groups(&chars).len().max(1);
            let which = s.below(groups);
            let keep = s.below(2) == 1;
            drop_group(&wide, which, keep)
        }
    };
    (t, op, clamp(text))
}

pub fn run_wide_edits(s: &mut Src, ctx: &mut Ctx) -> Verdict {
    let (t, op, text) = gen_wide_edit(s);
    if probe_only() {
        return Verdict::Pass;
    }
    let text = apply_exclusions(t, text, false, ctx);
    ctx.describe(|| format!("{} [wide names, edit op {}] {:?}", t.name(), op, text));
    ctx.label(target_label(t));
    ctx.label(match op {
        0 => "wide:no-edit",
        1 => "wide:truncate",
        2 => "wide:delete-char",
        3 => "wide:delete-structural-char",
        4 => "wide:extreme-number",
        _ => "wide:drop-bracket-group",
    });
    judge(t, &text, ctx)
}

// ------------------------------------------------------------------ structured extremes

/// repeated units (prefix operators, unbalanced openers/quotes, infix chains, multi-byte runs)
const UNITS: &[&str] = &[
    "!", "(", "[", "{", "\"", "'", "-", "! ", "!(", "exists(", "forall(", "NOT ", "?", "1+", "a&&", "a||", "(a)&&", ".", "é", " ", "accumulate(", "test(", "rule ", "query", " OR ", " AND ", " WHERE ",
    "))", "\\", "rule R{", "}",
];

/// operand that follows a chain, per language
fn tail(l: Lang) -> &'static str {
    match l {
        Lang::Grl | Lang::BExpr | Lang::GrlQ => "X.a == 1",
        Lang::Agg => "count(?x) WHERE p(?x)",
        Lang::Disj => "A OR B)",
        Lang::Nest => "g(?x) WHERE p(?x)",
        Lang::Stream => "e: Evt from stream(\"s\")",
        Lang::Eval => "a",
    }
}

/// (prefix, suffix) contexts: the chain is placed where the language expects a condition / value
fn contexts(l: Lang) -> &'static [(&'static str, &'static str)] {
    match l {
        Lang::Grl => &[("rule \"R\" { when ", " then X.b = 1; }"), ("rule \"R\" { when X.a == ", " then X.b = 1; }"), ("rule \"R\" { when X.a == 1 then X.b = ", "; }"), ("rule \"R\" ", " { when X.a == 1 then X.b = 1; }")],
        Lang::GrlQ => &[("query \"Q\" {\n goal: ", "\n}"), ("query \"Q\" {\n goal: A == 1\n when: ", "\n}"), ("query \"Q\" {\n goal: A == 1\n on-success: { ", " }\n}")],
        Lang::BExpr => &[("a == 1 && ", ""), ("NOT ", "")],
        Lang::Agg => &[("count(", ") WHERE p(?x)"), ("count(?x) WHERE ", "")],
        Lang::Disj => &[("(", " OR B)"), ("(A OR ", ")")],
        Lang::Nest => &[("g(?x) WHERE ", ""), ("g(?x) WHERE (", " WHERE q(?y))")],
        Lang::Stream => &[("e: Evt from stream(\"", "\")"), ("e: ", " from stream(\"s\")"), ("over window(", " min, sliding)")],
        Lang::Eval => &[("a + ", ""), ("(", ") * 2")],
    }
}

const SIZES: [usize; 13] = [1, 2, 4, 8, 16, 32, 64, 128, 256, 512, 1024, 2048, 4096];

fn build_deep(t: Target, unit_i: usize, place: usize, size_i: usize) -> String {
    let l = t.lang();
    let n = SIZES[size_i];
    let cx = contexts(l);
    // what surrounds the chain: nothing, the operand, or a skeleton slot (with / without the operand)
    let (before, after): (String, String) = match place {
        0 => (String::new(), String::new()),
        1 => (String::new(), tail(l).to_string()),
        p => {
            let (a, b) = cx[(p - 2) % cx.len()];
            if (p - 2) / cx.len() == 0 {
                (a.to_string(), format!("{}{}", tail(l), b))
            } else {
                (a.to_string(), b.to_string())
            }
        }
    };
    let room = MAX_LEN - before.len() - after.len();
    let chain = if unit_i < UNITS.len() {
        // as many repetitions as asked for, or as fit into 4 KiB together with the surroundings
        let u = UNITS[unit_i];
        u.repeat(n.min(room / u.len()))
    } else {
        // balanced nesting, depth ≤ 32, of (), [] or {} around the operand
        let (o, c) = [("(", ")"), ("[", "]"), ("{", "}"), ("!(", ")"), ("exists(", ")")][(unit_i - UNITS.len()) % N_BALANCED];
        let d = n.min(MAX_NEST);
        format!("{}{}{}", o.repeat(d), tail(l), c.repeat(d))
    };
    clamp(format!("{}{}{}", before, chain, after))
}

const N_BALANCED: usize = 5;

fn watchdog_secs() -> u64 {
    std::env::var("VERIF_WATCHDOG_S").ok().and_then(|s| s.parse().ok()).unwrap_or(120)
}

/// Outcome of running one deep case in a child process.
enum ChildOutcome {
    Pass,
    Fail(String, String),
    Signal(i32, bool),
    Hang,
    /// only with an explicit address-space cap: the child aborted in `handle_alloc_error` under that cap
    AllocFailure(u64),
    Harness(String),
}

fn run_in_child(part: &str, choices: &[u32], exh: u32, no_excl: bool) -> ChildOutcome {
    run_in_child_capped(part, choices, exh, no_excl, None)
}

/// `cap_gib`: address-space limit of the child (RLIMIT_AS, set between fork and exec). With a cap, an allocation failure
/// is reported as its own outcome; without one it is "could not be judged" as before.
fn run_in_child_capped(part: &str, choices: &[u32], exh: u32, no_excl: bool, cap_gib: Option<u64>) -> ChildOutcome {
    use std::io::Read;
    use std::os::unix::process::{CommandExt, ExitStatusExt};
    use std::process::{Command, Stdio};
    static N: std::sync::atomic::AtomicU64 = std::sync::atomic::AtomicU64::new(0);
    let dir = scratch_dir();
    let id = N.fetch_add(1, std::sync::atomic::Ordering::Relaxed);
    let path = dir.join(format!("c05-deep-{}-{}.json", std::process::id(), id));
    let j = serde_json::json!({"property": "C05", "part": part, "kind": "choices", "data": choices, "exh": exh, "no_exclusions": no_excl});
    if std::fs::write(&path, j.to_string()).is_err() {
        return ChildOutcome::Harness("cannot write the child's case file".into());
    }
    let exe = match std::env::current_exe() {
        Ok(e) => e,
        Err(e) => return ChildOutcome::Harness(format!("current_exe: {}", e)),
    };
    let mut c = Command::new(exe);
    c.arg("C05").arg("--replay").arg(&path).arg("--inner").arg("none");
    c.env("VERIF_C05_DIRECT", "1").env("VERIF_DEBUG", "1");
    c.stdin(Stdio::null()).stdout(Stdio::piped()).stderr(Stdio::piped());
    unsafe {
        c.pre_exec(move || {
            // never outlive the worker that waits for us
            libc::prctl(libc::PR_SET_PDEATHSIG, libc::SIGKILL);
            if let Some(g) = cap_gib {
                let lim = libc::rlimit { rlim_cur: g << 30, rlim_max: g << 30 };
                libc::setrlimit(libc::RLIMIT_AS, &lim);
            }
            Ok(())
        });
    }
    let mut child = match c.spawn() {
        Ok(c) => c,
        Err(e) => {
            let _ = std::fs::remove_file(&path);
            return ChildOutcome::Harness(format!("spawn: {}", e));
        }
    };
    // drain the pipes on helper threads so the child can never block on a full pipe
    let mut so = child.stdout.take().unwrap();
    let mut se = child.stderr.take().unwrap();
    let ho = std::thread::spawn(move || {
        let mut v = Vec::new();
        let _ = so.read_to_end(&mut v);
        String::from_utf8_lossy(&v).into_owned()
    });
    let he = std::thread::spawn(move || {
        let mut v = Vec::new();
        let _ = se.read_to_end(&mut v);
        String::from_utf8_lossy(&v).into_owned()
    });
    // two seconds less than the monitor's limit, so that this timeout (which yields a signature) wins the race
    let limit = std::time::Duration::from_secs(watchdog_secs().saturating_sub(2).max(1));
    let start = std::time::Instant::now();
    let mut nap = 1u64;
    let status = loop {
        match child.try_wait() {
            Ok(Some(st)) => break Some(st),
            Ok(None) => {}
            Err(_) => break None,
        }
        if start.elapsed() > limit {
            let _ = child.kill();
            let _ = child.wait();
            let _ = std::fs::remove_file(&path);
            return ChildOutcome::Hang;
        }
        std::thread::sleep(std::time::Duration::from_millis(nap));
        nap = (nap * 2).min(50);
    };
    let out = ho.join().unwrap_or_default();
    let err = he.join().unwrap_or_default();
    let _ = std::fs::remove_file(&path);
    let st = match status {
        Some(s) => s,
        None => return ChildOutcome::Harness("wait failed".into()),
    };
    match st.code() {
        Some(0) => ChildOutcome::Pass,
        Some(1) => {
            let sig = out.lines().find_map(|l| l.trim().strip_prefix("sig=")).unwrap_or("child-failed").to_string();
            let detail = out.lines().skip_while(|l| !l.trim().starts_with("sig=")).nth(1).unwrap_or("").trim().to_string();
            ChildOutcome::Fail(sig, detail)
        }
        Some(c) => ChildOutcome::Harness(format!("child exit code {}: {}", c, out)),
        None => {
            let sig = st.signal().unwrap_or(0);
            if let (Some(g), true) = (cap_gib, err.contains("memory allocation of")) {
                ChildOutcome::AllocFailure(g)
            } else if sig == libc::SIGKILL || err.contains("memory allocation of") {
                // killed from outside / allocation failure under the address-space cap: memory is not judged
                ChildOutcome::Harness(format!("child out of memory or killed (signal {})", sig))
            } else {
                ChildOutcome::Signal(sig, err.contains("overflowed its stack"))
            }
        }
    }
}

/// choices: target, unit (repeated units, then balanced shapes), placement, size index
fn gen_deep(s: &mut Src, exh: u32) -> (Target, usize, usize, usize, String) {
    let ti = s.below(ALL_TARGETS.len());
    let t = ALL_TARGETS[ti];
    let ui = s.below(UNITS.len() + N_BALANCED);
    let nplaces = 2 + 2 * contexts(t.lang()).len();
    let pi = s.below(nplaces);
    let max_size = if exh > 0 { (exh as usize).min(SIZES.len()) } else { SIZES.len() };
    let si = s.below(max_size);
    (t, ui, pi, si, build_deep(t, ui, pi, si))
}

pub fn run_deep(s: &mut Src, ctx: &mut Ctx) -> Verdict {
    let (t, ui, pi, si, text) = gen_deep(s, ctx.exh);
    let ti = ALL_TARGETS.iter().position(|x| *x == t).unwrap_or(0);
    if probe_only() {
        return Verdict::Pass;
    }
    let text = apply_exclusions(t, text, false, ctx);
    ctx.describe(|| {
        let unit = if ui < UNITS.len() { format!("{:?}×{}", UNITS[ui], SIZES[si]) } else { format!("balanced#{} depth {}", ui - UNITS.len(), SIZES[si].min(MAX_NEST)) };
        format!("{} [deep {} placement {}] {:?}", t.name(), unit, pi, short(&text))
    });
    if matched_nesting(&text) > MAX_NEST {
        return Verdict::Discard("bracket nesting > 32");
    }
    ctx.label(target_label(t));
    ctx.label(if ui < UNITS.len() { "deep-repeated-unit" } else { "deep-balanced" });
    let direct = std::env::var("VERIF_C05_DIRECT").is_ok();
    if direct || text.len() < 1000 {
        ctx.label("deep-in-process");
        return judge(t, &text, ctx);
    }
    ctx.label("deep-child-process");
    match run_in_child("deep", &[ti as u32, ui as u32, pi as u32, si as u32], ctx.exh, ctx.no_exclusions) {
        ChildOutcome::Pass => finish(t, &text, Ok("ok"), ctx),
        // the child judged the same case in-process: only a caught panic can fail there
        ChildOutcome::Fail(sig, detail) if sig.starts_with("panic@") => Verdict::fail(sig, detail),
        ChildOutcome::Fail(..) => Verdict::Discard("child process could not be judged"),
        ChildOutcome::Signal(n, overflow) => {
            if overflow {
                Verdict::fail(format!("stack-overflow@{}", t.name()), format!("{} overflowed an 8 MiB stack on {:?} (child died by signal {})", t.name(), short(&text), n))
            } else {
                Verdict::fail(format!("signal-{}@{}", n, t.name()), format!("{} killed the process (signal {}) on {:?}", t.name(), n, short(&text)))
            }
        }
        ChildOutcome::Hang => Verdict::fail(format!("hang@{}", t.name()), format!("{} did not return within {} s on {:?}", t.name(), watchdog_secs(), short(&text))),
        ChildOutcome::Harness(_) | ChildOutcome::AllocFailure(_) => Verdict::Discard("child process could not be run (or ran out of memory)"),
    }
}

// ------------------------------------------------------------------ module import graphs (parse_with_modules)

/// Part `modgraph`: `parse_with_modules` registers every `defmodule` block and resolves its `import:` lines through
/// the module manager (cycle detection included), so the work it does depends on the SHAPE of the import graph, which
/// no token soup produces. Every shape x size below, up to 4 KiB of text, must come back within the watchdog:
/// chain, ladder (each module imports the two / three before it: stacked diamonds), two-column diamond stack,
/// complete DAG, fan-in, fan-out, and each of them with a closing back edge (a refused cycle) or a self import.
/// Larger cases run in a child process whose address space is capped at 3 GiB: a 4 KiB text that makes the parser
/// allocate beyond that does not "return a value or an error" either - the process aborts (`alloc-failure@...`).
const MG_LEVELS: [usize; 12] = [2, 3, 4, 6, 8, 12, 16, 20, 24, 32, 48, 64];
const MG_SHAPES: usize = 7;

fn build_modgraph(shape: usize, levels: usize, tail_kind: usize, spec: usize) -> (String, usize) {
    let import = |to: &str| -> String {
        match spec {
            0 => format!("import: {} (rules)\n", to),
            1 => format!("import: {} (rules * (templates *))\n", to),
            _ => format!("  import: {} (templates t)\n", to),
        }
    };
    let name = |i: usize| format!("M{}", i);
    let mut t = String::new();
    let mut made = 0usize;
    let block = |t: &mut String, n: &str, imports: &[String], export: bool| -> bool {
        let mut b = format!("defmodule {} {{\n", n);
        for i in imports {
            b.push_str(&import(i));
        }
        if export {
            b.push_str("export: all\n");
        }
        b.push_str("}\n");
        if t.len() + b.len() > MAX_LEN - 64 {
            return false;
        }
        t.push_str(&b);
        true
    };
    match shape {
        // two columns: A_i and B_i both import A_(i-1) and B_(i-1)
        3 => {
            for i in 0..levels {
                let prev: Vec<String> = if i == 0 { vec![] } else { vec![format!("A{}", i - 1), format!("B{}", i - 1)] };
                if !block(&mut t, &format!("A{}", i), &prev, i % 2 == 0) || !block(&mut t, &format!("B{}", i), &prev, false) {
                    break;
                }
                made = i + 1;
            }
        }
        _ => {
            for i in 0..levels {
                let imports: Vec<String> = match shape {
                    0 => (i.saturating_sub(1)..i).map(name).collect(),            // chain
                    1 => (i.saturating_sub(2)..i).map(name).collect(),            // ladder of diamonds
                    2 => (i.saturating_sub(3)..i).map(name).collect(),            // three back
                    4 => (0..i).map(name).collect(),                              // complete DAG
                    5 => if i + 1 == levels { (0..i).map(name).collect() } else { vec![] }, // fan-in
                    _ => if i > 0 { vec![name(0)] } else { vec![] },              // fan-out
                };
                if !block(&mut t, &name(i), &imports, i % 3 == 0) {
                    break;
                }
                made = i + 1;
            }
        }
    }
    // what follows the graph: nothing, an import that would close a cycle (refused: the parser returns Err), a self
    // import, or a rule assigned to the last module
    let last = if shape == 3 { format!("A{}", made.saturating_sub(1)) } else { name(made.saturating_sub(1)) };
    let first = if shape == 3 { "A0".to_string() } else { name(0) };
    match tail_kind {
        1 => t.push_str(&format!("defmodule {} {{\n{}}}\n", first, import(&last))),
        2 => t.push_str(&format!("defmodule {} {{\n{}}}\n", last, import(&last))),
        3 => t.push_str(&format!(";; MODULE: {} - x\nrule \"R\" {{ when X.a == 1 then X.b = 1; }}\n", last)),
        _ => {}
    }
    (clamp(t), made)
}

pub fn run_modgraph(s: &mut Src, ctx: &mut Ctx) -> Verdict {
    let shape = s.below(MG_SHAPES);
    let li = s.below(MG_LEVELS.len());
    let tail_kind = s.below(4);
    let spec = s.below(3);
    let (text, made) = build_modgraph(shape, MG_LEVELS[li], tail_kind, spec);
    if probe_only() {
        return Verdict::Pass;
    }
    let t = ParseWithModules;
    let shape_name = ["chain", "ladder-2", "ladder-3", "two-column-diamonds", "complete-dag", "fan-in", "fan-out"][shape];
    ctx.describe(|| format!("parse_with_modules [modgraph {} levels asked {} built {} tail {} import-spec {}] {} bytes: {:?}", shape_name, MG_LEVELS[li], made, tail_kind, spec, text.len(), short(&text)));
    ctx.label(target_label(t));
    ctx.label(match shape {
        1..=3 => "modgraph-stacked-diamonds",
        4 => "modgraph-complete-dag",
        _ => "modgraph-tree-like",
    });
    if tail_kind == 1 || tail_kind == 2 {
        ctx.label("modgraph-refused-import");
    }
    if made >= 8 {
        ctx.nontrivial(hash_str(&text));
    }
    let direct = std::env::var("VERIF_C05_DIRECT").is_ok();
    if direct || made <= 12 {
        ctx.label("modgraph-in-process");
        return judge(t, &text, ctx);
    }
    ctx.label("modgraph-child-process");
    let ti = ALL_TARGETS.iter().position(|x| *x == t).unwrap_or(0);
    let mut choices: Vec<u32> = vec![ti as u32, text.len() as u32];
    choices.extend(text.bytes().map(|b| b as u32));
    match run_in_child_capped("text", &choices, 0, true, Some(3)) {
        ChildOutcome::Pass => Verdict::Pass,
        ChildOutcome::Fail(sig, detail) if sig.starts_with("panic@") => Verdict::fail(sig, detail),
        ChildOutcome::Fail(..) => Verdict::Discard("child process could not be judged"),
        ChildOutcome::Harness(why) => {
            // killed from outside (the kernel's out-of-memory killer while other children grow, an operator): neither a
            // pass nor a violation - the run must not end green on it
            mark_inconclusive(&format!("a module-graph case ({}, {} levels) ran in a child process that was killed from outside or could not be started: {}", shape_name, made, why));
            Verdict::Discard("child process killed from outside")
        }
        ChildOutcome::Signal(sn, overflow) => {
            if overflow {
                Verdict::fail(format!("stack-overflow@{}", t.name()), format!("{} overflowed an 8 MiB stack on an import graph ({}, {} levels; child died by signal {})", t.name(), shape_name, made, sn))
            } else {
                Verdict::fail(format!("signal-{}@{}", sn, t.name()), format!("{} killed the process (signal {}) on an import graph ({}, {} levels)", t.name(), sn, shape_name, made))
            }
        }
        ChildOutcome::Hang => Verdict::fail(
            format!("hang@{}", t.name()),
            format!("{} did not return within {} s on a {}-byte text declaring an import graph ({}, {} levels, tail {}): {:?}", t.name(), watchdog_secs(), text.len(), shape_name, made, tail_kind, short(&text)),
        ),
        ChildOutcome::AllocFailure(g) => Verdict::fail(
            format!("alloc-failure@{}", t.name()),
            format!("{} aborted the process asking for more than {} GiB of memory on a {}-byte text declaring an import graph ({}, {} levels, tail {}): {:?}", t.name(), g, text.len(), shape_name, made, tail_kind, short(&text)),
        ),
    }
}

// ------------------------------------------------------------------ complexity probes (termination)

/// short tokens per language from which the repeated units of part `chains` are built
fn chain_tokens(l: Lang) -> &'static [&'static str] {
    match l {
        Lang::Eval => &["a", "1", "+", "-", "*", "/", "%", "(", ")", " ", "2.5", "\"s\"", "U.n"],
        Lang::BExpr => &["a", "1", "==", "!=", "&&", "||", "!", "(", ")", " ", "NOT ", "<", "\"s\"", "X.y"],
        Lang::Grl => &["X.a", "1", "==", "&&", "||", "!", "(", ")", " ", "+", "-", "*", "\"s\"", "exists("],
        Lang::GrlQ => &["A", "1", "==", "&&", "||", "!", "(", ")", " ", "NOT ", "\"s\"", "?x", ","],
        Lang::Agg => &["count(", "?x", ")", " WHERE ", " AND ", "p(", ",", " ", "\"s\"", "sum(", "(", "a"],
        Lang::Disj => &["(", ")", " OR ", "A", " ", "\"s\"", "p(?x)", ",", " AND "],
        Lang::Nest => &["g(?x)", " WHERE ", "(", ")", "p(?y)", " ", " AND ", " OR ", ",", "NOT "],
        Lang::Stream => &["e:", " Evt", " from", " stream(", "\"s\"", ")", " over", " window(", "5", " min", ",", " sliding", " ", "&&"],
    }
}

/// repetitions tried for one unit, in this order; small steps so that exponential growth is seen early
const CHAIN_SIZES: [usize; 13] = [3, 6, 9, 12, 15, 18, 21, 24, 28, 32, 40, 48, 64];

/// choices: target, 2 tokens (param 2) or 3 tokens (param 3), placement (0 bare, 1 followed by the operand,
/// 2 inside the first skeleton slot with the operand)
fn gen_chain(s: &mut Src, exh: u32) -> (Target, String, usize) {
    let t = ALL_TARGETS[s.below(ALL_TARGETS.len())];
    let toks = chain_tokens(t.lang());
    let k = if exh >= 3 { 3 } else { 2 };
    let mut unit = String::new();
    for _ in 0..k {
        unit.push_str(toks[s.below(toks.len())]);
    }
    let place = s.below(3);
    (t, unit, place)
}

fn build_chain(t: Target, unit: &str, place: usize, n: usize) -> String {
    let l = t.lang();
    let chain = unit.repeat(n);
    let text = match place {
        0 => chain,
        1 => format!("{}{}", chain, tail(l)),
        _ => {
            let (a, b) = contexts(l)[0];
            format!("{}{}{}{}", a, chain, tail(l), b)
        }
    };
    clamp(text)
}

/// One case = one repeated unit on one entry point, tried at growing lengths. The oracle is the statement's: each call
/// returns (panic / overflow / watchdog). Elapsed time only routes the call: once a length needed more than 100 ms, the
/// longer ones run in a child process, so that a call that does not return becomes `hang@<target>` with the text that
/// hangs instead of a stuck worker.
pub fn run_chains(s: &mut Src, ctx: &mut Ctx) -> Verdict {
    let (t, unit, place) = gen_chain(s, ctx.exh);
    let ti = ALL_TARGETS.iter().position(|x| *x == t).unwrap_or(0);
    if probe_only() {
        return Verdict::Pass;
    }
    ctx.describe(|| format!("{} [chain of {:?} × {:?}, placement {}] e.g. {:?}", t.name(), unit, CHAIN_SIZES, place, short(&build_chain(t, &unit, place, 6))));
    ctx.label(target_label(t));
    let direct = std::env::var("VERIF_C05_DIRECT").is_ok();
    let mut slow = false;
    for n in CHAIN_SIZES {
        // every length is one judged call with its own watchdog
        heartbeat();
        let text = build_chain(t, &unit, place, n);
        let text = apply_exclusions(t, text, false, ctx);
        if matched_nesting(&text) > MAX_NEST {
            break;
        }
        if !slow || direct {
            let t0 = std::time::Instant::now();
            let v = judge(t, &text, ctx);
            if v.is_fail() {
                return v;
            }
            if t0.elapsed().as_millis() > 100 {
                slow = true;
                ctx.label("chain-slower-than-100ms");
            }
            continue;
        }
        ctx.label("chain-child-process");
        let mut choices: Vec<u32> = vec![ti as u32, text.len() as u32];
        choices.extend(text.bytes().map(|b| b as u32));
        match run_in_child("text", &choices, 0, true) {
            ChildOutcome::Pass => {}
            ChildOutcome::Fail(sig, detail) if sig.starts_with("panic@") => return Verdict::fail(sig, detail),
            ChildOutcome::Fail(..) | ChildOutcome::Harness(_) | ChildOutcome::AllocFailure(_) => return Verdict::Discard("child process could not be judged"),
            ChildOutcome::Signal(sn, overflow) => {
                return if overflow {
                    Verdict::fail(format!("stack-overflow@{}", t.name()), format!("{} overflowed an 8 MiB stack on {:?} (child died by signal {})", t.name(), short(&text), sn))
                } else {
                    Verdict::fail(format!("signal-{}@{}", sn, t.name()), format!("{} killed the process (signal {}) on {:?}", t.name(), sn, short(&text)))
                };
            }
            ChildOutcome::Hang => {
                return Verdict::fail(
                    format!("hang@{}", t.name()),
                    format!("{} did not return within {} s on {:?} ({} bytes: {:?} repeated {} times, placement {})", t.name(), watchdog_secs(), short(&text), text.len(), unit, n, place),
                )
            }
        }
    }
    ctx.nontrivial(hash_of(&(t, &unit, place)));
    Verdict::Pass
}

// ------------------------------------------------------------------ literal texts (witness replay only)

fn gen_literal(s: &mut Src) -> (Target, String) {
    let t = ALL_TARGETS[s.below(ALL_TARGETS.len())];
    let n = s.below(MAX_LEN + 1);
    let b: Vec<u8> = (0..n).map(|_| s.below(256) as u8).collect();
    (t, clamp(String::from_utf8_lossy(&b).into_owned()))
}

/// choices: target, byte length, the bytes. Never searched (budget Skip); it exists so that a minimised
/// witness can be stored as the exact text that fails.
pub fn run_text(s: &mut Src, ctx: &mut Ctx) -> Verdict {
    let (t, text) = gen_literal(s);
    if probe_only() {
        return Verdict::Pass;
    }
    ctx.describe(|| format!("{} [literal] {:?}", t.name(), text));
    if matched_nesting(&text) > MAX_NEST {
        return Verdict::Discard("bracket nesting > 32");
    }
    ctx.label(target_label(t));
    judge(t, &text, ctx)
}

// ------------------------------------------------------------------ property

pub fn property() -> Property {
    let q = 20_000;
    let b = 4600;
    // development aid: VERIF_C05_PARTS=grl,deep restricts the run to the named parts
    let only: Option<Vec<String>> = std::env::var("VERIF_C05_PARTS").ok().map(|v| v.split(',').map(|x| x.trim().to_string()).collect());
    let keep = |p: Part| -> Part {
        match &only {
            Some(o) if !o.iter().any(|n| n == p.name) => Part { quick: Budget::Skip, thorough: Budget::Skip, ..p },
            _ => p,
        }
    };
    let mut prop = Property {
        id: "C05",
        level: "exploration",
        rule: "generated: (entry point, text) for 14 entry points (GRLParser::parse_rules/parse_rule/parse_with_modules, QueryParser::parse, ExpressionParser::parse, GRLQueryParser::parse/parse_queries, parse_aggregate_query, DisjunctionParser::parse, NestedQueryParser::parse, parse_stream_pattern/parse_stream_join_pattern/parse_window_spec, expression::evaluate_expression over a fixed 6-field store); text is valid UTF-8 of at most 4096 bytes from three random families (raw bytes lossily decoded; token soup of the language's keywords/operators/delimiters plus multi-byte tokens, bare or in the slots of a valid skeleton; valid seeds mutated 1-4 times by truncation at a byte, insertion/replacement of a multi-byte character, deletion of a delimiter/slice/bracket group, duplication, splice, token insertion, long runs, extreme numbers) and two enumerated ones (edits: every seed x every single truncation / character deletion / extreme number / dropped bracket group / multi-byte insertion or replacement; deep: unit^n for 31 units and n = 1,2,4,...,4096 (quick: up to 512) plus balanced nesting up to 32, bare and in every slot of a valid skeleton). Texts whose matched bracket nesting exceeds 32 are discarded. Oracle: the call returns (Ok or Err) on a thread with an 8 MiB stack: a panic fails with the panic location as signature, a stack overflow or abort (seen as the death of a child process for deep cases of 1000 bytes or more, of the worker otherwise) and a run longer than the watchdog fail. Non-trivial: the text passes the first syntactic gate of its parser, judged on the text alone (rule/query keyword followed by a brace pair; a first token the recursive descent consumes; ` WHERE ` / parenthesised ` OR ` present; leading identifier / `over`; at least one arithmetic operator) and the call returned; distinct by (entry point, text). Part `chains` (exhaustive): every unit of 2 (thorough: 3) tokens over a 9-14 token alphabet per language (operands, infix and prefix operators, brackets, keywords), repeated 3,6,...,64 times, bare / followed by an operand / inside the first skeleton slot, on every entry point of that language; every length is one judged call; after the first call slower than 100 ms the longer ones run in a child process (hang@<target> names the text). Part modgraph (exhaustive): for parse_with_modules, module import GRAPHS of every shape in {chain, ladder of diamonds (2 / 3 back), two-column diamond stack, complete DAG, fan-in, fan-out} x 2..64 levels (as fit into 4 KiB) x {no tail, closing back edge, self import, rule in the last module} x three import spellings; above 12 levels in a child process with a 3 GiB address-space cap, where an allocation-failure abort is reported as alloc-failure@parse_with_modules (a 4 KiB text that needs more than 3 GiB does not return a value or an error either). Part wide-edits: a valid seed whose double-quoted names / strings are replaced (3 in 4) by runs of 1..150 characters of mixed UTF-8 width (incl. characters whose lower-case form is longer or shorter), then one of: no edit, truncation at a byte, deletion of a character, deletion of a structural character, an extreme number, a dropped bracket group.",
        assumptions: vec![
            "stack size: every call runs on a thread created with an explicit 8 MiB stack, the default main-thread stack on Linux; frame sizes are those of the harness build (engine at opt-level 2, no ASan) - the unbounded recursions C05-F8/F9 overflow 8 MiB only when the engine is built at opt-level 0 (`cargo build --bin rre-check --config 'profile.dev.package.rust-rule-engine.opt-level=0'`) or under ASan (fuzz crate)".into(),
            "termination is judged by the 120 s watchdog (VERIF_WATCHDOG_S) per input: by the monitor for in-process cases, and 2 s earlier by this module for deep cases run in a child process (so that its timeout, which carries a signature, wins the race against the monitor)".into(),
            "integer-overflow panics only exist with overflow checks on (cargo's dev profile); the default harness profile has them off - build with `--profile strict` to judge them (C05-F7)".into(),
            "memory exhaustion is not a violation of the statement (reported as exit 2 by the driver)".into(),
            "while C05-F10 (super-cubic regex matching) is listed as known, texts for the five regex-based entry points are bounded (GRL rules: condition atoms <= 48 characters and text <= 192 bytes, except `!` chains; GRL queries: <= 1024 bytes); while C05-F8/F9 are listed, at most 200 recursion-driving characters are kept".into(),
        ],
        parts: vec![
            // the regex-based parsers cost milliseconds per case, the hand-written ones microseconds
            Part { name: "grl", run: run_grl, quick: Budget::Random { cases: q, bytes: b }, thorough: Budget::Random { cases: 20 * q, bytes: b }, min_nontrivial_pct: 25 },
            Part { name: "bquery", run: run_bquery, quick: Budget::Random { cases: 5 * q, bytes: b }, thorough: Budget::Random { cases: 100 * q, bytes: b }, min_nontrivial_pct: 40 },
            Part { name: "grlq", run: run_grlq, quick: Budget::Random { cases: q, bytes: b }, thorough: Budget::Random { cases: 20 * q, bytes: b }, min_nontrivial_pct: 25 },
            Part { name: "bmisc", run: run_bmisc, quick: Budget::Random { cases: 5 * q, bytes: b }, thorough: Budget::Random { cases: 100 * q, bytes: b }, min_nontrivial_pct: 25 },
            Part { name: "stream", run: run_stream, quick: Budget::Random { cases: 5 * q, bytes: b }, thorough: Budget::Random { cases: 100 * q, bytes: b }, min_nontrivial_pct: 25 },
            Part { name: "eval", run: run_eval, quick: Budget::Random { cases: 5 * q, bytes: b }, thorough: Budget::Random { cases: 100 * q, bytes: b }, min_nontrivial_pct: 40 },
            Part { name: "edits", run: run_edits, quick: Budget::Exhaustive { param: 1 }, thorough: Budget::Exhaustive { param: 2 }, min_nontrivial_pct: 0 },
            Part { name: "wide-edits", run: run_wide_edits, quick: Budget::Random { cases: 10 * q, bytes: 700 }, thorough: Budget::Random { cases: 200 * q, bytes: 700 }, min_nontrivial_pct: 10 },
            Part { name: "text", run: run_text, quick: Budget::Skip, thorough: Budget::Skip, min_nontrivial_pct: 0 },
            Part { name: "deep", run: run_deep, quick: Budget::Exhaustive { param: 10 }, thorough: Budget::Exhaustive { param: 13 }, min_nontrivial_pct: 0 },
            Part { name: "modgraph", run: run_modgraph, quick: Budget::Exhaustive { param: 1 }, thorough: Budget::Exhaustive { param: 1 }, min_nontrivial_pct: 0 },
            Part { name: "chains", run: run_chains, quick: Budget::Exhaustive { param: 2 }, thorough: Budget::Exhaustive { param: 3 }, min_nontrivial_pct: 0 },
        ],
        watchdog: true,
        replay_reps: 1,
    };
    prop.parts = prop.parts.into_iter().map(keep).collect();
    prop
}
