//! rre-check <ID> [--tier quick|thorough] [--seed N] [--replay FILE]
//!
//! The top-level process is a monitor: it re-executes itself with `--inner`
//! and watches per-worker progress slots, so that a hang, a stack overflow or
//! an abort inside the code under test is attributed to the exact case.

use rre_verif::core::*;
use rre_verif::runner::*;
use serde_json::json;
use std::io::Write;
use std::os::unix::io::FromRawFd;
use std::os::unix::process::ExitStatusExt;
use std::path::{Path, PathBuf};
use std::process::{Command, Stdio};
use std::time::{Duration, Instant};

struct Args {
    id: String,
    thorough: bool,
    seed: u64,
    replay: Option<PathBuf>,
    inner: Option<String>,
}

fn parse_args() -> Args {
    let mut a = Args {
        id: String::new(),
        thorough: std::env::var("VERIF_TIER").map(|t| t == "thorough").unwrap_or(false),
        seed: std::env::var("VERIF_SEED").ok().and_then(|s| s.trim().parse::<i64>().ok()).map(|x| x as u64).unwrap_or(1),
        replay: None,
        inner: None,
    };
    let mut it = std::env::args().skip(1);
    let mut tier_given = false;
    while let Some(x) = it.next() {
        match x.as_str() {
            "--tier" => {
                a.thorough = it.next().map(|t| t == "thorough").unwrap_or(false);
                tier_given = true;
            }
            "quick" if !a.id.is_empty() => {
                a.thorough = false;
                tier_given = true;
            }
            "thorough" if !a.id.is_empty() => {
                a.thorough = true;
                tier_given = true;
            }
            "--seed" => a.seed = it.next().and_then(|s| s.parse::<i64>().ok()).map(|x| x as u64).unwrap_or(1),
            "--replay" => a.replay = it.next().map(PathBuf::from),
            "--inner" => a.inner = it.next(),
            _ => {
                if a.id.is_empty() {
                    a.id = x
                }
            }
        }
    }
    let _ = tier_given;
    a
}

fn watchdog_secs() -> u64 {
    std::env::var("VERIF_WATCHDOG_S").ok().and_then(|s| s.parse().ok()).unwrap_or(120)
}

fn main() {
    let args = parse_args();
    let props = rre_verif::registry();
    if args.id == "--list" || args.id.is_empty() {
        for p in &props {
            println!("{}", p.id);
        }
        return;
    }
    let prop = match props.iter().find(|p| p.id == args.id) {
        Some(p) => p,
        None => {
            eprintln!("unknown property {}", args.id);
            std::process::exit(2);
        }
    };
    match &args.inner {
        Some(slotdir) => std::process::exit(inner_main(prop, &args, slotdir)),
        None => std::process::exit(monitor_main(prop, &args)),
    }
}

fn inner_main(prop: &Property, args: &Args, slotdir: &str) -> i32 {
    // keep our own report channel, silence everything the engine prints
    let saved = unsafe { libc::dup(1) };
    let devnull = std::ffi::CString::new("/dev/null").unwrap();
    unsafe {
        let fd = libc::open(devnull.as_ptr(), libc::O_WRONLY);
        libc::dup2(fd, 1);
        if std::env::var("VERIF_DEBUG").is_err() {
            libc::dup2(fd, 2);
        }
        // address-space cap: unbounded growth becomes an abort instead of taking the machine down
        let lim = libc::rlimit { rlim_cur: 24u64 << 30, rlim_max: 24u64 << 30 };
        libc::setrlimit(libc::RLIMIT_AS, &lim);
    }
    let mut rep = Report { out: unsafe { std::fs::File::from_raw_fd(saved) } };
    install_panic_hook();
    let slot_dir = if slotdir == "none" { None } else { Some(PathBuf::from(slotdir)) };
    if let Some(path) = &args.replay {
        let rf = match load_replay(path) {
            Ok(r) => r,
            Err(e) => {
                rep.line(&format!("harness: {}", e));
                return 2;
            }
        };
        let (v, desc) = replay_case(prop, &rf, args.thorough);
        rep.line(&format!("replay {} part={} reps={}", path.display(), rf.part, prop.replay_reps));
        if !desc.is_empty() {
            rep.line(&desc);
        }
        match v {
            Verdict::Pass => {
                rep.line("replay: property held on this case");
                0
            }
            Verdict::Discard(r) => {
                rep.line(&format!("replay: case is outside the judged domain ({})", r));
                0
            }
            Verdict::Fail { sig, detail } => {
                rep.line(&format!("VIOLATION property={} replay={}", prop.id, path.display()));
                rep.line(&format!("  sig={}\n  {}", sig, detail));
                1
            }
        }
    } else {
        run_property(prop, args.thorough, args.seed, &mut rep, slot_dir)
    }
}

fn spawn_inner(args: &Args, slotdir: &str, replay: Option<&Path>) -> std::process::Child {
    let exe = std::env::current_exe().expect("current_exe");
    let mut c = Command::new(exe);
    c.arg(&args.id).arg("--tier").arg(if args.thorough { "thorough" } else { "quick" });
    c.arg("--seed").arg(format!("{}", args.seed as i64));
    if let Some(r) = replay {
        c.arg("--replay").arg(r);
    }
    c.arg("--inner").arg(slotdir);
    c.stdin(Stdio::null());
    c.spawn().expect("spawn inner")
}

enum Outcome {
    Exit(i32),
    Signal(i32),
    Hang(Vec<PathBuf>),
}

/// wait for the child; `slots`: directory of progress slots to watch (None = plain timeout)
fn supervise(child: &mut std::process::Child, slotdir: Option<&Path>, limit: Duration, plain_timeout: Option<Duration>) -> Outcome {
    let start = Instant::now();
    let mut last: std::collections::HashMap<PathBuf, (u64, Instant)> = Default::default();
    let mut tick = 0u64;
    loop {
        match child.try_wait() {
            Ok(Some(st)) => {
                return match st.code() {
                    Some(c) => Outcome::Exit(c),
                    None => Outcome::Signal(st.signal().unwrap_or(0)),
                };
            }
            Ok(None) => {}
            Err(_) => return Outcome::Exit(2),
        }
        std::thread::sleep(Duration::from_millis(if tick < 50 { 20 } else { 200 }));
        tick += 1;
        if let Some(t) = plain_timeout {
            if start.elapsed() > t {
                let _ = child.kill();
                let _ = child.wait();
                return Outcome::Hang(vec![]);
            }
        }
        if tick % 5 == 0 {
            if let Some(d) = slotdir {
                let mut hung = Vec::new();
                if let Ok(rd) = std::fs::read_dir(d) {
                    for e in rd.flatten() {
                        let p = e.path();
                        if let Some((c, _, _, _)) = read_slot(&p) {
                            let now = Instant::now();
                            let ent = last.entry(p.clone()).or_insert((c, now));
                            if ent.0 != c {
                                *ent = (c, now);
                            } else if now.duration_since(ent.1) > limit {
                                hung.push(p);
                            }
                        } else {
                            last.remove(&p);
                        }
                    }
                }
                if !hung.is_empty() {
                    let _ = child.kill();
                    let _ = child.wait();
                    return Outcome::Hang(hung);
                }
            }
        }
    }
}

fn monitor_main(prop: &Property, args: &Args) -> i32 {
    let scratch = verif_root().join(".scratch").join(format!("{}", std::process::id()));
    let _ = std::fs::create_dir_all(&scratch);
    std::env::set_var("VERIF_SCRATCH", &scratch);
    let code = monitor_inner(prop, args, &scratch);
    let _ = std::fs::remove_dir_all(&scratch);
    code
}

fn monitor_inner(prop: &Property, args: &Args, scratch: &Path) -> i32 {
    let limit = Duration::from_secs(watchdog_secs());
    if let Some(r) = &args.replay {
        let mut child = spawn_inner(args, "none", Some(r));
        return match supervise(&mut child, None, limit, Some(limit)) {
            Outcome::Exit(c) => c,
            Outcome::Signal(s) => {
                println!("VIOLATION property={} replay={}", prop.id, r.display());
                println!("  sig=signal:{} the process running this case died by signal {}", s, s);
                1
            }
            Outcome::Hang(_) => {
                println!("VIOLATION property={} replay={}", prop.id, r.display());
                println!("  sig=hang the case did not return within {} s", limit.as_secs());
                1
            }
        };
    }
    let slotdir = scratch.join("slots");
    let _ = std::fs::create_dir_all(&slotdir);
    let mut child = spawn_inner(args, slotdir.to_str().unwrap(), None);
    let out = supervise(&mut child, Some(&slotdir), limit, None);
    let suspects: Vec<PathBuf> = match out {
        Outcome::Exit(c) => return c,
        Outcome::Signal(s) => {
            println!("harness: worker process died by signal {}; isolating the in-flight cases", s);
            std::fs::read_dir(&slotdir).map(|d| d.flatten().map(|e| e.path()).collect()).unwrap_or_default()
        }
        Outcome::Hang(h) => {
            println!("harness: {} worker(s) made no progress for {} s; isolating", h.len(), limit.as_secs());
            h
        }
    };
    // isolate: re-run each suspect alone under the watchdog
    let mut found = 0;
    let mut suspects = suspects;
    suspects.sort();
    for sp in suspects {
        if found > 0 {
            // one confirmed case is enough; the others in flight are very likely the same mechanism
            break;
        }
        let (_, part_idx, exh, data) = match read_slot(&sp) {
            Some(x) => x,
            None => continue,
        };
        let part = match prop.parts.get(part_idx) {
            Some(p) => p,
            None => continue,
        };
        let (kind, payload) = match &data {
            CaseData::Bytes(b) => ("bytes", json!(hex(b))),
            CaseData::Choices(c) => ("choices", json!(c)),
        };
        let dir = verif_root().join("replays").join(prop.id);
        let _ = std::fs::create_dir_all(&dir);
        let h = hash_of(&format!("{:?}", data));
        let path = dir.join(format!("{}-crash-{:016x}.json", part.name, h));
        let j = json!({"property": prop.id, "part": part.name, "kind": kind, "data": payload, "exh": exh,
            "no_exclusions": false, "sig": "hang-or-crash", "detail": "isolated from a worker that hung or crashed", "case": ""});
        let mut f = std::fs::File::create(&path).unwrap();
        let _ = f.write_all(serde_json::to_string_pretty(&j).unwrap().as_bytes());
        drop(f);
        // A hang that depends on the thread schedule (the properties that quantify over schedules: C15, C19) does not
        // come back on the first re-execution: the suspect is re-executed up to 60 times (each re-execution repeats the
        // case `replay_reps` times, a few hundred executions); a deterministic hang needs one.
        let attempts = if prop.id == "C15" || prop.id == "C19" { 60 } else { 1 };
        for attempt in 0..attempts {
            let mut c = spawn_inner(args, "none", Some(&path));
            match supervise(&mut c, None, limit, Some(limit)) {
                Outcome::Exit(1) => {
                    // the inner replay already printed its VIOLATION line
                    found += 1;
                }
                Outcome::Exit(_) => {}
                Outcome::Signal(s) => {
                    println!("VIOLATION property={} replay={}", prop.id, path.display());
                    println!("  part={} sig=signal:{} the case kills the process (stack overflow / abort)", part.name, s);
                    found += 1;
                }
                Outcome::Hang(_) => {
                    println!("VIOLATION property={} replay={}", prop.id, path.display());
                    println!(
                        "  part={} sig=hang the case does not return within {} s{}",
                        part.name,
                        limit.as_secs(),
                        if attempt > 0 { format!(" (schedule-dependent: re-execution {} of the isolated case)", attempt + 1) } else { String::new() }
                    );
                    found += 1;
                }
            }
            if found > 0 {
                break;
            }
        }
        if found == 0 {
            let _ = std::fs::remove_file(&path);
        }
    }
    if found > 0 {
        1
    } else {
        println!("harness: the crash/hang did not reproduce on any isolated case; inconclusive");
        2
    }
}
