//! C16 — indexes and memoisation return what the plain computation returns.
//!
//! Five parts, one value generator (integers, floats incl. 0.0 / -0.0 / NaN /
//! ±inf, numeric-looking strings, booleans, arrays, null):
//!
//! * `alpha`  — insert / create_index / drop_index / filter histories on
//!   `AlphaMemoryIndex`; every filter must equal the linear scan with `==`.
//! * `alpha-exh*` — the same oracle, all histories of a fixed length over a
//!   14-letter alphabet (one field, six colliding values).
//! * `beta`   — add / remove / lookup histories on `BetaMemoryIndex`.
//! * `memo`   — evaluate histories on one `MemoizedEvaluator` with fact sets
//!   that print alike but differ in type; every answer must equal
//!   `ReteUlNode::evaluate_typed`.
//! * `conclusion` — add_rule / remove_rule / find_candidates on `ConclusionIndex`.
//! * `engine` — the same completeness demand observed through
//!   `BackwardEngine::{with_config, rebuild_index, query}` (root candidates are
//!   visible as `QueryResult.proof_trace.steps[*].rule_name`).
//!
//! Known findings (see REPORT.md): the generator has one switch per finding;
//! they are off when `ctx.no_exclusions` is set (witness replay).

use crate::core::*;
use crate::runner::*;
use rust_rule_engine::backward::{BackwardConfig, BackwardEngine, ConclusionIndex, SearchStrategy};
use rust_rule_engine::rete::{AlphaMemoryIndex, AlphaNode, BetaMemoryIndex, FactValue, MemoizedEvaluator, ReteUlNode, TypedFacts};
use rust_rule_engine::{ActionType, Condition, ConditionGroup, Facts, KnowledgeBase, Operator, Rule, Value};
use std::collections::{BTreeMap, BTreeSet};

// ---------------------------------------------------------------------------
// switches
// ---------------------------------------------------------------------------

/// F1: indexed `filter` keyed by the Debug rendering misses the zero of the other sign.
const EXCLUDE_F1_ALPHA_SIGNED_ZERO: bool = false;
/// F2: indexed `filter` keyed by the Debug rendering returns NaN-bearing values for a NaN-bearing probe.
const EXCLUDE_F2_ALPHA_NAN: bool = false;
/// F3: the memo key hashes `as_str()` of the values, so fact sets that differ only in type share an entry.
const EXCLUDE_F3_MEMO_TYPE: bool = false;
/// `BetaMemoryIndex::lookup` takes the key as a caller-rendered string. With `false` (default) a result is
/// accepted when it lies between "live facts whose value is `==` AND renders identically" and "live facts
/// whose value is `==` OR renders identically" (the two readings of "carrying that key"; they differ only
/// for ±0.0 and NaN). With `true` the `==` reading alone is demanded (sigs `beta-strict-*`).
const BETA_STRICT_EQ: bool = false;

// ---------------------------------------------------------------------------
// model values
// ---------------------------------------------------------------------------

/// Model value. Floats are kept as bit patterns so that the derived `Eq`/`Hash`
/// are structural identity (used for distinct counting), not IEEE equality.
#[derive(Clone, PartialEq, Eq, Hash)]
enum V {
    I(i64),
    F(u64),
    S(String),
    B(bool),
    A(Vec<V>),
    N,
}

impl std::fmt::Debug for V {
    fn fmt(&self, f: &mut std::fmt::Formatter<'_>) -> std::fmt::Result {
        match self {
            V::I(i) => write!(f, "{}", i),
            V::F(b) => write!(f, "{:?}", f64::from_bits(*b)),
            V::S(s) => write!(f, "{:?}", s),
            V::B(b) => write!(f, "{}", b),
            V::A(a) => f.debug_list().entries(a.iter()).finish(),
            V::N => write!(f, "null"),
        }
    }
}

fn fl(x: f64) -> V {
    V::F(x.to_bits())
}

fn fv(v: &V) -> FactValue {
    match v {
        V::I(i) => FactValue::Integer(*i),
        V::F(b) => FactValue::Float(f64::from_bits(*b)),
        V::S(s) => FactValue::String(s.clone()),
        V::B(b) => FactValue::Boolean(*b),
        V::A(a) => FactValue::Array(a.iter().map(fv).collect()),
        V::N => FactValue::Null,
    }
}

/// `==` of the statement: same type, same payload, floats by IEEE equality.
fn veq(a: &V, b: &V) -> bool {
    match (a, b) {
        (V::I(x), V::I(y)) => x == y,
        (V::F(x), V::F(y)) => f64::from_bits(*x) == f64::from_bits(*y),
        (V::S(x), V::S(y)) => x == y,
        (V::B(x), V::B(y)) => x == y,
        (V::A(x), V::A(y)) => x.len() == y.len() && x.iter().zip(y).all(|(p, q)| veq(p, q)),
        (V::N, V::N) => true,
        _ => false,
    }
}

/// Same type and same printed form (every NaN prints alike).
fn ident(a: &V, b: &V) -> bool {
    match (a, b) {
        (V::F(x), V::F(y)) => {
            let (p, q) = (f64::from_bits(*x), f64::from_bits(*y));
            x == y || (p.is_nan() && q.is_nan())
        }
        (V::A(x), V::A(y)) => x.len() == y.len() && x.iter().zip(y).all(|(p, q)| ident(p, q)),
        _ => a == b,
    }
}

/// Untyped text of a value (what a type-blind key would see).
fn text(v: &V) -> String {
    match v {
        V::I(i) => i.to_string(),
        V::F(b) => f64::from_bits(*b).to_string(),
        V::S(s) => s.clone(),
        V::B(b) => b.to_string(),
        V::A(a) => format!("{:?}", a.iter().map(fv).collect::<Vec<_>>()),
        V::N => "null".to_string(),
    }
}

fn has_nan(v: &V) -> bool {
    match v {
        V::F(b) => f64::from_bits(*b).is_nan(),
        V::A(a) => a.iter().any(has_nan),
        _ => false,
    }
}

fn has_zero(v: &V) -> bool {
    match v {
        V::F(b) => f64::from_bits(*b) == 0.0,
        V::A(a) => a.iter().any(has_zero),
        _ => false,
    }
}

const INTS: [i64; 5] = [5, 0, 1, -5, 7];
const FLOATS: [f64; 8] = [5.0, 0.0, -0.0, f64::NAN, 1.0, f64::INFINITY, f64::NEG_INFINITY, 2.5];
const STRS: [&str; 12] = ["5", "5.0", "true", "null", "0", "-0", "NaN", "1", "abc", "", "false", "0.0"];

fn atom(s: &mut Src) -> V {
    match s.weighted(&[3, 4, 4, 1, 1]) {
        0 => V::I(s.pick(&INTS)),
        1 => fl(s.pick(&FLOATS)),
        2 => V::S(s.pick(&STRS).to_string()),
        3 => V::B(s.bool()),
        _ => V::N,
    }
}

fn value(s: &mut Src) -> V {
    if s.chance(1, 6) {
        let n = s.below(3);
        V::A((0..n).map(|_| atom(s)).collect())
    } else {
        atom(s)
    }
}

/// A value that prints like `v` but is of another type (or the zero of the other sign).
fn twin(s: &mut Src, v: &V) -> V {
    let k = s.below(2);
    match v {
        V::I(n) => match k {
            0 => V::S(n.to_string()),
            _ => fl(*n as f64),
        },
        V::F(b) => {
            let x = f64::from_bits(*b);
            if x == 0.0 {
                match k {
                    0 => fl(-x),
                    _ => V::I(0),
                }
            } else if x.is_finite() && x.fract() == 0.0 {
                match k {
                    0 => V::I(x as i64),
                    _ => V::S(x.to_string()),
                }
            } else {
                V::S(x.to_string())
            }
        }
        V::S(t) => {
            if let Ok(i) = t.parse::<i64>() {
                V::I(i)
            } else if let Ok(x) = t.parse::<f64>() {
                fl(x)
            } else if let Ok(b) = t.parse::<bool>() {
                V::B(b)
            } else if t == "null" {
                V::N
            } else {
                v.clone()
            }
        }
        V::B(b) => match k {
            0 => V::S(b.to_string()),
            _ => V::I(*b as i64),
        },
        V::N => V::S("null".into()),
        V::A(a) => {
            if k == 0 || a.is_empty() {
                V::S(text(v))
            } else {
                let mut a2 = a.clone();
                let t0 = twin(s, &a[0]);
                a2[0] = t0;
                V::A(a2)
            }
        }
    }
}

/// existing value, twin of an existing value, or a fresh one
fn probe_value(s: &mut Src, seen: &[V]) -> V {
    let how = s.weighted(&[3, 2, 2]);
    if seen.is_empty() || how == 2 {
        return value(s);
    }
    let base = seen[s.below(seen.len())].clone();
    if how == 0 {
        base
    } else {
        twin(s, &base)
    }
}

fn typed(fields: &[(&str, &V)]) -> TypedFacts {
    let mut t = TypedFacts::new();
    for (k, v) in fields {
        t.set(*k, fv(v));
    }
    t
}

// ---------------------------------------------------------------------------
// part: alpha
// ---------------------------------------------------------------------------

const AF: [&str; 3] = ["a", "b", "zz"];

#[derive(Clone, PartialEq, Eq, Hash)]
enum AOp {
    Insert(Vec<(usize, V)>),
    Create(usize),
    Drop(usize),
    Filter { f: usize, v: V, tracked: bool },
    /// 51 tracked queries on the field (so that it counts as frequently queried), then `auto_tune()`: index creation by
    /// another route
    AutoTune(usize),
    /// `clear()`: facts and indexes are gone
    Clear,
}

impl std::fmt::Debug for AOp {
    fn fmt(&self, f: &mut std::fmt::Formatter<'_>) -> std::fmt::Result {
        match self {
            AOp::Insert(fs) => write!(f, "insert{}", show_set(fs, &AF)),
            AOp::Create(k) => write!(f, "create_index({})", AF[*k]),
            AOp::Drop(k) => write!(f, "drop_index({})", AF[*k]),
            AOp::AutoTune(k) => write!(f, "51 x filter_tracked({}); auto_tune()", AF[*k]),
            AOp::Clear => write!(f, "clear()"),
            AOp::Filter { f: k, v, tracked } => write!(f, "filter{}({}, {:?})", if *tracked { "_tracked" } else { "" }, AF[*k], v),
        }
    }
}

fn show_set(fs: &[(usize, V)], names: &[&str]) -> String {
    let inner: Vec<String> = fs.iter().map(|(k, v)| format!("{}: {:?}", names[*k], v)).collect();
    format!("{{{}}}", inner.join(", "))
}

fn exh_dom() -> [V; 6] {
    [V::I(5), V::S("5".into()), fl(5.0), fl(0.0), fl(-0.0), fl(f64::NAN)]
}

fn gen_alpha(s: &mut Src, exh: u32) -> Vec<AOp> {
    if exh > 0 {
        let dom = exh_dom();
        return (0..exh)
            .map(|_| match s.below(14) {
                k @ 0..=5 => AOp::Insert(vec![(0, dom[k].clone())]),
                6 => AOp::Create(0),
                7 => AOp::Drop(0),
                k => AOp::Filter { f: 0, v: dom[k - 8].clone(), tracked: false },
            })
            .collect();
    }
    let n = 1 + s.below(10);
    let mut seen: [Vec<V>; 3] = [vec![], vec![], vec![]];
    let mut indexed: Vec<usize> = Vec::new();
    let mut created_at: Vec<usize> = Vec::new();
    let mut nfacts = 0;
    let mut ops = Vec::with_capacity(n);
    for _ in 0..n {
        // insert, filter, create, drop — inserts first while the memory is empty
        let w: [u32; 4] = if nfacts == 0 {
            [8, 1, 2, 1]
        } else if created_at.iter().any(|l| *l == nfacts) {
            // an index was just created on a non-empty memory: insert behind it
            [7, 2, 1, 1]
        } else {
            [3, 6, 3, 1]
        };
        let op = match s.weighted(&w) {
            0 => {
                let mut fs = Vec::new();
                if !s.chance(1, 8) {
                    let v = probe_value(s, &seen[0]);
                    seen[0].push(v.clone());
                    fs.push((0, v));
                }
                if s.bool() {
                    let v = probe_value(s, &seen[1]);
                    seen[1].push(v.clone());
                    fs.push((1, v));
                }
                nfacts += 1;
                AOp::Insert(fs)
            }
            1 => {
                let f = if !indexed.is_empty() && !s.chance(1, 3) { indexed[s.below(indexed.len())] } else { s.weighted(&[6, 3, 1]) };
                let v = probe_value(s, &seen[f]);
                AOp::Filter { f, v, tracked: s.chance(1, 4) }
            }
            2 => {
                let f = s.weighted(&[6, 3, 1]);
                if !indexed.contains(&f) {
                    indexed.push(f);
                    created_at.push(nfacts);
                }
                AOp::Create(f)
            }
            _ => {
                let f = if !indexed.is_empty() && !s.chance(1, 3) { indexed[s.below(indexed.len())] } else { s.weighted(&[6, 3, 1]) };
                if let Some(i) = indexed.iter().position(|x| *x == f) {
                    indexed.remove(i);
                    created_at.remove(i);
                }
                AOp::Drop(f)
            }
        };
        ops.push(op);
    }
    // drawn after the steps (earlier encodings keep their meaning): one history in four lets auto_tune create an index
    // somewhere, one in eight clears the memory somewhere
    if s.chance(1, 4) {
        let pos = s.below(ops.len() + 1);
        let f = s.weighted(&[6, 3, 1]);
        ops.insert(pos, AOp::AutoTune(f));
    }
    if s.chance(1, 8) {
        let pos = s.below(ops.len() + 1);
        ops.insert(pos, AOp::Clear);
    }
    // one memory in eight is not new: it already holds 55..256 facts that carry none of the queried fields
    if s.chance(1, 8) {
        let k = crate::c17::warm_count(s).min(256);
        let mut pre: Vec<AOp> = (0..k).map(|_| AOp::Insert(vec![])).collect();
        pre.append(&mut ops);
        ops = pre;
    }
    ops
}

fn field_of(fact: &[(usize, V)], f: usize) -> Option<&V> {
    fact.iter().find(|(k, _)| *k == f).map(|(_, v)| v)
}

pub fn run_alpha(s: &mut Src, ctx: &mut Ctx) -> Verdict {
    let ops = gen_alpha(s, ctx.exh);
    if probe_only() {
        return Verdict::Pass;
    }
    ctx.describe(|| format!("alpha {:?}", ops));
    let mut mem = crate::core::new_or_default(AlphaMemoryIndex::new);
    let mut facts: Vec<Vec<(usize, V)>> = Vec::new();
    // field -> number of facts present when its current index was created
    let mut indexed: BTreeMap<usize, usize> = BTreeMap::new();
    let mut dropped_once: BTreeSet<usize> = BTreeSet::new();
    let mut nontrivial = false;
    for (step, op) in ops.iter().enumerate() {
        match op {
            AOp::Insert(fs) => {
                let t = typed(&fs.iter().map(|(k, v)| (AF[*k], v)).collect::<Vec<_>>());
                mem.insert(t);
                facts.push(fs.clone());
            }
            AOp::Create(f) => {
                mem.create_index(AF[*f].to_string());
                indexed.entry(*f).or_insert(facts.len());
            }
            AOp::Drop(f) => {
                mem.drop_index(AF[*f]);
                if indexed.remove(f).is_some() {
                    dropped_once.insert(*f);
                }
            }
            AOp::AutoTune(f) => {
                let probe = FactValue::String("~warm-up".to_string());
                for _ in 0..51 {
                    let _ = mem.filter_tracked(AF[*f], &probe);
                }
                mem.auto_tune();
                // whether an index exists now is the implementation's business; for the classification it is taken to exist
                indexed.entry(*f).or_insert(facts.len());
                ctx.label("alpha:auto_tune");
            }
            AOp::Clear => {
                mem.clear();
                facts.clear();
                indexed.clear();
                ctx.label("alpha:clear");
            }
            AOp::Filter { f, v, tracked } => {
                let is_indexed = indexed.contains_key(f);
                let vals: Vec<Option<&V>> = facts.iter().map(|fa| field_of(fa, *f)).collect();
                let zero_pair = vals.iter().flatten().any(|x| veq(x, v) && !ident(x, v));
                let nan_pair = vals.iter().flatten().any(|x| ident(x, v) && !veq(x, v));
                if is_indexed && !ctx.no_exclusions {
                    // known findings: the probe is removed from the history (it has no side effect)
                    if zero_pair && EXCLUDE_F1_ALPHA_SIGNED_ZERO {
                        ctx.exclude("F1-alpha-index-signed-zero");
                        continue;
                    }
                    if nan_pair && EXCLUDE_F2_ALPHA_NAN {
                        ctx.exclude("F2-alpha-index-nan");
                        continue;
                    }
                }
                let probe = fv(v);
                let base = mem.get_all().as_ptr() as usize;
                let len = mem.get_all().len();
                let sz = std::mem::size_of::<TypedFacts>();
                let refs: Vec<usize> = if *tracked {
                    mem.filter_tracked(AF[*f], &probe).iter().map(|r| *r as *const TypedFacts as usize).collect()
                } else {
                    mem.filter(AF[*f], &probe).iter().map(|r| *r as *const TypedFacts as usize).collect()
                };
                let mut got: Vec<usize> = Vec::with_capacity(refs.len());
                for p in refs {
                    let off = p.wrapping_sub(base);
                    if p < base || off % sz != 0 || off / sz >= len {
                        return Verdict::fail("alpha-filter-foreign-fact", format!("step {}: filter returned a reference outside the stored facts", step));
                    }
                    got.push(off / sz);
                }
                got.sort_unstable();
                let exp: Vec<usize> = vals.iter().enumerate().filter(|(_, x)| x.map_or(false, |x| veq(x, v))).map(|(i, _)| i).collect();
                if got != exp {
                    let missing: Vec<usize> = exp.iter().copied().filter(|i| !got.contains(i)).collect();
                    let extra: Vec<usize> = got.iter().copied().filter(|i| !exp.contains(i)).collect();
                    let sig = if !is_indexed {
                        "alpha-linear-mismatch"
                    } else if !missing.is_empty() && extra.is_empty() && missing.iter().all(|i| vals[*i].map_or(false, |x| !ident(x, v))) {
                        "alpha-indexed-signed-zero-missed"
                    } else if !extra.is_empty() && missing.is_empty() && extra.iter().all(|i| vals[*i].map_or(false, |x| ident(x, v) && has_nan(v))) {
                        "alpha-indexed-nan-returned"
                    } else if missing.is_empty() && extra.is_empty() {
                        "alpha-indexed-duplicate"
                    } else {
                        "alpha-indexed-mismatch"
                    };
                    return Verdict::fail(
                        sig,
                        format!(
                            "step {}: filter{}({:?}, {:?}) with index={} returned fact indices {:?}, linear scan with == gives {:?} (facts' {:?} values: {:?})",
                            step,
                            if *tracked { "_tracked" } else { "" },
                            AF[*f],
                            v,
                            is_indexed,
                            got,
                            exp,
                            AF[*f],
                            vals
                        ),
                    );
                }
                // classification
                if is_indexed {
                    ctx.label("filter-indexed");
                    let at = indexed[f];
                    if at >= 1 && facts.len() > at {
                        ctx.label("index-created-between-inserts");
                        nontrivial = true;
                    }
                    if at == 0 && !facts.is_empty() {
                        ctx.label("index-created-before-inserts");
                    }
                    if dropped_once.contains(f) {
                        ctx.label("index-recreated-after-drop");
                    }
                } else {
                    ctx.label("filter-linear");
                    if dropped_once.contains(f) {
                        ctx.label("filter-after-drop");
                    }
                }
                if !exp.is_empty() {
                    ctx.label("result-nonempty");
                }
                if exp.len() >= 2 {
                    ctx.label("result-multiple");
                }
                if vals.iter().flatten().any(|x| !ident(x, v) && text(x) == text(v)) {
                    ctx.label("probe-has-type-twin-in-field");
                }
                if zero_pair {
                    ctx.label("probe-signed-zero-pair");
                }
                if nan_pair {
                    ctx.label("probe-nan-pair");
                }
                if has_nan(v) || has_zero(v) {
                    ctx.label("probe-zero-or-nan");
                }
                if matches!(v, V::A(_)) {
                    ctx.label("probe-array");
                }
                if *tracked {
                    ctx.label("filter-tracked");
                }
            }
        }
    }
    if nontrivial {
        ctx.nontrivial(hash_of(&ops));
    }
    Verdict::Pass
}

// ---------------------------------------------------------------------------
// part: beta
// ---------------------------------------------------------------------------

const SLOTS: usize = 4;

#[derive(Clone, PartialEq, Eq, Hash)]
enum BOp {
    /// slot free → add(pool[p], slot); slot occupied → remove(occupant, slot)
    Toggle { slot: usize, p: usize },
    /// remove(pool[p], slot) — a no-op when the slot is free
    Remove { slot: usize, p: usize },
    Lookup(V),
}

impl std::fmt::Debug for BOp {
    fn fmt(&self, f: &mut std::fmt::Formatter<'_>) -> std::fmt::Result {
        match self {
            BOp::Toggle { slot, p } => write!(f, "toggle(idx {}: add fact#{} if free, else remove occupant)", slot, p),
            BOp::Remove { slot, p } => write!(f, "remove(idx {}: occupant, or fact#{} if free)", slot, p),
            BOp::Lookup(v) => write!(f, "lookup({:?})", v),
        }
    }
}

#[derive(Clone, Debug, PartialEq, Eq, Hash)]
struct BCase {
    /// join value of each pool fact (None: the fact has no join field)
    pool: Vec<Option<V>>,
    ops: Vec<BOp>,
}

fn gen_beta(s: &mut Src, exh: u32) -> BCase {
    if exh > 0 {
        let pool = vec![Some(V::I(5)), Some(V::S("5".into())), Some(fl(5.0)), None];
        let probes = [V::I(5), V::S("5".into()), fl(5.0), V::S("Integer(5)".into())];
        let ops = (0..exh)
            .map(|_| match s.below(12) {
                k @ 0..=7 => BOp::Toggle { slot: k / 4, p: k % 4 },
                k => BOp::Lookup(probes[k - 8].clone()),
            })
            .collect();
        return BCase { pool, ops };
    }
    let np = 1 + s.below(5);
    let mut pool: Vec<Option<V>> = Vec::new();
    let mut seen: Vec<V> = Vec::new();
    for _ in 0..np {
        if s.chance(1, 8) {
            pool.push(None);
        } else {
            // later pool facts often repeat or shadow an earlier key
            let v = probe_value(s, &seen);
            seen.push(v.clone());
            pool.push(Some(v));
        }
    }
    let n = 1 + s.below(10);
    let mut ops = Vec::with_capacity(n);
    for _ in 0..n {
        let op = match s.weighted(&[5, 4, 1]) {
            0 => BOp::Toggle { slot: s.below(SLOTS), p: s.below(np) },
            1 => BOp::Lookup(probe_value(s, &seen)),
            _ => BOp::Remove { slot: s.below(SLOTS), p: s.below(np) },
        };
        ops.push(op);
    }
    BCase { pool, ops }
}

pub fn run_beta(s: &mut Src, ctx: &mut Ctx) -> Verdict {
    let case = gen_beta(s, ctx.exh);
    if probe_only() {
        return Verdict::Pass;
    }
    ctx.describe(|| format!("beta join_key=\"k\" {:?}", case));
    let tfs: Vec<TypedFacts> = case
        .pool
        .iter()
        .enumerate()
        .map(|(i, v)| {
            let mut t = TypedFacts::new();
            if let Some(v) = v {
                t.set("k", fv(v));
            }
            t.set("other", FactValue::Integer(i as i64));
            t
        })
        .collect();
    let mut index = BetaMemoryIndex::new("k".to_string());
    let mut slots: [Option<usize>; SLOTS] = [None; SLOTS];
    let mut removed_vals: Vec<V> = Vec::new();
    let mut nontrivial = false;
    for (step, op) in case.ops.iter().enumerate() {
        match op {
            BOp::Toggle { slot, p } => match slots[*slot] {
                None => {
                    index.add(&tfs[*p], *slot);
                    slots[*slot] = Some(*p);
                }
                Some(q) => {
                    index.remove(&tfs[q], *slot);
                    slots[*slot] = None;
                    if let Some(v) = &case.pool[q] {
                        removed_vals.push(v.clone());
                    }
                }
            },
            BOp::Remove { slot, p } => match slots[*slot] {
                None => {
                    index.remove(&tfs[*p], *slot);
                    ctx.label("remove-absent");
                }
                Some(q) => {
                    index.remove(&tfs[q], *slot);
                    slots[*slot] = None;
                    if let Some(v) = &case.pool[q] {
                        removed_vals.push(v.clone());
                    }
                }
            },
            BOp::Lookup(v) => {
                let key = format!("{:?}", fv(v));
                let mut got: Vec<usize> = index.lookup(&key).to_vec();
                got.sort_unstable();
                let live: Vec<(usize, &V)> = slots.iter().enumerate().filter_map(|(i, p)| p.and_then(|p| case.pool[p].as_ref()).map(|x| (i, x))).collect();
                let eq_set: Vec<usize> = live.iter().filter(|(_, x)| veq(x, v)).map(|(i, _)| *i).collect();
                let must: Vec<usize> = live.iter().filter(|(_, x)| veq(x, v) && ident(x, v)).map(|(i, _)| *i).collect();
                let may: Vec<usize> = live.iter().filter(|(_, x)| veq(x, v) || ident(x, v)).map(|(i, _)| *i).collect();
                let ctxs = || format!("live slots (idx, key value): {:?}", live);
                if got.windows(2).any(|w| w[0] == w[1]) {
                    return Verdict::fail("beta-lookup-duplicate", format!("step {}: lookup({}) returned {:?} (an index twice); {}", step, key, got, ctxs()));
                }
                if BETA_STRICT_EQ {
                    if got != eq_set {
                        let sig = if has_nan(v) {
                            "beta-strict-nan"
                        } else if has_zero(v) {
                            "beta-strict-signed-zero"
                        } else {
                            "beta-lookup-mismatch"
                        };
                        return Verdict::fail(sig, format!("step {}: lookup({}) returned {:?}, live facts with join value == probe: {:?}; {}", step, key, got, eq_set, ctxs()));
                    }
                } else {
                    if let Some(m) = must.iter().find(|i| !got.contains(i)) {
                        return Verdict::fail(
                            "beta-lookup-missing",
                            format!("step {}: lookup({}) returned {:?} but live fact idx {} carries exactly that key; expected {:?}; {}", step, key, got, m, eq_set, ctxs()),
                        );
                    }
                    if let Some(x) = got.iter().find(|i| !may.contains(i)) {
                        return Verdict::fail(
                            "beta-lookup-extra",
                            format!("step {}: lookup({}) returned {:?} but idx {} is not a live fact with that key; expected {:?}; {}", step, key, got, x, eq_set, ctxs()),
                        );
                    }
                    if must != may {
                        ctx.label("lookup-readings-differ-zero-or-nan");
                    }
                }
                let after_removal_of_key = removed_vals.iter().any(|x| veq(x, v) || ident(x, v));
                if !removed_vals.is_empty() {
                    ctx.label("lookup-after-removal");
                }
                if after_removal_of_key {
                    ctx.label("lookup-of-removed-key");
                }
                if !eq_set.is_empty() {
                    ctx.label("result-nonempty");
                }
                if eq_set.len() >= 2 {
                    ctx.label("result-multiple");
                }
                if live.iter().any(|(_, x)| !ident(x, v) && text(x) == text(v)) {
                    ctx.label("probe-has-type-twin-live");
                }
                if !removed_vals.is_empty() && (after_removal_of_key || !eq_set.is_empty()) {
                    nontrivial = true;
                }
            }
        }
    }
    if nontrivial {
        ctx.nontrivial(hash_of(&case));
    }
    Verdict::Pass
}

// ---------------------------------------------------------------------------
// part: memo
// ---------------------------------------------------------------------------

const MF: [&str; 3] = ["a", "b", "u.s"];
const MOPS: [&str; 11] = ["==", "!=", ">", "<", ">=", "<=", "contains", "startsWith", "endsWith", "matches", "in"];
const MVALS: [&str; 14] = ["5", "5.0", "true", "null", "0", "1", "-0", "NaN", "abc", "b", "[5,1]", "", "inf", "false"];
const MULTI_OPS: [&str; 8] = ["empty", "not_empty", "count", "contains", "first", "last", "collect", "bogus"];

#[derive(Clone, PartialEq, Eq, Hash)]
enum N {
    Alpha { f: usize, op: usize, val: usize },
    And(Box<N>, Box<N>),
    Or(Box<N>, Box<N>),
    Not(Box<N>),
    Exists(Box<N>),
    Forall(Box<N>),
    Multi { f: usize, op: usize, val: usize, cmp: Option<(usize, usize)> },
}

impl std::fmt::Debug for N {
    fn fmt(&self, f: &mut std::fmt::Formatter<'_>) -> std::fmt::Result {
        match self {
            N::Alpha { f: k, op, val } => write!(f, "({} {} `{}`)", MF[*k], MOPS[*op], MVALS[*val]),
            N::And(a, b) => write!(f, "and({:?}, {:?})", a, b),
            N::Or(a, b) => write!(f, "or({:?}, {:?})", a, b),
            N::Not(a) => write!(f, "not{:?}", a),
            N::Exists(a) => write!(f, "exists{:?}", a),
            N::Forall(a) => write!(f, "forall{:?}", a),
            N::Multi { f: k, op, val, cmp } => {
                write!(f, "multifield({} {} value={:?}", MF[*k], MULTI_OPS[*op], MVALS[*val])?;
                if let Some((o, c)) = cmp {
                    write!(f, " {} {}", MOPS[*o], c)?;
                }
                write!(f, ")")
            }
        }
    }
}

fn gen_node(s: &mut Src, depth: u32) -> N {
    let k = if depth >= 2 { 0 } else { s.weighted(&[6, 1, 1, 1, 1, 1, 1]) };
    match k {
        0 => N::Alpha { f: s.weighted(&[5, 2, 1]), op: s.weighted(&[6, 3, 1, 1, 1, 1, 1, 1, 1, 1, 1]), val: s.below(MVALS.len()) },
        1 => N::And(Box::new(gen_node(s, depth + 1)), Box::new(gen_node(s, depth + 1))),
        2 => N::Or(Box::new(gen_node(s, depth + 1)), Box::new(gen_node(s, depth + 1))),
        3 => N::Not(Box::new(gen_node(s, depth + 1))),
        4 => N::Exists(Box::new(gen_node(s, depth + 1))),
        5 => N::Forall(Box::new(gen_node(s, depth + 1))),
        _ => N::Multi {
            f: s.below(MF.len()),
            op: s.below(MULTI_OPS.len()),
            val: s.below(MVALS.len()),
            cmp: if s.bool() { Some((s.below(6), s.below(3))) } else { None },
        },
    }
}

fn build_node(n: &N) -> ReteUlNode {
    match n {
        N::Alpha { f, op, val } => ReteUlNode::UlAlpha(AlphaNode { field: MF[*f].to_string(), operator: MOPS[*op].to_string(), value: MVALS[*val].to_string() }),
        N::And(a, b) => ReteUlNode::UlAnd(Box::new(build_node(a)), Box::new(build_node(b))),
        N::Or(a, b) => ReteUlNode::UlOr(Box::new(build_node(a)), Box::new(build_node(b))),
        N::Not(a) => ReteUlNode::UlNot(Box::new(build_node(a))),
        N::Exists(a) => ReteUlNode::UlExists(Box::new(build_node(a))),
        N::Forall(a) => ReteUlNode::UlForall(Box::new(build_node(a))),
        N::Multi { f, op, val, cmp } => ReteUlNode::UlMultiField {
            field: MF[*f].to_string(),
            operation: MULTI_OPS[*op].to_string(),
            value: Some(MVALS[*val].to_string()),
            operator: cmp.map(|(o, _)| MOPS[o].to_string()),
            compare_value: cmp.map(|(_, c)| c.to_string()),
        },
    }
}

type FSet = Vec<(usize, V)>;

#[derive(Clone, PartialEq, Eq, Hash)]
struct MCase {
    nodes: Vec<N>,
    sets: Vec<FSet>,
    steps: Vec<(usize, usize)>,
}

impl std::fmt::Debug for MCase {
    fn fmt(&self, f: &mut std::fmt::Formatter<'_>) -> std::fmt::Result {
        let sets: Vec<String> = self.sets.iter().map(|x| show_set(x, &MF)).collect();
        write!(f, "nodes={:?} fact_sets=[{}] evaluate(node#, set#)={:?}", self.nodes, sets.join(", "), self.steps)
    }
}

fn gen_fset(s: &mut Src) -> FSet {
    let mut fs = Vec::new();
    if !s.chance(1, 8) {
        fs.push((0, value(s)));
    }
    if s.chance(1, 3) {
        fs.push((1, value(s)));
    }
    if s.chance(1, 6) {
        fs.push((2, value(s)));
    }
    fs
}

fn sets_ident(a: &FSet, b: &FSet) -> bool {
    a.len() == b.len() && a.iter().zip(b).all(|((k, x), (l, y))| k == l && ident(x, y))
}

/// same fields, same untyped text of every value
fn sets_alike(a: &FSet, b: &FSet) -> bool {
    a.len() == b.len() && a.iter().zip(b).all(|((k, x), (l, y))| k == l && text(x) == text(y))
}

fn gen_memo(s: &mut Src) -> MCase {
    let nn = 1 + s.below(3);
    let nodes: Vec<N> = (0..nn).map(|_| gen_node(s, 0)).collect();
    let ns = 1 + s.below(4);
    let mut sets: Vec<FSet> = Vec::new();
    for i in 0..ns {
        let how = if i == 0 { 3 } else { s.weighted(&[2, 1, 2, 3]) };
        let set = match how {
            // type twin of an earlier set: every value, or only the first, is retyped
            0 | 1 => {
                let base = sets[s.below(i)].clone();
                let all = how == 0;
                let mut out = Vec::new();
                for (j, (k, v)) in base.iter().enumerate() {
                    if all || j == 0 {
                        out.push((*k, twin(s, v)));
                    } else {
                        out.push((*k, v.clone()));
                    }
                }
                out
            }
            // separately built copy of an earlier set (a legitimate cache hit)
            2 => sets[s.below(i)].clone(),
            _ => gen_fset(s),
        };
        sets.push(set);
    }
    let n = 1 + s.below(10);
    let steps = (0..n).map(|_| (s.below(nn), s.below(ns))).collect();
    MCase { nodes, sets, steps }
}

pub fn run_memo(s: &mut Src, ctx: &mut Ctx) -> Verdict {
    let mut case = gen_memo(s);
    if probe_only() {
        return Verdict::Pass;
    }
    if EXCLUDE_F3_MEMO_TYPE && !ctx.no_exclusions {
        // known finding: a set that prints like an earlier one but differs in type is replaced by that earlier set
        for j in 1..case.sets.len() {
            for i in 0..j {
                if sets_alike(&case.sets[i], &case.sets[j]) && !sets_ident(&case.sets[i], &case.sets[j]) {
                    case.sets[j] = case.sets[i].clone();
                    ctx.exclude("F3-memo-type-collision");
                    break;
                }
            }
        }
    }
    ctx.describe(|| format!("memo {:?}", case));
    let nodes: Vec<ReteUlNode> = case.nodes.iter().map(build_node).collect();
    let sets: Vec<TypedFacts> = case.sets.iter().map(|fs| typed(&fs.iter().map(|(k, v)| (MF[*k], v)).collect::<Vec<_>>())).collect();
    let mut memo = crate::core::new_or_default(MemoizedEvaluator::new);
    // (node, set, direct verdict) of every earlier step
    let mut hist: Vec<(usize, usize, bool)> = Vec::new();
    let (mut repeat, mut same_node_other_facts, mut verdict_differs) = (false, false, false);
    for (step, (ni, si)) in case.steps.iter().enumerate() {
        let direct = match catch(|| nodes[*ni].evaluate_typed(&sets[*si])) {
            Ok(b) => b,
            Err(_) => return Verdict::Discard("direct-evaluation-panicked"),
        };
        let got = memo.evaluate(&nodes[*ni], &sets[*si], |n, f| n.evaluate_typed(f));
        if got != direct {
            let culprit = hist.iter().find(|(n, q, _)| n == ni && sets_alike(&case.sets[*q], &case.sets[*si]) && !sets_ident(&case.sets[*q], &case.sets[*si]));
            let sig = if culprit.is_some() { "memo-type-collision" } else { "memo-mismatch" };
            return Verdict::fail(
                sig,
                format!(
                    "step {}: memoised evaluate(node {:?}, facts {}) = {} but evaluate_typed = {}{}",
                    step,
                    case.nodes[*ni],
                    show_set(&case.sets[*si], &MF),
                    got,
                    direct,
                    culprit.map(|(_, q, v)| format!("; an earlier step cached {} for the same node with facts {}", v, show_set(&case.sets[*q], &MF))).unwrap_or_default()
                ),
            );
        }
        for (n, q, v) in &hist {
            if n == ni {
                if sets_ident(&case.sets[*q], &case.sets[*si]) {
                    repeat = true;
                } else {
                    same_node_other_facts = true;
                    if *v != direct {
                        verdict_differs = true;
                    }
                    if sets_alike(&case.sets[*q], &case.sets[*si]) {
                        ctx.label("type-twin-sets-same-node");
                    } else if case.sets[*q].len() == case.sets[*si].len()
                        && case.sets[*q].iter().zip(&case.sets[*si]).all(|((k, x), (l, y))| k == l && (veq(x, y) || text(x) == text(y) || twin_class(x) == twin_class(y)))
                    {
                        ctx.label("look-alike-sets-same-node");
                    }
                }
            }
        }
        hist.push((*ni, *si, direct));
        ctx.label(if direct { "verdict-true" } else { "verdict-false" });
    }
    if repeat {
        ctx.label("repeated-node-and-facts");
    }
    if same_node_other_facts {
        ctx.label("same-node-other-facts");
    }
    if verdict_differs {
        ctx.label("same-node-verdict-differs-across-facts");
    }
    if case.nodes.iter().any(|n| !matches!(n, N::Alpha { .. })) {
        ctx.label("compound-node");
    }
    if repeat && same_node_other_facts {
        ctx.nontrivial(hash_of(&case));
    }
    Verdict::Pass
}

/// coarse "reads as the same thing" class: 1 / 1.0 / "1" / true, 0 / 0.0 / -0.0 / "0" / "-0" / false, ...
fn twin_class(v: &V) -> String {
    match v {
        V::B(true) => "1".into(),
        V::B(false) => "0".into(),
        V::F(b) if f64::from_bits(*b) == 0.0 => "0".into(),
        V::S(t) if t == "-0" || t == "0.0" => "0".into(),
        V::S(t) if t == "true" => "1".into(),
        V::S(t) if t == "false" => "0".into(),
        V::S(t) if t == "5.0" => "5".into(),
        _ => text(v),
    }
}

// ---------------------------------------------------------------------------
// parts: conclusion index, backward engine
// ---------------------------------------------------------------------------

const CF: [&str; 6] = ["User.IsVIP", "User.Score", "Order.Status", "Order.Total", "flag", "User.Profile.Age"];
const OBJS: [&str; 3] = ["User", "Order", "Cart"];
const GOAL_FORMS: [(&str, &str); 11] = [
    ("", " == true"),
    ("", ""),
    ("", " > 5"),
    ("", " != \"x\""),
    ("", " >= 1"),
    ("", " <= 2"),
    ("", " < 0"),
    ("", " contains 'a'"),
    ("", " matches 'a*'"),
    ("", "==true"),
    ("  ", " == 1  "),
];
const NAMES: usize = 4;

#[derive(Clone, PartialEq, Eq, Hash)]
enum Act {
    Set(usize),
    Log,
    Method(usize),
    Retract(usize),
}

impl std::fmt::Debug for Act {
    fn fmt(&self, f: &mut std::fmt::Formatter<'_>) -> std::fmt::Result {
        match self {
            Act::Set(k) => write!(f, "Set {}", CF[*k]),
            Act::Log => write!(f, "Log"),
            Act::Method(o) => write!(f, "{}.touch()", OBJS[*o]),
            Act::Retract(o) => write!(f, "Retract {}", OBJS[*o]),
        }
    }
}

#[derive(Clone, PartialEq, Eq, Hash)]
struct RuleM {
    name: usize,
    enabled: bool,
    actions: Vec<Act>,
}

impl std::fmt::Debug for RuleM {
    fn fmt(&self, f: &mut std::fmt::Formatter<'_>) -> std::fmt::Result {
        write!(f, "R{}{}{:?}", self.name, if self.enabled { "" } else { "(disabled)" }, self.actions)
    }
}

impl RuleM {
    fn sets(&self) -> BTreeSet<usize> {
        self.actions.iter().filter_map(|a| if let Act::Set(f) = a { Some(*f) } else { None }).collect()
    }
}

fn gen_rule(s: &mut Src, name: usize) -> RuleM {
    let enabled = !s.chance(1, 4);
    let na = 1 + s.weighted(&[4, 3, 2]);
    let actions = (0..na)
        .map(|_| match s.weighted(&[8, 1, 1, 1]) {
            0 => Act::Set(s.below(CF.len())),
            1 => Act::Log,
            2 => Act::Method(s.below(OBJS.len())),
            _ => Act::Retract(s.below(OBJS.len())),
        })
        .collect();
    RuleM { name, enabled, actions }
}

fn rule_name(n: usize) -> String {
    format!("R{}", n)
}

fn build_rule(r: &RuleM) -> Rule {
    let cond = ConditionGroup::single(Condition::new("Seed.on".to_string(), Operator::Equal, Value::Boolean(true)));
    let actions = r
        .actions
        .iter()
        .map(|a| match a {
            Act::Set(f) => ActionType::Set { field: CF[*f].to_string(), value: Value::Boolean(true) },
            Act::Log => ActionType::Log { message: "m".to_string() },
            Act::Method(o) => ActionType::MethodCall { object: OBJS[*o].to_string(), method: "touch".to_string(), args: vec![] },
            Act::Retract(o) => ActionType::Retract { object: OBJS[*o].to_string() },
        })
        .collect();
    let mut rule = Rule::new(rule_name(r.name), cond, actions);
    rule.enabled = r.enabled;
    rule
}

#[derive(Clone, PartialEq, Eq, Hash)]
enum COp {
    Add(RuleM),
    Remove(usize),
    Find { field: usize, form: usize },
}

impl std::fmt::Debug for COp {
    fn fmt(&self, f: &mut std::fmt::Formatter<'_>) -> std::fmt::Result {
        match self {
            COp::Add(r) => write!(f, "add_rule({:?})", r),
            COp::Remove(n) => write!(f, "remove_rule(R{})", n),
            COp::Find { field, form } => write!(f, "find_candidates({:?})", goal_text(*field, *form)),
        }
    }
}

fn gen_conclusion(s: &mut Src) -> Vec<COp> {
    let n = 1 + s.below(10);
    // generator-side view of what is indexed, used only to aim removals and goals at it
    let mut live: Vec<(usize, Vec<usize>)> = Vec::new();
    let mut ops = Vec::with_capacity(n);
    for _ in 0..n {
        let w: [u32; 3] = if live.is_empty() { [8, 1, 1] } else { [4, 5, 2] };
        let op = match s.weighted(&w) {
            0 => {
                let name = s.below(NAMES);
                let r = gen_rule(s, name);
                live.retain(|(n, _)| *n != name);
                if r.enabled && !r.sets().is_empty() {
                    live.push((name, r.sets().into_iter().collect()));
                }
                COp::Add(r)
            }
            1 => {
                let field = if !live.is_empty() && !s.chance(1, 4) {
                    let fs = &live[s.below(live.len())].1;
                    fs[s.below(fs.len())]
                } else {
                    s.below(CF.len())
                };
                COp::Find { field, form: s.below(GOAL_FORMS.len()) }
            }
            _ => {
                let name = if !live.is_empty() && !s.chance(1, 4) { live[s.below(live.len())].0 } else { s.below(NAMES) };
                live.retain(|(n, _)| *n != name);
                COp::Remove(name)
            }
        };
        ops.push(op);
    }
    ops
}

fn goal_text(field: usize, form: usize) -> String {
    format!("{}{}{}", GOAL_FORMS[form].0, CF[field], GOAL_FORMS[form].1)
}

pub fn run_conclusion(s: &mut Src, ctx: &mut Ctx) -> Verdict {
    let ops = gen_conclusion(s);
    if probe_only() {
        return Verdict::Pass;
    }
    ctx.describe(|| format!("conclusion-index {:?}", ops));
    let mut index = ConclusionIndex::new();
    // name -> fields assigned by the latest enabled version handed to add_rule and not removed since
    let mut required: BTreeMap<usize, BTreeSet<usize>> = BTreeMap::new();
    let mut removed_indexed = false;
    let mut nontrivial = false;
    let mut seen_names: BTreeSet<usize> = BTreeSet::new();
    for (step, op) in ops.iter().enumerate() {
        match op {
            COp::Add(r) => {
                index.add_rule(&build_rule(r));
                if !seen_names.insert(r.name) {
                    ctx.label("re-add-same-name");
                }
                if r.enabled {
                    required.insert(r.name, r.sets());
                } else {
                    // the caller's current version of the rule is disabled: nothing is demanded for it
                    required.remove(&r.name);
                    ctx.label("disabled-rule-added");
                }
            }
            COp::Remove(n) => {
                index.remove_rule(&rule_name(*n));
                if required.remove(n).is_some() {
                    removed_indexed = true;
                }
            }
            COp::Find { field, form } => {
                let goal = goal_text(*field, *form);
                let cands = index.find_candidates(&goal);
                let need: Vec<usize> = required.iter().filter(|(_, fs)| fs.contains(field)).map(|(n, _)| *n).collect();
                if let Some(m) = need.iter().find(|n| !cands.contains(&rule_name(**n))) {
                    let mut c: Vec<&String> = cands.iter().collect();
                    c.sort();
                    return Verdict::fail(
                        "conclusion-index-missing-candidate",
                        format!("step {}: find_candidates({:?}) = {:?} lacks {} (enabled, indexed, sets {}); all demanded: {:?}", step, goal, c, rule_name(*m), CF[*field], need),
                    );
                }
                if need.is_empty() {
                    ctx.label("find-nothing-demanded");
                } else {
                    ctx.label("find-demands-rule");
                    if removed_indexed {
                        ctx.label("find-after-remove");
                        nontrivial = true;
                    }
                    if need.len() >= 2 {
                        ctx.label("find-demands-several");
                    }
                }
            }
        }
    }
    if ops.iter().any(|o| matches!(o, COp::Add(r) if r.enabled && r.sets().len() >= 2)) {
        ctx.label("multi-set-rule");
    }
    if nontrivial {
        ctx.nontrivial(hash_of(&ops));
    }
    Verdict::Pass
}

#[derive(Clone, PartialEq, Eq, Hash)]
enum EOp {
    KbAdd(RuleM),
    KbRemove(usize),
    KbEnable(usize, bool),
    Rebuild,
    Query(usize),
}

impl std::fmt::Debug for EOp {
    fn fmt(&self, f: &mut std::fmt::Formatter<'_>) -> std::fmt::Result {
        match self {
            EOp::KbAdd(r) => write!(f, "kb.add_rule({:?})", r),
            EOp::KbRemove(n) => write!(f, "kb.remove_rule(R{})", n),
            EOp::KbEnable(n, e) => write!(f, "kb.set_rule_enabled(R{}, {})", n, e),
            EOp::Rebuild => write!(f, "rebuild_index()"),
            EOp::Query(k) => write!(f, "query(\"{} == true\")", CF[*k]),
        }
    }
}

#[derive(Clone, Debug, PartialEq, Eq, Hash)]
struct ECase {
    init: Vec<RuleM>,
    strategy: usize,
    ops: Vec<EOp>,
}

fn gen_engine(s: &mut Src) -> ECase {
    let ni = s.below(NAMES + 1);
    let init: Vec<RuleM> = (0..ni).map(|i| gen_rule(s, i)).collect();
    let strategy = s.weighted(&[4, 1, 1]);
    // generator-side view of the knowledge base, used only to aim edits and goals
    let mut kb: BTreeMap<usize, RuleM> = init.iter().map(|r| (r.name, r.clone())).collect();
    let mut dirty = false;
    let n = 1 + s.below(8);
    let mut ops = Vec::with_capacity(n);
    for _ in 0..n {
        // query, add, remove, enable/disable, rebuild
        let w: [u32; 5] = if dirty { [2, 2, 1, 1, 7] } else { [5, 3, 2, 2, 1] };
        let op = match s.weighted(&w) {
            0 => {
                let targets: Vec<usize> = kb.values().filter(|r| r.enabled).flat_map(|r| r.sets()).collect();
                let f = if !targets.is_empty() && !s.chance(1, 4) { targets[s.below(targets.len())] } else { s.below(CF.len()) };
                EOp::Query(f)
            }
            1 => {
                let name = s.below(NAMES + 1);
                let r = gen_rule(s, name);
                if !kb.contains_key(&name) {
                    kb.insert(name, r.clone());
                    dirty = true;
                }
                EOp::KbAdd(r)
            }
            2 => {
                let name = s.below(NAMES + 1);
                if kb.remove(&name).is_some() {
                    dirty = true;
                }
                EOp::KbRemove(name)
            }
            3 => {
                let (name, e) = (s.below(NAMES + 1), s.bool());
                if let Some(r) = kb.get_mut(&name) {
                    if r.enabled != e {
                        r.enabled = e;
                        dirty = true;
                    }
                }
                EOp::KbEnable(name, e)
            }
            _ => {
                dirty = false;
                EOp::Rebuild
            }
        };
        ops.push(op);
    }
    ECase { init, strategy, ops }
}

pub fn run_engine(s: &mut Src, ctx: &mut Ctx) -> Verdict {
    let case = gen_engine(s);
    if probe_only() {
        return Verdict::Pass;
    }
    ctx.describe(|| format!("backward-engine {:?}", case));
    let kb = KnowledgeBase::new("c16");
    let mut model: BTreeMap<usize, RuleM> = BTreeMap::new();
    for r in &case.init {
        if kb.add_rule(build_rule(r)).is_err() {
            return Verdict::Discard("kb-add-rule-refused");
        }
        model.insert(r.name, r.clone());
    }
    let config = BackwardConfig {
        max_depth: 5,
        strategy: match case.strategy {
            0 => SearchStrategy::DepthFirst,
            1 => SearchStrategy::BreadthFirst,
            _ => SearchStrategy::Iterative,
        },
        enable_memoization: false,
        max_solutions: 1,
    };
    let mut engine = BackwardEngine::with_config(kb, config);
    // what the index was built from (construction or the latest rebuild_index)
    let mut snapshot = model.clone();
    let mut rebuilt = false;
    let mut stale = false;
    let mut nontrivial = false;
    for (step, op) in case.ops.iter().enumerate() {
        match op {
            EOp::KbAdd(r) => {
                let res = engine.knowledge_base().add_rule(build_rule(r));
                if model.contains_key(&r.name) {
                    if res.is_ok() {
                        return Verdict::Discard("kb-accepted-duplicate-name");
                    }
                } else {
                    if res.is_err() {
                        return Verdict::Discard("kb-add-rule-refused");
                    }
                    model.insert(r.name, r.clone());
                    stale = true;
                }
            }
            EOp::KbRemove(n) => {
                let _ = engine.knowledge_base().remove_rule(&rule_name(*n));
                if model.remove(n).is_some() {
                    stale = true;
                }
            }
            EOp::KbEnable(n, e) => {
                let _ = engine.knowledge_base().set_rule_enabled(&rule_name(*n), *e);
                if let Some(r) = model.get_mut(n) {
                    if r.enabled != *e {
                        r.enabled = *e;
                        stale = true;
                    }
                }
            }
            EOp::Rebuild => {
                engine.rebuild_index();
                snapshot = model.clone();
                if stale {
                    rebuilt = true;
                }
                stale = false;
            }
            EOp::Query(field) => {
                // the goal already holds in the facts, so the query succeeds at the root and the
                // proof trace lists the root goal's candidate rules (index result, or the linear fallback)
                let goal = format!("{} == true", CF[*field]);
                let mut facts = Facts::new();
                facts.set(CF[*field], Value::Boolean(true));
                let res = match catch(|| engine.query(&goal, &mut facts)) {
                    Ok(Ok(r)) => r,
                    Ok(Err(_)) => return Verdict::Discard("engine-query-error"),
                    Err(_) => return Verdict::Discard("engine-query-panicked"),
                };
                if !res.provable {
                    return Verdict::Discard("engine-query-not-provable-from-facts");
                }
                let cands: BTreeSet<String> = res.proof_trace.steps.iter().map(|st| st.rule_name.clone()).collect();
                // demanded: rules the index was built from AND that are still in the knowledge base (a rule removed
                // since the last rebuild is no longer "an enabled rule that assigns the goal's field")
                let need: Vec<usize> = snapshot
                    .values()
                    .filter(|r| r.enabled && r.sets().contains(field))
                    .filter(|r| model.get(&r.name).map(|cur| cur.enabled && cur.sets().contains(field)).unwrap_or(false))
                    .map(|r| r.name)
                    .collect();
                if let Some(m) = need.iter().find(|n| !cands.contains(&rule_name(**n))) {
                    return Verdict::fail(
                        "engine-candidates-missing-rule",
                        format!(
                            "step {}: query({:?}) proposed {:?} but {} is enabled in the indexed rule set and sets {}; all demanded: {:?}",
                            step,
                            goal,
                            cands,
                            rule_name(*m),
                            CF[*field],
                            need
                        ),
                    );
                }
                if need.is_empty() {
                    ctx.label("query-nothing-demanded");
                } else {
                    ctx.label("query-demands-rule");
                    if rebuilt {
                        ctx.label("query-after-rebuild");
                        nontrivial = true;
                    }
                }
                if stale {
                    ctx.label("query-on-stale-index");
                }
                if cands.is_empty() {
                    ctx.label("no-candidates");
                }
            }
        }
    }
    if nontrivial {
        ctx.nontrivial(hash_of(&case));
    }
    Verdict::Pass
}

// ---------------------------------------------------------------------------

// ---------------------------------------------------------------------------------------------------------------
// part `precision`: integers that are different but equal once converted to f64
// ---------------------------------------------------------------------------------------------------------------

/// pairs (x, y), x != y, that an `as f64` conversion maps to one value (above 2^53 the integers are sparser than i64)
const PRECISION_TWINS: [(i64, i64); 6] = [
    ((1 << 53), (1 << 53) + 1),
    ((1 << 53) + 2, (1 << 53) + 3),
    (i64::MAX, i64::MAX - 1),
    (-(1 << 53), -(1 << 53) - 1),
    (1234567890123456789, 1234567890123456788),
    ((1 << 62), (1 << 62) + 100),
];

/// Exhaustive (720 cases): memoised evaluation and indexed filtering on fact sets that differ only in such a pair.
/// choices: pair, comparison operator, which of the two the node / probe names, which set comes first, whether an
/// index exists before / between / after the inserts.
pub fn run_precision(s: &mut Src, ctx: &mut Ctx) -> Verdict {
    let (x, y) = PRECISION_TWINS[s.below(PRECISION_TWINS.len())];
    let op = ["==", "!=", ">", "<", ">=", "<="][s.below(6)];
    let named = if s.below(2) == 0 { x } else { y };
    let first_x = s.below(2) == 0;
    let index_when = s.below(5);
    if probe_only() {
        return Verdict::Pass;
    }
    ctx.describe(|| format!("precision twins {} / {}: node (a {} `{}`), first set holds {}, index {}", x, y, op, named, if first_x { x } else { y }, ["never", "before the inserts", "between the inserts", "after the inserts", "created, dropped, created again"][index_when]));
    let mk = |v: i64| {
        let mut t = TypedFacts::new();
        t.set("a", FactValue::Integer(v));
        t
    };
    let (s0, s1) = if first_x { (mk(x), mk(y)) } else { (mk(y), mk(x)) };
    // memo: the same node on both sets, twice
    let node = ReteUlNode::UlAlpha(AlphaNode { field: "a".to_string(), operator: op.to_string(), value: named.to_string() });
    let mut memo = crate::core::new_or_default(MemoizedEvaluator::new);
    for (k, set) in [&s0, &s1, &s0, &s1].iter().enumerate() {
        let direct = node.evaluate_typed(set);
        let got = memo.evaluate(&node, set, |n, f| n.evaluate_typed(f));
        if got != direct {
            return Verdict::fail(
                "memo-mismatch:precision-twins",
                format!("evaluation {} of (a {} `{}`) on a = {:?}: memoised {} but evaluate_typed {} (the other set holds an integer that is equal as f64)", k, op, named, set.get("a"), got, direct),
            );
        }
    }
    // alpha memory: filter by either integer, with and without an index
    let mut mem = crate::core::new_or_default(AlphaMemoryIndex::new);
    if index_when == 1 || index_when == 4 {
        mem.create_index("a".to_string());
    }
    mem.insert(s0.clone());
    if index_when == 2 {
        mem.create_index("a".to_string());
    }
    if index_when == 4 {
        mem.drop_index("a");
    }
    mem.insert(s1.clone());
    if index_when == 3 || index_when == 4 {
        mem.create_index("a".to_string());
    }
    for probe in [x, y] {
        let p = FactValue::Integer(probe);
        let got: Vec<Option<FactValue>> = mem.filter("a", &p).iter().map(|t| t.get("a").cloned()).collect();
        let want: Vec<Option<FactValue>> = mem.get_all().iter().filter(|t| t.get("a") == Some(&p)).map(|t| t.get("a").cloned()).collect();
        if got != want {
            return Verdict::fail(
                "alpha-indexed-mismatch:precision-twins",
                format!("filter(a, {}) returned {:?}; the linear scan with == gives {:?}", probe, got, want),
            );
        }
    }
    ctx.nontrivial(hash_of(&(x, op, named, first_x, index_when)));
    Verdict::Pass
}

// ---------------------------------------------------------------------------------------------------------------
// part `lookalike`: unequal values that a hand-made rendering (of an index key, a memo key) could write alike
// ---------------------------------------------------------------------------------------------------------------

/// Pairs (x, y), x != y: a string element that contains what a rendering would put BETWEEN elements; nesting that a
/// flattening rendering loses; elements that run together without a separator; strings that differ in case, in a
/// trailing blank, or in Unicode composition; element-wise type twins beyond the first element.
fn lookalike_twins() -> Vec<(V, V)> {
    let st = |t: &str| V::S(t.to_string());
    let mut out: Vec<(V, V)> = Vec::new();
    for sep in ["\",\"", "\", \"", "\"), String(\"", ",", ", ", ";", "|", " ", "\u{1f}", "\n"] {
        out.push((V::A(vec![st("a"), st("b")]), V::A(vec![st(&format!("a{}b", sep))])));
        out.push((V::A(vec![st(""), st("")]), V::A(vec![st(sep)])));
        out.push((V::A(vec![st("a"), st("b"), st("c")]), V::A(vec![st("a"), st(&format!("b{}c", sep))])));
    }
    out.push((V::A(vec![V::A(vec![st("a")]), V::A(vec![st("b")])]), V::A(vec![V::A(vec![st("a"), st("b")])])));
    out.push((V::A(vec![st("a"), V::A(vec![st("b")])]), V::A(vec![st("a"), st("b")])));
    out.push((V::A(vec![V::A(vec![])]), V::A(vec![])));
    // same leaves in the same order, brackets placed differently
    out.push((V::A(vec![V::A(vec![V::I(1)]), V::I(2)]), V::A(vec![V::A(vec![V::I(1), V::I(2)])])));
    out.push((V::A(vec![V::A(vec![]), V::A(vec![])]), V::A(vec![V::A(vec![V::A(vec![])])])));
    out.push((V::A(vec![V::A(vec![st("a")]), st("b")]), V::A(vec![V::A(vec![st("a"), st("b")])])));
    out.push((V::A(vec![st("a"), V::A(vec![st("b"), st("c")])]), V::A(vec![V::A(vec![st("a"), st("b")]), st("c")])));
    out.push((V::A(vec![V::I(1), V::A(vec![V::I(2)]), V::I(3)]), V::A(vec![V::I(1), V::A(vec![V::I(2), V::I(3)])])));
    out.push((V::A(vec![V::I(1), V::I(2)]), V::A(vec![V::I(12)])));
    out.push((V::A(vec![st("1"), st("2")]), V::A(vec![st("12")])));
    out.push((V::A(vec![V::I(1), V::I(2)]), V::A(vec![V::I(1), st("2")])));
    out.push((V::A(vec![st("a"), V::N]), V::A(vec![st("a"), st("null")])));
    out.push((V::A(vec![st("a"), V::B(true)]), V::A(vec![st("a"), st("true")])));
    out.push((V::A(vec![st("a")]), st("[\"a\"]")));
    out.push((V::A(vec![st("a")]), st("a")));
    out.push((V::A(vec![]), st("")));
    out.push((V::A(vec![]), V::N));
    out.push((st("abc"), st("ABC")));
    out.push((st("abc"), st("abc ")));
    out.push((st("abc"), st(" abc")));
    out.push((st("\u{e9}"), st("e\u{301}")));
    out.push((st("a\"b"), st("a\\\"b")));
    out.push((st("a\\"), st("a\\\\")));
    out.push((st("a\nb"), st("a\\nb")));
    out.push((st(""), V::N));
    out
}

/// Exhaustive: every pair x every index schedule x both orders: indexed filtering, and memoised evaluation of a few
/// nodes, on facts that differ only in such a pair.
pub fn run_lookalike(s: &mut Src, ctx: &mut Ctx) -> Verdict {
    let twins = lookalike_twins();
    let k = s.below(twins.len());
    let first_x = s.below(2) == 0;
    let index_when = s.below(5);
    if probe_only() {
        return Verdict::Pass;
    }
    let (x, y) = twins[k].clone();
    ctx.describe(|| format!("lookalike values {:?} / {:?}: first fact holds {:?}, index {}", x, y, if first_x { &x } else { &y }, ["never", "before the inserts", "between the inserts", "after the inserts", "created, dropped, created again"][index_when]));
    // (field b holds x in both facts: a node that compares a with b tells the two facts apart whatever the values are)
    let mk = |v: &V| {
        let mut t = TypedFacts::new();
        t.set("a", fv(v));
        t.set("b", fv(&x));
        t
    };
    let (s0, s1) = if first_x { (mk(&x), mk(&y)) } else { (mk(&y), mk(&x)) };
    let mut mem = crate::core::new_or_default(AlphaMemoryIndex::new);
    if index_when == 1 || index_when == 4 {
        mem.create_index("a".to_string());
    }
    mem.insert(s0.clone());
    if index_when == 2 {
        mem.create_index("a".to_string());
    }
    if index_when == 4 {
        mem.drop_index("a");
    }
    mem.insert(s1.clone());
    if index_when == 3 || index_when == 4 {
        mem.create_index("a".to_string());
    }
    for probe in [&x, &y] {
        let p = fv(probe);
        for tracked in [false, true] {
            let got: Vec<Option<FactValue>> = if tracked { mem.filter_tracked("a", &p) } else { mem.filter("a", &p) }.iter().map(|t| t.get("a").cloned()).collect();
            let want: Vec<Option<FactValue>> = mem.get_all().iter().filter(|t| t.get("a") == Some(&p)).map(|t| t.get("a").cloned()).collect();
            if got != want {
                return Verdict::fail(
                    "alpha-indexed-mismatch:lookalike-values",
                    format!("filter{}(a, {:?}) returned {:?}; the linear scan with == gives {:?}", if tracked { "_tracked" } else { "" }, probe, got, want),
                );
            }
        }
    }
    // memo: the same node on both sets, twice
    let needle = match &x {
        V::A(a) => match a.first() {
            Some(V::S(t)) => t.clone(),
            _ => "a".to_string(),
        },
        V::S(t) => t.clone(),
        _ => "a".to_string(),
    };
    for (op, value) in [("==", needle.clone()), ("!=", needle.clone()), ("contains", needle.clone()), (">", needle.clone()), ("==", "b".to_string()), ("!=", "b".to_string())] {
        let node = ReteUlNode::UlAlpha(AlphaNode { field: "a".to_string(), operator: op.to_string(), value: value.clone() });
        let mut memo = crate::core::new_or_default(MemoizedEvaluator::new);
        for (i, set) in [&s0, &s1, &s0, &s1].iter().enumerate() {
            let direct = node.evaluate_typed(set);
            let got = memo.evaluate(&node, set, |n, f| n.evaluate_typed(f));
            if got != direct {
                return Verdict::fail(
                    "memo-mismatch:lookalike-values",
                    format!("evaluation {} of (a {} {:?}) on a = {:?}, b = {:?}: memoised {} but evaluate_typed {}", i, op, value, set.get("a"), set.get("b"), got, direct),
                );
            }
        }
    }
    ctx.nontrivial(hash_of(&(k, first_x, index_when)));
    Verdict::Pass
}

pub fn property() -> Property {
    Property {
        id: "C16",
        level: "exploration",
        rule: "generated: histories of 1..10 operations over one value pool (integers, floats incl. 0.0/-0.0/NaN/±inf, numeric-looking strings, booleans, null, arrays of these; probes are drawn from the stored values, their other-typed twins, or fresh). alpha: insert/create_index/drop_index/filter(+filter_tracked) on 3 fields — oracle: every filter returns exactly the fact indices of the linear scan with == (multiset); alpha-exh4/5 (thorough also 6): ALL histories of that length over 14 letters (insert of 5, \"5\", 5.0, 0.0, -0.0, NaN; create; drop; filter for the same 6 values; one field). beta: add/remove/lookup through 4 index slots — oracle: lookup(Debug rendering of v) contains every live fact whose join value == v and renders like v, nothing but live facts whose value == v or renders like v, no duplicates; beta-exh5 (thorough also 6): ALL histories of that length over 12 letters (toggle 2 idx x 4 facts keyed 5, \"5\", 5.0, none; 4 lookups). memo: 1..3 nodes (alpha, and/or/not/exists/forall, multifield) x 1..4 fact sets (fresh, type-twins or copies of earlier sets) on one MemoizedEvaluator — oracle: every evaluate equals evaluate_typed. conclusion: add_rule/remove_rule/find_candidates over 4 rule names, 1..3 actions (Set/Log/MethodCall/Retract), enabled or not, 11 goal spellings — oracle: candidates contain every rule whose latest added version is enabled, not removed, and has a Set on the goal's field. engine: the same demand on the candidate list visible in the proof trace of BackwardEngine::query after with_config / knowledge-base edits / rebuild_index, relative to the rule set the index was last built from. Non-trivial: alpha — a judged filter on an indexed field whose index was created after >=1 insert and followed by >=1 insert; beta — a judged lookup after a removal whose key was removed or is still live; memo — some (node, facts) pair evaluated twice and the same node evaluated on two different fact sets; conclusion — a find with a non-empty demanded set after removal of an indexed rule; engine — a query with a non-empty demanded set after a rebuild_index that followed a knowledge-base edit. Distinct: structural hash of the whole generated case (floats by bit pattern). Parts `precision` / `lookalike` (exhaustive): two facts that differ only in a pair of unequal values that a key rendering could write alike (integers equal as f64; a string element containing an element separator, nesting a flattening loses, elements running together, case / blank / Unicode-composition / escape variants) x 5 index schedules x both orders: filter and filter_tracked against the == scan, memoised against direct evaluation. In part lookalike both facts also carry b = x and the memoised nodes include a == b and a != b (the evaluator resolves a value that names a field), so the two facts always differ in verdict. The object under test is built with new() or with default() in turn (by a hash of the case's data, no draw).",
        assumptions: vec![
            "BetaMemoryIndex::lookup takes a caller-rendered key string: a result is accepted when it lies between the == reading and the same-rendering reading of 'carrying that key' (they differ only for ±0.0 and NaN); const BETA_STRICT_EQ switches to == alone".into(),
            "Conclusion index: only completeness (superset) is demanded, as the statement reads; proposing disabled, removed or unrelated rules is not judged".into(),
            "Engine part observes root candidates through QueryResult.proof_trace of a query whose goal already holds in the facts (memoisation off); a query that is not provable that way is discarded".into(),
            "Known findings F1/F2 (alpha index keyed by Debug rendering: ±0.0, NaN) and F3 (memo key blind to value type) are excluded from generation unless no_exclusions is set".into(),
        ],
        parts: vec![
            Part { name: "alpha", run: run_alpha, quick: Budget::Random { cases: 3_000_000, bytes: 96 }, thorough: Budget::Random { cases: 40_000_000, bytes: 96 }, min_nontrivial_pct: 8 },
            Part { name: "alpha-exh4", run: run_alpha, quick: Budget::Exhaustive { param: 4 }, thorough: Budget::Exhaustive { param: 4 }, min_nontrivial_pct: 0 },
            Part { name: "alpha-exh5", run: run_alpha, quick: Budget::Exhaustive { param: 5 }, thorough: Budget::Exhaustive { param: 5 }, min_nontrivial_pct: 0 },
            Part { name: "alpha-exh6", run: run_alpha, quick: Budget::Skip, thorough: Budget::Exhaustive { param: 6 }, min_nontrivial_pct: 0 },
            Part { name: "precision", run: run_precision, quick: Budget::Exhaustive { param: 1 }, thorough: Budget::Exhaustive { param: 1 }, min_nontrivial_pct: 0 },
            Part { name: "lookalike", run: run_lookalike, quick: Budget::Exhaustive { param: 1 }, thorough: Budget::Exhaustive { param: 1 }, min_nontrivial_pct: 0 },
            Part { name: "beta", run: run_beta, quick: Budget::Random { cases: 2_000_000, bytes: 96 }, thorough: Budget::Random { cases: 30_000_000, bytes: 96 }, min_nontrivial_pct: 8 },
            Part { name: "beta-exh5", run: run_beta, quick: Budget::Exhaustive { param: 5 }, thorough: Budget::Exhaustive { param: 5 }, min_nontrivial_pct: 0 },
            Part { name: "beta-exh6", run: run_beta, quick: Budget::Skip, thorough: Budget::Exhaustive { param: 6 }, min_nontrivial_pct: 0 },
            Part { name: "memo", run: run_memo, quick: Budget::Random { cases: 2_000_000, bytes: 96 }, thorough: Budget::Random { cases: 30_000_000, bytes: 96 }, min_nontrivial_pct: 8 },
            Part { name: "conclusion", run: run_conclusion, quick: Budget::Random { cases: 2_000_000, bytes: 96 }, thorough: Budget::Random { cases: 30_000_000, bytes: 96 }, min_nontrivial_pct: 5 },
            Part { name: "engine", run: run_engine, quick: Budget::Random { cases: 1_000_000, bytes: 96 }, thorough: Budget::Random { cases: 15_000_000, bytes: 96 }, min_nontrivial_pct: 5 },
        ],
        watchdog: true,
        replay_reps: 1,
    }
}
