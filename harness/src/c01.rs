//! C01 — forward chaining runs a rule's actions iff its condition is true, and
//! assignments store the value of their right-hand side.
//!
//! Generator: rule sets from the typed core printed to GRL text and loaded
//! through the parser; fact stores with nested objects, flat keys, absent
//! fields. Oracle: REF (typed.rs) runs the single pass itself.

use crate::core::*;
use crate::runner::*;
use crate::typed::*;
use rust_rule_engine::engine::rule::{ConditionExpression, ConditionGroup};
use rust_rule_engine::types::{ActionType, LogicalOperator, Operator, Value};
use rust_rule_engine::{EngineConfig, GRLParser, KnowledgeBase, RustRuleEngine};

pub fn op_to_engine(op: Op) -> Operator {
    match op {
        Op::Eq => Operator::Equal,
        Op::Ne => Operator::NotEqual,
        Op::Lt => Operator::LessThan,
        Op::Le => Operator::LessThanOrEqual,
        Op::Gt => Operator::GreaterThan,
        Op::Ge => Operator::GreaterThanOrEqual,
        Op::Contains => Operator::Contains,
        Op::StartsWith => Operator::StartsWith,
        Op::EndsWith => Operator::EndsWith,
        Op::In => Operator::In,
    }
}

fn term_matches(t: &Term, v: &Value) -> bool {
    match t {
        Term::Lit(l) => &l.to_engine() == v,
        Term::Field(p) => matches!(v, Value::Expression(e) if e == p),
        Term::Arith(a) => matches!(v, Value::Expression(e) if e.split_whitespace().collect::<Vec<_>>() == a.grl().split_whitespace().collect::<Vec<_>>()),
    }
}

fn flatten<'a>(c: &'a Cond, and: bool, out: &mut Vec<&'a Cond>) {
    match (c, and) {
        (Cond::And(a, b), true) => {
            flatten(a, true, out);
            flatten(b, true, out);
        }
        (Cond::Or(a, b), false) => {
            flatten(a, false, out);
            flatten(b, false, out);
        }
        _ => out.push(c),
    }
}
fn flatten_g<'a>(g: &'a ConditionGroup, and: bool, out: &mut Vec<&'a ConditionGroup>) {
    match g {
        ConditionGroup::Compound { left, operator, right } if (and && *operator == LogicalOperator::And) || (!and && *operator == LogicalOperator::Or) => {
            flatten_g(left, and, out);
            flatten_g(right, and, out);
        }
        _ => out.push(g),
    }
}

/// does the parsed condition tree equal the AST (modulo associativity)?
pub fn cond_matches(c: &Cond, g: &ConditionGroup) -> bool {
    match c {
        Cond::Atom(a) => match g {
            ConditionGroup::Single(cond) => match (&a.lhs, &cond.expression) {
                (Lhs::Field(p), ConditionExpression::Field(f)) => f == p && cond.operator == op_to_engine(a.op) && term_matches(&a.rhs, &cond.value),
                (Lhs::Arith(_), ConditionExpression::Test { name, args }) => {
                    args.is_empty() && name.split_whitespace().collect::<Vec<_>>() == a.grl().split_whitespace().collect::<Vec<_>>()
                }
                _ => false,
            },
            _ => false,
        },
        Cond::Not(x, _) => match g {
            ConditionGroup::Not(y) => cond_matches(x, y),
            _ => false,
        },
        Cond::And(..) | Cond::Or(..) => {
            let and = matches!(c, Cond::And(..));
            let mut cs = Vec::new();
            flatten(c, and, &mut cs);
            let mut gs = Vec::new();
            flatten_g(g, and, &mut gs);
            if gs.len() < 2 || cs.len() != gs.len() {
                return false;
            }
            cs.iter().zip(gs.iter()).all(|(x, y)| cond_matches(x, y))
        }
    }
}

pub fn rule_matches(r: &RuleAst, p: &rust_rule_engine::Rule) -> bool {
    if p.name != r.name || p.salience != r.salience || p.no_loop != r.no_loop || !p.enabled {
        return false;
    }
    if !cond_matches(&r.cond, &p.conditions) {
        return false;
    }
    if p.actions.len() != r.actions.len() {
        return false;
    }
    r.actions.iter().zip(p.actions.iter()).all(|(a, pa)| match pa {
        ActionType::Set { field, value } => field == &a.target && term_matches(&a.rhs, value),
        _ => false,
    })
}

pub fn gen_rules(s: &mut Src, cfg: &GenCfg, max_rules: usize) -> Vec<RuleAst> {
    let n = 1 + s.below(max_rules);
    // distinct saliences: a permutation prefix of these
    let mut sal = vec![50, 40, 30, 20, 10, 5];
    let mut rules = Vec::new();
    for i in 0..n {
        let k = s.below(sal.len());
        let salience = sal.remove(k);
        let cond = gen_cond(s, cfg, 1);
        let na = 1 + s.below(3);
        let actions = (0..na).map(|_| gen_assign(s, cfg)).collect();
        rules.push(RuleAst { name: format!("R{}", i), salience, no_loop: false, cond, actions });
    }
    rules
}

pub struct Loaded {
    pub engine: RustRuleEngine,
}

pub fn term_to_engine(t: &Term) -> Value {
    match t {
        Term::Lit(v) => v.to_engine(),
        Term::Field(p) => Value::Expression(p.clone()),
        Term::Arith(a) => Value::Expression(a.grl()),
    }
}

pub fn cond_to_engine(c: &Cond) -> ConditionGroup {
    use rust_rule_engine::engine::rule::Condition;
    match c {
        Cond::Atom(a) => match &a.lhs {
            Lhs::Field(p) => ConditionGroup::single(Condition::new(p.clone(), op_to_engine(a.op), term_to_engine(&a.rhs))),
            Lhs::Arith(x) => ConditionGroup::single(Condition::with_test(format!("{} {} {}", x.grl(), a.op.text(), a.rhs.grl()), vec![])),
        },
        Cond::And(a, b) => ConditionGroup::and(cond_to_engine(a), cond_to_engine(b)),
        Cond::Or(a, b) => ConditionGroup::or(cond_to_engine(a), cond_to_engine(b)),
        Cond::Not(x, _) => ConditionGroup::not(cond_to_engine(x)),
    }
}

/// The `Rule` value the parser produces for this AST (the mapping is validated
/// against the real parser by `rule_matches` in the parser-driven part).
pub fn rule_to_engine(r: &RuleAst) -> rust_rule_engine::Rule {
    let actions = r.actions.iter().map(|a| ActionType::Set { field: a.target.clone(), value: term_to_engine(&a.rhs) }).collect();
    // `with_priority` is documented as an alias of `with_salience`: rules with an odd name length use the alias, and
    // no-loop rules get the flag set before the salience instead of after it (builder order carries no meaning)
    let rule = rust_rule_engine::Rule::new(r.name.clone(), cond_to_engine(&r.cond), actions);
    match (r.name.len() % 2 == 1, r.no_loop) {
        (true, true) => rule.with_no_loop(true).with_priority(r.salience),
        (true, false) => rule.with_priority(r.salience).with_no_loop(false),
        (false, true) => rule.with_no_loop(true).with_salience(r.salience),
        (false, false) => rule.with_salience(r.salience).with_no_loop(r.no_loop),
    }
}

thread_local! {
    /// true: print to GRL and go through GRLParser (the user's path); false: build the same Rule values directly
    pub static VIA_PARSER: std::cell::Cell<bool> = const { std::cell::Cell::new(true) };
}

/// print + parse + structural guard + load. Err(reason) → not judged here.
pub fn load(rules: &[RuleAst], max_cycles: usize) -> Result<RustRuleEngine, &'static str> {
    let parsed = if VIA_PARSER.with(|v| v.get()) {
        let text: String = rules.iter().map(|r| r.grl()).collect::<Vec<_>>().join("\n");
        let parsed = match GRLParser::parse_rules(&text) {
            Ok(p) => p,
            Err(_) => return Err("parser-deviation:parse-error"),
        };
        if parsed.len() != rules.len() {
            return Err("parser-deviation:rule-count");
        }
        for (r, p) in rules.iter().zip(parsed.iter()) {
            if !rule_matches(r, p) {
                return Err("parser-deviation:ast-mismatch");
            }
        }
        parsed
    } else {
        rules.iter().map(rule_to_engine).collect()
    };
    let kb = KnowledgeBase::new("kb");
    for p in parsed {
        if kb.add_rule(p).is_err() {
            return Err("add-rule-error");
        }
    }
    let cfg = EngineConfig { max_cycles, timeout: None, enable_stats: false, debug_mode: false };
    Ok(RustRuleEngine::with_config(kb, cfg))
}

#[derive(Debug, Clone, PartialEq)]
pub struct Firing {
    pub rule: String,
    pub reads: Vec<Option<V>>,
}

pub fn snapshot_model(st: &Store, uni: &[String]) -> Vec<Option<V>> {
    uni.iter().map(|p| st.read(p).unwrap_or(None)).collect()
}
pub fn snapshot_engine(f: &rust_rule_engine::Facts, uni: &[String]) -> Vec<Option<V>> {
    uni.iter().map(|p| engine_read(f, p)).collect()
}

/// universe of judged paths: the fixed candidates plus every assignment target
pub fn paths_for(rules: &[RuleAst]) -> Vec<String> {
    let mut u = universe();
    for r in rules {
        for a in &r.actions {
            if !u.contains(&a.target) {
                u.push(a.target.clone());
            }
        }
    }
    u
}

pub fn describe(rules: &[RuleAst], st: &Store) -> String {
    format!("{}facts: {}", rules.iter().map(|r| r.grl()).collect::<String>(), st.render())
}

fn first_diff(uni: &[String], a: &[Option<V>], b: &[Option<V>]) -> String {
    for (i, p) in uni.iter().enumerate() {
        if a[i] != b[i] {
            return format!("{}: engine {:?}, expected {:?}", p, a[i], b[i]);
        }
    }
    "?".into()
}

pub fn run_api(s: &mut Src, ctx: &mut Ctx) -> Verdict {
    VIA_PARSER.with(|v| v.set(false));
    let r = run(s, ctx);
    VIA_PARSER.with(|v| v.set(true));
    r
}

pub fn run_sweep_api(s: &mut Src, ctx: &mut Ctx) -> Verdict {
    VIA_PARSER.with(|v| v.set(false));
    let r = run_sweep(s, ctx);
    VIA_PARSER.with(|v| v.set(true));
    r
}

pub fn run(s: &mut Src, ctx: &mut Ctx) -> Verdict {
    SPELLING.with(|c| c.set((0, false)));
    let cfg = GenCfg::full();
    let mut store = gen_store(s, &cfg);
    set_store_context(&store);
    let mut rules = gen_rules(s, &cfg, 5);
    // drawn last (saved cases keep decoding): the SPELLING of the case. One case in four calls its numeric fields by
    // names that end like the exponent part of a number or in a digit (A.xe, B.yE, A.e, C.x1e, A.n0); one in four
    // writes its arithmetic without blanks (A.xe+1, B.e-2*A.yE). What a rule means does not depend on either.
    let style = if s.chance(1, 4) { 1 + s.below(2) as u8 } else { 0 };
    let compact = s.chance(1, 4);
    restyle_case(style, &mut rules, &mut store);
    SPELLING.with(|c| c.set((style, compact)));
    if probe_only() {
        SPELLING.with(|c| c.set((0, false)));
        return Verdict::Pass;
    }
    ctx.describe(|| describe(&rules, &store));
    if style > 0 {
        ctx.label("spelling:field-names-ending-like-an-exponent-or-in-a-digit");
    }
    if compact {
        ctx.label("spelling:arithmetic-without-blanks");
    }
    let v = judge_pass(&rules, &store, ctx);
    SPELLING.with(|c| c.set((0, false)));
    v
}

pub fn judge_pass(rules: &[RuleAst], store: &Store, ctx: &mut Ctx) -> Verdict {
    let uni = paths_for(rules);
    // ---- model pass
    let mut order: Vec<&RuleAst> = rules.iter().collect();
    order.sort_by_key(|r| std::cmp::Reverse(r.salience));
    let mut m = store.clone();
    let mut m_seq: Vec<Firing> = Vec::new();
    let mut judged: Vec<&str> = Vec::new();
    let mut cut: Option<&'static str> = None;
    let mut not_fired = 0;
    let mut interesting_atom = false;
    'rules: for r in &order {
        // flat/nested conflicts make reads undefined
        match eval_cond(&r.cond, &m) {
            T3::Undef(u) => {
                cut = Some(u);
                break;
            }
            T3::False => {
                judged.push(&r.name);
                not_fired += 1;
            }
            T3::True => {
                let mut m2 = m.clone();
                for a in &r.actions {
                    match eval_term_rhs(&a.rhs, &m2) {
                        Ok(v) => m2.write(&a.target, v),
                        Err(u) => {
                            cut = Some(u);
                            break 'rules;
                        }
                    }
                }
                m = m2;
                judged.push(&r.name);
                m_seq.push(Firing { rule: r.name.clone(), reads: snapshot_model(&m, &uni) });
            }
        }
        r.cond.for_each_atom(&mut |a| {
            let absent_lhs = matches!(&a.lhs, Lhs::Field(p) if matches!(store.read(p), Ok(None)));
            if absent_lhs || !matches!(a.rhs, Term::Lit(_)) || matches!(a.lhs, Lhs::Arith(_)) {
                interesting_atom = true;
            }
        });
    }
    // a conflict anywhere in the judged universe → refuse
    for p in &uni {
        if m.read(p).is_err() {
            cut = Some("flat-nested-conflict");
        }
    }
    // ---- engine pass
    let mut engine = match load(rules, 1) {
        Ok(e) => e,
        Err(why) => return Verdict::Discard(why),
    };
    let facts = store.to_facts();
    let mut e_seq: Vec<Firing> = Vec::new();
    let res = catch(|| {
        engine.execute_with_callback(&facts, |name, f| {
            e_seq.push(Firing { rule: name.to_string(), reads: snapshot_engine(f, &uni) });
        })
    });
    let res = match res {
        Ok(r) => r,
        Err(p) => {
            // a panic where REF is undefined is not C01's business (C05 owns panics)
            if let Some(u) = cut {
                ctx.label("engine-panic-in-undefined-case");
                return Verdict::Discard(undef_reason(u));
            }
            return Verdict::fail(format!("panic@{}", p.split(": ").next().unwrap_or("?")), p);
        }
    };
    // ---- compare the judged prefix
    let e_judged: Vec<&Firing> = e_seq.iter().take_while(|f| judged.contains(&f.rule.as_str())).collect();
    for (i, mf) in m_seq.iter().enumerate() {
        match e_judged.get(i) {
            None => {
                return Verdict::fail(
                    "not-fired-although-true",
                    format!("rule {} has a true condition (REF) but did not fire; engine fired {:?}", mf.rule, e_seq.iter().map(|f| &f.rule).collect::<Vec<_>>()),
                )
            }
            Some(ef) if ef.rule != mf.rule => {
                // the engine fired a judged rule REF says is false (or out of order)
                let expected_false = !m_seq.iter().any(|x| x.rule == ef.rule);
                return Verdict::fail(
                    if expected_false { "fired-although-false" } else { "firing-order" },
                    format!("engine fired {} where REF expects {}", ef.rule, mf.rule),
                );
            }
            Some(ef) => {
                if ef.reads != mf.reads {
                    return Verdict::fail("assignment-value", format!("after {} fired: {}", mf.rule, first_diff(&uni, &ef.reads, &mf.reads)));
                }
            }
        }
    }
    if e_judged.len() > m_seq.len() {
        let ef = e_judged[m_seq.len()];
        return Verdict::fail("fired-although-false", format!("rule {} fired but REF evaluates its condition to false", ef.rule));
    }
    if let Some(u) = cut {
        ctx.label("cut-at-undefined");
        // partially judged; count the reason
        return Verdict::Discard(undef_reason(u));
    }
    match res {
        Err(e) => return Verdict::fail("execute-error", format!("execute returned Err({}) on a case REF defines completely", e)),
        Ok(r) => {
            if r.rules_fired != e_seq.len() {
                return Verdict::fail("rules-fired-count", format!("rules_fired={} but {} callbacks", r.rules_fired, e_seq.len()));
            }
            if r.rules_fired != m_seq.len() {
                return Verdict::fail("rules-fired-count", format!("rules_fired={} but REF fires {}", r.rules_fired, m_seq.len()));
            }
        }
    }
    let fin = snapshot_engine(&facts, &uni);
    let mfin = snapshot_model(&m, &uni);
    if fin != mfin {
        return Verdict::fail("final-store", first_diff(&uni, &fin, &mfin));
    }
    // the other entry point (execute -> execute_at_time) must give the same result
    {
        let mut engine2 = match load(rules, 1) {
            Ok(e) => e,
            Err(why) => return Verdict::Discard(why),
        };
        let facts2 = store.to_facts();
        match catch(|| engine2.execute(&facts2)) {
            Err(p) => return Verdict::fail(format!("panic@{}", p.split(": ").next().unwrap_or("?")), p),
            Ok(Err(e)) => return Verdict::fail("execute-error", format!("execute() returned Err({}) on a case REF defines completely", e)),
            Ok(Ok(r2)) => {
                if r2.rules_fired != m_seq.len() {
                    return Verdict::fail("rules-fired-count", format!("execute(): rules_fired={} but REF fires {}", r2.rules_fired, m_seq.len()));
                }
                let fin2 = snapshot_engine(&facts2, &uni);
                if fin2 != mfin {
                    return Verdict::fail("final-store", format!("execute(): {}", first_diff(&uni, &fin2, &mfin)));
                }
            }
        }
    }
    // The SAME engine object (it has executed the first store) is then given another fact store: the facts as the
    // first pass left them. What it does there must again be what REF does there - nothing about the first store may
    // linger in the engine. (Only when REF defines that second pass completely.)
    {
        let store2 = m.clone();
        let mut m2s = store2.clone();
        let mut seq2: Vec<String> = Vec::new();
        let mut defined = true;
        'second: for r in &order {
            match eval_cond(&r.cond, &m2s) {
                T3::Undef(_) => {
                    defined = false;
                    break;
                }
                T3::False => {}
                T3::True => {
                    let mut t = m2s.clone();
                    for a in &r.actions {
                        match eval_term_rhs(&a.rhs, &t) {
                            Ok(v) => t.write(&a.target, v),
                            Err(_) => {
                                defined = false;
                                break 'second;
                            }
                        }
                    }
                    m2s = t;
                    seq2.push(r.name.clone());
                }
            }
        }
        if defined && uni.iter().all(|p| m2s.read(p).is_ok()) {
            let facts3 = store2.to_facts();
            let mut got: Vec<String> = Vec::new();
            match catch(|| engine.execute_with_callback(&facts3, |name, _| got.push(name.to_string()))) {
                Err(p) => return Verdict::fail(format!("panic@{}", p.split(": ").next().unwrap_or("?")), p),
                Ok(Err(e)) => return Verdict::fail("execute-error", format!("second store on the same engine: execute returned Err({}) on a case REF defines completely", e)),
                Ok(Ok(_)) => {
                    if got != seq2 {
                        return Verdict::fail(
                            "reused-engine:firing-sequence",
                            format!("the engine that had executed the first store fired {:?} on a second store (the facts as the first pass left them); REF fires {:?} there", got, seq2),
                        );
                    }
                    let fin3 = snapshot_engine(&facts3, &uni);
                    let want3 = snapshot_model(&m2s, &uni);
                    if fin3 != want3 {
                        return Verdict::fail("reused-engine:final-store", format!("second store on the same engine: {}", first_diff(&uni, &fin3, &want3)));
                    }
                    ctx.label("second-store-on-the-same-engine-judged");
                }
            }
        }
    }
    if !m_seq.is_empty() {
        ctx.label("some-fired");
    }
    if not_fired > 0 {
        ctx.label("some-not-fired");
    }
    let natoms: usize = rules.iter().map(|r| r.cond.atoms()).sum();
    if (!m_seq.is_empty() && not_fired > 0) || interesting_atom || natoms >= 3 {
        ctx.nontrivial(hash_rules(rules, store));
    }
    Verdict::Pass
}

pub fn undef_reason(u: &'static str) -> &'static str {
    // prefix so the evidence histogram reads well
    match u {
        "eq-coercible" => "undefined:eq-coercible",
        "order-numeric-string" => "undefined:order-numeric-string",
        "order-int-precision" => "undefined:int-precision",
        "arith-int-precision" => "undefined:int-precision",
        "array-contains" => "undefined:array-contains",
        "in-non-array" => "undefined:in-non-array",
        "rhs-field-absent" => "undefined:rhs-field-absent",
        "arith-absent-operand" => "undefined:arith-absent-operand",
        "arith-non-number" => "undefined:arith-non-number",
        "div-by-zero" => "undefined:div-by-zero",
        "mod-by-zero" => "undefined:mod-by-zero",
        "mod-negative" => "undefined:mod-negative",
        "int-division-inexact" => "undefined:int-division-inexact",
        "concat-numeric-string" => "undefined:concat-numeric-string",
        "flat-nested-conflict" => "undefined:flat-nested-conflict",
        "object-operand" => "undefined:object-operand",
        _ => "undefined:other",
    }
}

// ------------------------------------------------------------------ systematic sweep
// every operator × every ordered pair of value kinds (incl. absent) × {literal, field-ref} rhs

fn sweep_values() -> Vec<Option<V>> {
    vec![
        None,
        Some(V::Null),
        Some(V::Int(0)),
        Some(V::Int(1)),
        Some(V::Int(5)),
        Some(V::Int(-3)),
        Some(V::Float(1.0)),
        Some(V::Float(2.5)),
        Some(V::Float(-0.5)),
        Some(V::Str("".into())),
        Some(V::Str("ab".into())),
        Some(V::Str("abc".into())),
        Some(V::Str("b".into())),
        Some(V::Bool(true)),
        Some(V::Bool(false)),
        Some(V::Arr(vec![])),
        Some(V::Arr(vec![V::Int(1), V::Str("ab".into())])),
        Some(V::Arr(vec![V::Int(5), V::Float(2.5), V::Bool(true)])),
    ]
}

pub fn run_sweep(s: &mut Src, ctx: &mut Ctx) -> Verdict {
    SPELLING.with(|c| c.set((0, false)));
    let vals = sweep_values();
    let ops = [Op::Eq, Op::Ne, Op::Lt, Op::Le, Op::Gt, Op::Ge, Op::Contains, Op::StartsWith, Op::EndsWith, Op::In];
    let op = ops[s.below(ops.len())];
    let l = vals[s.below(vals.len())].clone();
    let r = vals[s.below(vals.len())].clone();
    let rhs_is_field = s.below(2) == 1;
    let negate = s.below(2) == 1;
    if probe_only() {
        return Verdict::Pass;
    }
    let mut st = Store::default();
    let mut a = std::collections::BTreeMap::new();
    if let Some(v) = &l {
        a.insert("x".to_string(), v.clone());
    }
    if rhs_is_field {
        if let Some(v) = &r {
            a.insert("y".to_string(), v.clone());
        }
    }
    st.top.insert("A".into(), V::Obj(a));
    st.top.insert("B".into(), V::Obj(Default::default()));
    let rhs = if rhs_is_field {
        Term::Field("A.y".into())
    } else {
        match &r {
            Some(v) => Term::Lit(v.clone()),
            None => Term::Lit(V::Null),
        }
    };
    let atom = Cond::Atom(Atom { lhs: Lhs::Field("A.x".into()), op, rhs, tight: false });
    let cond = if negate { Cond::Not(Box::new(atom), true) } else { atom };
    let rules = vec![RuleAst { name: "R0".into(), salience: 10, no_loop: false, cond, actions: vec![Assign { target: "B.hit".into(), rhs: Term::Lit(V::Bool(true)) }] }];
    ctx.describe(|| describe(&rules, &st));
    ctx.label("sweep");
    let v = judge_pass(&rules, &st, ctx);
    if matches!(v, Verdict::Pass) {
        ctx.nontrivial(hash_rules(&rules, &st));
    }
    v
}

pub fn property() -> Property {
    Property {
        id: "C01",
        level: "exploration",
        rule: "generated: 1-5 rules of the typed core (condition trees to depth 6 over && || ! and parentheses; atoms field/arithmetic op literal/field/arithmetic with == != < <= > >= contains startsWith endsWith in; 1-3 assignments of literal/field/arithmetic/string concatenation) printed to GRL and loaded through GRLParser (part `parser`) or built as the identical Rule values directly (part `api`, 10x the cases; the AST-to-Rule mapping is the one the parser part validates rule by rule), x fact stores (2-3 nested objects, depth 1-3, flat keys, ints incl. i64 extremes, k/4 floats, strings over {a,b,c}, bools, arrays, nulls, absent fields), max_cycles=1; plus an exhaustive sweep of every operator x every ordered pair of 18 representative values (incl. absent) x {literal, field-ref} x {plain, negated}. Oracle: the tri-state reference evaluator REF runs the pass itself; compared: firing sequence, the store after every firing and at the end (reads over all candidate paths + targets), rules_fired. Cases REF calls undefined (documentation silent/contradictory) are cut at that rule and counted per reason; cases where the parsed rule differs from the AST are counted as parser-deviation and left to C04. Non-trivial: judged to the end and (some rule fired and some did not, or an atom with an absent field / field reference / arithmetic, or >= 3 atoms); distinct by hash of (program text, store). Drawn last (parts parser, api): the spelling of the case -- 1 in 4 calls its numeric fields by names that end like the exponent part of a number or in a digit (xe, yE, e, E, x1e, n0, k2e, e5; rules and store renamed alike), 1 in 4 writes arithmetic without blanks when a field is among the operands (A.xe+1).",
        assumptions: vec![
            "REF (harness/src/typed.rs) is the trusted reference; its 'undefined' classes are listed in DESIGN.md §4.1".into(),
            "string literals use an alphabet disjoint from fact names (the engine documents that a string naming a fact is read as that fact)".into(),
        ],
        parts: vec![
            Part { name: "parser", run, quick: Budget::Random { cases: 30_000, bytes: 1500 }, thorough: Budget::Random { cases: 300_000, bytes: 1500 }, min_nontrivial_pct: 30 },
            Part { name: "api", run: run_api, quick: Budget::Random { cases: 1_000_000, bytes: 1500 }, thorough: Budget::Random { cases: 5_000_000, bytes: 1500 }, min_nontrivial_pct: 30 },
            Part { name: "sweep", run: run_sweep_api, quick: Budget::Exhaustive { param: 1 }, thorough: Budget::Exhaustive { param: 1 }, min_nontrivial_pct: 0 },
            Part { name: "sweep-parser", run: run_sweep, quick: Budget::Skip, thorough: Budget::Exhaustive { param: 1 }, min_nontrivial_pct: 0 },
        ],
        watchdog: true,
        replay_reps: 3,
    }
}
