//! C11 — a query's answer does not depend on earlier queries.
//!
//! Histories of queries on ONE BackwardEngine interleaved with changes to the
//! caller's facts; oracle: the same query on a freshly built engine with the
//! same KB and configuration on a deep copy of the same facts.

use crate::bc::*;
use crate::core::*;
use crate::runner::*;
use crate::typed::*;
use rust_rule_engine::rete::propagation::IncrementalEngine;
use std::sync::{Arc, Mutex};

#[derive(Clone, Debug)]
enum Step {
    /// goal and spelling: 0 = canonical `a op b`, 1 = no blanks around a symbolic operator, 2 = doubled blanks
    Query(GoalQ, u8),
    SetBase(String, V),
    Remove(String),
    /// hand in a brand-new Facts object holding equal content
    FreshEqualStore,
    /// retract every logical (derived) fact in the attached RETE engine
    RetractDerivedInRete,
    /// reconfigure the engine (set_config): from here on the fresh engine is built with this configuration
    SetConfig(Cfg),
    /// the same kind of query through the second entry point: `GRLQueryExecutor::execute` with a GRLQuery that carries
    /// its own configuration (the executor applies it to the engine before asking)
    QueryViaExecutor(GoalQ, u8, Cfg),
    /// Two neighbouring string facts B.s<i> = X and B.s<i+1> = Y are folded into ONE fact B.s<i> whose text spells the
    /// other fact in the k-th of several renderings (`X";B.s1="Y`, `X");B.s1=String("Y`, ...), and B.s<i+1> is removed:
    /// a different store that a careless fingerprint renders like the old one
    Inject(usize, usize),
}

/// {X} / {Y}: the two values, {K}: the name of the second fact
const INJECT_TEMPLATES: [&str; 6] = ["{X}\";{K}=\"{Y}", "{X}\");{K}=String(\"{Y}", "{X}\",{K}:\"{Y}", "{X};{K}={Y}", "{X}\", \"{K}\": \"{Y}", "{X}\n{K}={Y}"];

fn spell(g: &GoalQ, style: u8) -> String {
    let t = g.text();
    let op = g.atom.op.text();
    match style {
        1 if g.atom.op.is_symbolic() => t.replacen(&format!(" {} ", op), op, 1),
        2 => t.replacen(&format!(" {} ", op), &format!("  {}  ", op), 1),
        _ => t,
    }
}

fn gen_history(s: &mut Src, kb: &Kb, cfg0: &Cfg) -> Vec<Step> {
    let n = 2 + s.below(5);
    let mut goals: Vec<GoalQ> = Vec::new();
    let mut steps = Vec::new();
    for _ in 0..n {
        let k = s.weighted(&[6, 3, 2, 1, 1]);
        let st = match k {
            0 => {
                // repeat an earlier goal half of the time
                let g = if !goals.is_empty() && s.bool() { goals[s.below(goals.len())].clone() } else { gen_goal(s, kb) };
                goals.push(g.clone());
                // the same goal in another spelling is another query text: each spelling must get the answer a fresh
                // engine gives to that very text
                let style = [0u8, 0, 0, 1, 2][s.below(5)];
                Step::Query(g, style)
            }
            1 => match s.below(6) {
                0 => Step::SetBase(format!("B.n{}", s.below(NB)), V::Int(s.range(0, 6))),
                1 => Step::SetBase(format!("B.f{}", s.below(NB)), V::Bool(s.bool())),
                2 => Step::SetBase(format!("B.s{}", s.below(NB)), V::Str(["a", "b"][s.below(2)].to_string())),
                // type twins: same text, different type (a keyed cache must tell them apart)
                3 => Step::SetBase(format!("B.n{}", s.below(NB)), V::Str(s.range(0, 6).to_string())),
                4 => Step::SetBase(format!("B.f{}", s.below(NB)), V::Str(s.bool().to_string())),
                _ => Step::SetBase(dname(s.below(4)), if s.bool() { V::Str("true".into()) } else { V::Bool(true) }),
            },
            2 => {
                if s.bool() {
                    Step::Remove(dname(s.below(4)))
                } else {
                    Step::Remove(format!("B.{}{}", ["n", "f", "s"][s.below(3)], s.below(NB)))
                }
            }
            3 => Step::FreshEqualStore,
            _ => Step::RetractDerivedInRete,
        };
        steps.push(st);
    }
    // a reconfiguration somewhere in the history (drawn after the steps, so that histories written before this
    // existed decode as before): another strategy / max_solutions / memo flag, mostly with the SAME max_depth
    if s.chance(1, 3) {
        let pos = s.below(steps.len() + 1);
        let mut c = cfg0.clone();
        match s.below(4) {
            0 | 1 => c.strat = if c.strat == Strat::Dfs { Strat::Bfs } else { Strat::Dfs },
            2 => c.max_solutions = if c.max_solutions == 1 { 3 } else { 1 },
            _ => c.memo = !c.memo,
        }
        if s.chance(1, 4) {
            c.max_depth = s.below(5);
        }
        steps.insert(pos, Step::SetConfig(c));
    }
    // one history in four folds two string facts into one look-alike and repeats the latest query right after (drawn last)
    if s.chance(1, 4) {
        let qs: Vec<usize> = steps.iter().enumerate().filter(|(_, x)| matches!(x, Step::Query(..))).map(|(i, _)| i).collect();
        if !qs.is_empty() {
            let at = qs[s.below(qs.len())];
            let again = steps[at].clone();
            let i = s.below(NB - 1);
            let k = s.below(INJECT_TEMPLATES.len());
            steps.insert(at + 1, Step::Inject(i, k));
            steps.insert(at + 2, again);
        }
    }
    // one history in three asks one of its queries through GRLQueryExecutor (drawn last)
    if s.chance(1, 3) {
        let qs: Vec<usize> = steps.iter().enumerate().filter(|(_, x)| matches!(x, Step::Query(..))).map(|(i, _)| i).collect();
        if !qs.is_empty() {
            let i = qs[s.below(qs.len())];
            let mut c = cfg0.clone();
            match s.below(3) {
                0 => {}
                1 => c.strat = if c.strat == Strat::Dfs { Strat::Bfs } else { Strat::Dfs },
                _ => c.memo = !c.memo,
            }
            if let Step::Query(g, st) = steps[i].clone() {
                steps[i] = Step::QueryViaExecutor(g, st, c);
            }
        }
    }
    // always end with a query
    let g = if !goals.is_empty() && s.chance(2, 3) { goals[s.below(goals.len())].clone() } else { gen_goal(s, kb) };
    let style = [0u8, 0, 1, 2][s.below(4)];
    steps.push(Step::Query(g, style));
    steps
}

pub fn run(s: &mut Src, ctx: &mut Ctx) -> Verdict {
    let mut cfg = gen_cfg(s, true);
    cfg.memo = !s.chance(1, 4);
    if cfg.strat == Strat::Iter {
        cfg.strat = Strat::Dfs;
    }
    cfg.max_depth = cfg.max_depth.min(4);
    let with_rete = s.chance(1, 3);
    let mut kb = gen_kb(s, 5, None);
    let mut st0 = crate::bc::gen_store(s, &kb);
    let steps = gen_history(s, &kb, &cfg);
    apply_str_style(s, &mut kb, &mut st0);
    if probe_only() {
        return Verdict::Pass;
    }
    ctx.describe(|| format!("{:?} attached_rete={}\n{}\n  steps: {}", cfg, with_rete, render(&kb, &st0), steps.iter().map(|x| match x {
        Step::Query(g, st) => format!("query `{}`", spell(g, *st)),
        Step::SetBase(k, v) => format!("set {} = {}", k, v.grl()),
        Step::Remove(k) => format!("remove {}", k),
        Step::FreshEqualStore => "fresh-equal-store".to_string(),
        Step::RetractDerivedInRete => "retract-derived-in-rete".to_string(),
        Step::SetConfig(c) => format!("set_config({:?})", c),
        Step::QueryViaExecutor(g, st, c) => format!("GRLQueryExecutor::execute(goal `{}`, {:?})", spell(g, *st), c),
        Step::Inject(i, k) => format!("fold B.s{} and B.s{} into one string fact (template {:?})", i, i + 1, INJECT_TEMPLATES[*k]),
    }).collect::<Vec<_>>().join("; ")));
    let cfg_initial = cfg.clone();
    let mut cfg = cfg;
    let mut reconfigured = false;
    let mut engine = build_engine(&kb, &cfg);
    let rete = if with_rete { Some(Arc::new(Mutex::new(crate::core::new_or_default(IncrementalEngine::new)))) } else { None };
    let mut facts = to_facts(&st0);
    let mut asked: Vec<(String, Store, bool)> = Vec::new(); // (goal text, store before, answer)
    let mut nt = false;
    let mut queries = 0;
    for (i, step) in steps.iter().enumerate() {
        match step {
            Step::SetBase(k, v) => facts.set(k, v.to_engine()),
            Step::Remove(k) => {
                facts.remove(k);
            }
            Step::SetConfig(c) => {
                engine.set_config(c.to_engine());
                cfg = c.clone();
                reconfigured = true;
            }
            Step::Inject(i, k) => {
                let text = |f: &rust_rule_engine::Facts, key: &str, dflt: &str| match f.get(key) {
                    Some(rust_rule_engine::types::Value::String(t)) => t,
                    _ => dflt.to_string(),
                };
                let (k0, k1) = (format!("B.s{}", i), format!("B.s{}", i + 1));
                let (x, y) = (text(&facts, &k0, "a"), text(&facts, &k1, "b"));
                // make sure the store BEFORE the fold holds both facts (so that the two stores can render alike)
                let folded = INJECT_TEMPLATES[*k].replace("{X}", &x).replace("{K}", &k1).replace("{Y}", &y);
                facts.set(&k0, rust_rule_engine::types::Value::String(folded));
                facts.remove(&k1);
                ctx.label("two-string-facts-folded-into-a-look-alike");
            }
            Step::FreshEqualStore => {
                let copy = from_facts(&facts);
                facts = to_facts(&copy);
            }
            Step::RetractDerivedInRete => {
                if let Some(r) = &rete {
                    let mut e = r.lock().unwrap();
                    let handles = e.working_memory().get_all_handles();
                    for h in handles {
                        if e.tms().is_logical(h) {
                            let _ = e.retract(h);
                        }
                    }
                }
            }
            Step::Query(..) | Step::QueryViaExecutor(..) => {
                let (g, st, via) = match step {
                    Step::Query(g, st) => (g, st, None),
                    Step::QueryViaExecutor(g, st, c) => (g, st, Some(c.clone())),
                    _ => unreachable!(),
                };
                if let Some(c) = &via {
                    // the executor applies the query's configuration to the engine before asking
                    cfg = c.clone();
                    reconfigured = true;
                }
                queries += 1;
                let before = from_facts(&facts);
                let text = spell(g, *st);
                // fresh engine on a deep copy of the same facts
                let fresh_answer = {
                    let mut fe = build_engine(&kb, &cfg);
                    let mut ff = to_facts(&before);
                    let fr = if with_rete && via.is_none() { Some(Arc::new(Mutex::new(crate::core::new_or_default(IncrementalEngine::new)))) } else { None };
                    match catch(|| fe.query_with_rete_engine(&text, &mut ff, fr)) {
                        Ok(Ok(r)) => r.provable,
                        _ => {
                            ctx.label("engine-error");
                            return Verdict::Discard("engine-error");
                        }
                    }
                };
                let asked_answer = match &via {
                    None => catch(|| engine.query_with_rete_engine(&text, &mut facts, rete.clone())),
                    Some(c) => {
                        use rust_rule_engine::backward::grl_query::{GRLQuery, GRLQueryExecutor, GRLSearchStrategy};
                        let q = GRLQuery::new("q".to_string(), text.clone())
                            .with_strategy(if c.strat == Strat::Bfs { GRLSearchStrategy::BreadthFirst } else { GRLSearchStrategy::DepthFirst })
                            .with_max_depth(c.max_depth)
                            .with_max_solutions(c.max_solutions)
                            .with_memoization(c.memo);
                        ctx.label("asked-through-GRLQueryExecutor");
                        catch(|| GRLQueryExecutor::execute(&q, &mut engine, &mut facts))
                    }
                };
                let answer = match asked_answer {
                    Ok(Ok(r)) => r.provable,
                    _ => {
                        ctx.label("engine-error");
                        return Verdict::Discard("engine-error");
                    }
                };
                if answer != fresh_answer {
                    let earlier_same = asked.iter().any(|(t, _, _)| t == &text);
                    let sig = format!(
                        "history-dependent-answer:{}{}{}{}",
                        if cfg.memo { "memo-on" } else { "memo-off" },
                        if earlier_same { ":same-query-asked-before" } else { ":other-queries-only" },
                        if reconfigured { ":after-set_config" } else { "" },
                        if with_rete { ":rete-attached" } else { "" }
                    );
                    return Verdict::fail(
                        sig,
                        format!("step {}: query `{}` answered provable={} after this history, but a fresh engine on the same facts ({}) answers {}", i, text, answer, before.render(), fresh_answer),
                    );
                }
                // non-trivial: the same goal was asked before on different facts with the other answer, or on an equal fresh store
                for (t, b, a) in &asked {
                    if t == &text && (*a != fresh_answer || (*b == before && i > 0)) {
                        nt = true;
                    }
                }
                asked.push((text, before, fresh_answer));
            }
        }
    }
    if cfg.memo {
        ctx.label("memo-on");
    }
    if with_rete {
        ctx.label("rete-attached");
    }
    if reconfigured {
        ctx.label("reconfigured-by-set_config");
    }
    let _ = cfg_initial;
    if nt {
        ctx.label("repeat-with-flipped-answer-or-equal-store");
    }
    if queries >= 2 && nt {
        ctx.nontrivial(hash_str(ctx.desc.clone().unwrap_or_default().as_str()) ^ hash_case(&kb, &st0, &format!("{:?}{:?}", cfg, steps)));
    }
    Verdict::Pass
}

pub fn property() -> Property {
    Property {
        id: "C11",
        level: "exploration",
        rule: "generated: one BackwardEngine (memoisation on 3/4, DFS or BFS, max_depth 0..4, max_solutions 1/3, optionally an attached IncrementalEngine) over a Horn KB of 1-5 rules; histories of 3-7 steps: query (half of them repeat an earlier goal, in one of three spellings: canonical, no blanks, doubled blanks), assert/change a base fact (including type twins: the same text as a string instead of a number/boolean), remove a base or derived fact, hand in a brand-new equal store, retract all logical facts in the attached RETE engine, in one history of three one query asked through GRLQueryExecutor::execute (a GRLQuery carrying its own configuration), and in one history of three a set_config call (other strategy / max_solutions / memo flag, mostly the same max_depth) after which the fresh engine is built with the new configuration; always ending with a query. Oracle: for every query, provable equals the answer of a freshly constructed engine (same KB, same config, fresh RETE engine if attached) on a deep copy of the facts as they were just before the query. Non-trivial: a goal is repeated after the facts changed so that the fresh engine's answer flips, or repeated on an equal store; distinct by (KB, store, config, history). The object under test is built with new() or with default() in turn (by a hash of the case's data, no draw).",
        assumptions: vec!["the fresh engine is the same code without history: the oracle isolates exactly the dependence on history; engine errors/panics are counted, not judged".into()],
        parts: vec![Part { name: "random", run, quick: Budget::Random { cases: 400_000, bytes: 400 }, thorough: Budget::Random { cases: 10_000_000, bytes: 400 }, min_nontrivial_pct: 15 }],
        watchdog: true,
        replay_reps: 5,
    }
}
