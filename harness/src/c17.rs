//! C17 — cached proofs are valid exactly while a justification survives.
//!
//! Generator: histories of `insert_proof` / `invalidate_handle` / `is_proven`
//! over at most 5 handles (random: ≤ 9 operations; exhaustive: every history of
//! a fixed length over 3–5 handles, up to renaming of handles). Premises of an
//! insertion are drawn from the *other* handles that were never invalidated
//! (directly or by losing all their justifications); they may be handles that
//! have no node yet, so every insertion order is reachable.
//!
//! Oracle: a justification-graph model written from the statement — per handle a
//! list of justifications (premise sets) and an `invalidated` flag; invalidation
//! flags the handle, deletes every justification that mentions it, and repeats
//! this for every node left without justification (fixpoint). A handle is
//! proven iff it is not flagged and has at least one justification. Compared
//! with `get_node(h).valid` for every handle after every operation, and with
//! `is_proven(key_h)` / `lookup_by_key(key_h)` at every query operation, at the
//! end of the history and (in "every-step" cases) after every operation.
//!
//! Known finding F1 (recursive invalidation walks `node.dependents`, which misses
//! dependents inserted before the premise node existed): while KNOWN_FINDINGS.txt
//! lists `id=C17-F1` as `known:`, the generator drops from an insertion exactly the
//! premises that would trigger it (see `find_f1_trigger`); without that line the whole
//! domain is searched.

use crate::core::*;
use crate::findings;
use crate::runner::*;
use rust_rule_engine::backward::proof_graph::{FactKey, ProofGraph};
use rust_rule_engine::rete::FactHandle;
use std::sync::OnceLock;

const MAXH: usize = 5;
const NAMES: [&str; MAXH] = ["A", "B", "C", "D", "E"];
/// engine-side ids: deliberately neither dense nor ordered like the model indices
const IDS: [u64; MAXH] = [11, 4, 29, 7, 16];

const F1: &str = "F1-dependent-inserted-before-premise-node";
const SIG_F1: &str = "stale-proven:premise-had-no-node-at-insert";

#[derive(Clone, Copy, Debug, PartialEq, Eq, Hash)]
enum Op {
    /// is_proven(key_h) + lookup_by_key(key_h)
    Query(u8),
    /// insert_proof(h, key_h, premises = bit set over handle indices)
    Insert(u8, u8),
    /// invalidate_handle(h)
    Invalidate(u8),
}

#[derive(Clone, Debug)]
struct Case {
    nh: usize,
    /// call is_proven/lookup_by_key for every handle after every operation
    /// (otherwise only get_node — which takes &self — is read after every operation)
    every_step: bool,
    ops: Vec<Op>,
    /// the graph is not new: this many proofs of unrelated facts were inserted into it before the history starts
    /// (every fifth of them invalidated again), so that whatever the graph does every so many insertions, or with
    /// handles beyond some count, happens in the middle of the judged history
    warm: usize,
}

/// a count just below a round number: B - r for B in {16, 32, 64, 100, 128, 256, 1000, 1024}, r in 0..=9
pub fn warm_count(s: &mut Src) -> usize {
    let b = [64usize, 16, 32, 128, 100, 256, 1000, 1024][s.weighted(&[20, 8, 8, 8, 4, 4, 1, 1])];
    b - s.below(10)
}

fn set_str(mask: u8) -> String {
    let v: Vec<&str> = (0..MAXH).filter(|p| mask & (1 << p) != 0).map(|p| NAMES[p]).collect();
    format!("[{}]", v.join(","))
}

/// Marks, in the model, a justification that was inserted under the handle's second key.
const ALIAS_BIT: u8 = 0x80;

/// One history in three files some of its insertions under a second key of the same handle (`<Name>.alias`): a
/// pure function of the operations, so saved cases keep decoding. Returns, per operation, whether it does.
fn alias_plan(c: &Case) -> Vec<bool> {
    let h = c.ops.iter().fold(c.nh as u64, |a, o| {
        let x = match *o {
            Op::Query(h) => h as u64,
            Op::Insert(h, m) => 7 + h as u64 * 256 + m as u64,
            Op::Invalidate(h) => 3 + h as u64 * 16,
        };
        a.wrapping_mul(1_000_003).wrapping_add(x)
    });
    if h % 3 != 0 {
        return vec![false; c.ops.len()];
    }
    c.ops.iter().enumerate().map(|(i, o)| matches!(o, Op::Insert(..)) && (i as u64 + h / 3) % 2 == 0).collect()
}

fn render(c: &Case) -> String {
    let plan = alias_plan(c);
    let ops: Vec<String> = c
        .ops
        .iter()
        .enumerate()
        .map(|(i, o)| match *o {
            Op::Query(h) => format!("is_proven {}", NAMES[h as usize]),
            Op::Insert(h, m) => format!("insert {}<-{}{}", NAMES[h as usize], set_str(m), if plan[i] { " under its second key" } else { "" }),
            Op::Invalidate(h) => format!("invalidate {}", NAMES[h as usize]),
        })
        .collect();
    // (the prefix is only printed when present: cases rendered before it existed keep their text)
    let style = id_style_of(c);
    format!(
        "{}{}handles={} observe={} ops: {}",
        if style > 0 { format!("handle ids: {}; ", ["", "(h+1)<<32 | 7", "id<<16 | 0x2a", "u64::MAX - id", "1<<63 | id", "0xdeadbeef<<32 | id<<16"][style as usize]) } else { String::new() },
        if c.warm > 0 { format!("graph after {} unrelated warm-up insertions; ", c.warm) } else { String::new() },
        c.nh,
        if c.every_step { "is_proven-every-step" } else { "get_node-every-step" },
        ops.join("; ")
    )
}

// ---------------------------------------------------------------- model

/// The statement, executed literally.
#[derive(Clone)]
struct Model {
    nh: usize,
    /// surviving justifications per handle (premise bit sets)
    just: Vec<Vec<u8>>,
    /// invalidated directly and not re-proved since
    flagged: Vec<bool>,
    /// insert_proof(h, ..) happened at least once
    has_node: Vec<bool>,
    /// was ever invalidated, directly or by losing all justifications (domain restriction for premises)
    ever_invalid: Vec<bool>,
}

#[derive(Default)]
struct InvInfo {
    /// a justification was deleted because of a handle other than the one named in the call
    transitive: bool,
    /// a node kept ≥ 1 justification while losing ≥ 1
    one_of_many_died: bool,
    /// some node other than the named one became invalid
    some_dependent_died: bool,
}

impl Model {
    fn new(nh: usize) -> Self {
        Model {
            nh,
            just: vec![Vec::new(); nh],
            flagged: vec![false; nh],
            has_node: vec![false; nh],
            ever_invalid: vec![false; nh],
        }
    }
    fn proven(&self, h: usize) -> bool {
        !self.flagged[h] && !self.just[h].is_empty()
    }
    fn insert(&mut self, h: usize, premises: u8) {
        self.just[h].push(premises);
        self.flagged[h] = false;
        self.has_node[h] = true;
    }
    fn invalidate(&mut self, h: usize) -> InvInfo {
        let mut info = InvInfo::default();
        let before: Vec<usize> = self.just.iter().map(|j| j.len()).collect();
        self.flagged[h] = true;
        self.ever_invalid[h] = true;
        let mut work = vec![h];
        while let Some(x) = work.pop() {
            for y in 0..self.nh {
                let n0 = self.just[y].len();
                self.just[y].retain(|m| m & (1 << x) == 0);
                let n1 = self.just[y].len();
                if n1 < n0 {
                    if x != h {
                        info.transitive = true;
                    }
                    if n1 == 0 {
                        // left without justification: invalidated in turn
                        self.ever_invalid[y] = true;
                        if y != h {
                            info.some_dependent_died = true;
                        }
                        work.push(y);
                    }
                }
            }
        }
        for y in 0..self.nh {
            if self.just[y].len() < before[y] && !self.just[y].is_empty() {
                info.one_of_many_died = true;
            }
        }
        info
    }
    fn eligible_premise(&self, h: usize, p: usize) -> bool {
        p != h && !self.ever_invalid[p]
    }
}

// ---------------------------------------------------------------- known findings

/// The F1 exclusion is active only while KNOWN_FINDINGS.txt lists C17-F1 as `known:`
/// (so that after a `fix:` the whole domain is searched again without editing this file).
fn f1_listed() -> bool {
    static L: OnceLock<bool> = OnceLock::new();
    *L.get_or_init(|| {
        findings::load(&verif_root().join("KNOWN_FINDINGS.txt"))
            .iter()
            .any(|f| f.kind == "known" && f.property == "C17" && f.id == "C17-F1")
    })
}

/// F1: a dependent inserted while its premise has no node is not registered in the
/// premise node's `dependents` once that node is created, and the recursive step of the
/// invalidation walks `dependents` only. Triggering feature: an insertion Y<-[..X..] made
/// while X has no node, where X gets a node later and then loses all its justifications
/// *through propagation* while that justification of Y is still alive. Returns the first
/// such (operation index of the insertion, X, operation index of the invalidation) of the
/// history, found with the deletion dynamics of the statement (flags play no role in which
/// justifications are deleted).
fn find_f1_trigger(case: &Case) -> Option<(usize, usize, usize)> {
    let nh = case.nh;
    // per handle: (premises, premises without node at insertion time, operation index)
    let mut just: Vec<Vec<(u8, u8, usize)>> = vec![Vec::new(); nh];
    let mut has_node = [false; MAXH];
    for (i, op) in case.ops.iter().enumerate() {
        match *op {
            Op::Query(_) => {}
            Op::Insert(h, mask) => {
                let mut late = 0u8;
                for p in 0..nh {
                    if mask & (1 << p) != 0 && !has_node[p] {
                        late |= 1 << p;
                    }
                }
                just[h as usize].push((mask, late, i));
                has_node[h as usize] = true;
            }
            Op::Invalidate(h) => {
                let h = h as usize;
                let mut work = vec![h];
                while let Some(x) = work.pop() {
                    for y in 0..nh {
                        if x != h {
                            // x lost all its justifications in this call: the engine reaches only node(x).dependents
                            if let Some(j) = just[y].iter().find(|j| j.0 & j.1 & (1 << x) != 0) {
                                return Some((j.2, x, i));
                            }
                        }
                        let n0 = just[y].len();
                        just[y].retain(|j| j.0 & (1 << x) == 0);
                        if just[y].len() < n0 && just[y].is_empty() {
                            work.push(y);
                        }
                    }
                }
            }
        }
    }
    None
}

/// The switch drops X from the premises of exactly those insertions, one at a time, until
/// the history has no trigger left. The case stays in the domain: fewer premises can only
/// make fewer handles invalid, so every remaining premise is still a never-invalidated one.
fn apply_exclusions(case: &mut Case, ctx: &mut Ctx) {
    if ctx.no_exclusions || !f1_listed() {
        return;
    }
    let mut dropped = false;
    while let Some((i, x, _)) = find_f1_trigger(case) {
        if let Op::Insert(h, mask) = case.ops[i] {
            case.ops[i] = Op::Insert(h, mask & !(1 << x));
            dropped = true;
        } else {
            break;
        }
    }
    if dropped {
        ctx.exclude(F1);
    }
}

// ---------------------------------------------------------------- generators

/// premise-slot patterns over 4 slots, simplest first (by number of premises)
const SLOT_MASKS: [u8; 16] = [0, 1, 2, 4, 8, 3, 5, 6, 9, 10, 12, 7, 11, 13, 14, 15];
const SLOT_W: [u32; 16] = [4, 3, 3, 3, 3, 1, 1, 1, 1, 1, 1, 1, 1, 1, 1, 1];
const LEN_W: [u32; 10] = [1, 1, 1, 1, 2, 2, 3, 3, 4, 6];
const SKIP_W: u32 = 5;
const QUERY_W: u32 = 9;
const INVALIDATE_W: u32 = 13;

/// One operation = one draw over a fixed table of 1 + 5 + 16*5 + 5 alternatives (total
/// weight 250 ≤ 256: one byte). Entry 0 is "no operation", so that shrinking a byte to 0
/// removes exactly one operation from the history. Order: nothing, queries, insertions by
/// growing premise pattern, invalidations.
fn op_table() -> &'static (Vec<u32>, Vec<(u8, u8, u8)>) {
    static T: OnceLock<(Vec<u32>, Vec<(u8, u8, u8)>)> = OnceLock::new();
    T.get_or_init(|| {
        let mut w = vec![SKIP_W];
        let mut e = vec![(3u8, 0u8, 0u8)];
        for h in 0..MAXH as u8 {
            w.push(QUERY_W);
            e.push((0u8, h, 0u8));
        }
        for (k, &slots) in SLOT_MASKS.iter().enumerate() {
            for h in 0..MAXH as u8 {
                w.push(SLOT_W[k]);
                e.push((1, h, slots));
            }
        }
        for h in 0..MAXH as u8 {
            w.push(INVALIDATE_W);
            e.push((2, h, 0));
        }
        (w, e)
    })
}

fn gen_random(s: &mut Src) -> Case {
    let nh = 2 + s.weighted(&[2, 3, 3, 3]);
    let n = s.weighted(&LEN_W);
    let every_step = s.bool();
    let (w, entries) = op_table();
    let mut m = Model::new(nh);
    let mut ops = Vec::with_capacity(n);
    for _ in 0..n {
        // entry 0 = no operation (also what a read past the end of the data decodes to)
        let (kind, h, slots) = entries[s.weighted(w)];
        let h = h as usize % nh;
        match kind {
            0 => ops.push(Op::Query(h as u8)),
            1 => {
                let others: Vec<usize> = (0..nh).filter(|&p| p != h).collect();
                let mut mask = 0u8;
                for j in 0..4 {
                    if slots & (1 << j) != 0 {
                        let p = others[j % others.len()];
                        // outside the quantifier: an invalidated handle is not used as a premise again
                        if m.eligible_premise(h, p) {
                            mask |= 1 << p;
                        }
                    }
                }
                m.insert(h, mask);
                ops.push(Op::Insert(h as u8, mask));
            }
            2 => {
                m.invalidate(h);
                ops.push(Op::Invalidate(h as u8));
            }
            _ => {}
        }
    }
    // drawn last (earlier encodings keep their meaning): one graph in four is not new
    let warm = if s.chance(1, 6) { warm_count(s) } else { 0 };
    Case { nh, every_step, ops, warm }
}

/// Exhaustive: `param = 10 * handles + length`. Every history of exactly `length`
/// insert/invalidate operations (all prefixes are judged too, the comparison runs after
/// every operation), up to renaming of handles: the handle an operation acts on is either
/// one already acted on or the next unused index. Premise sets range over all subsets of
/// the eligible other handles (acted on or not).
fn gen_exh(s: &mut Src, param: u32) -> Case {
    let nh = ((param / 10) as usize).clamp(2, MAXH);
    let len = (param % 10) as usize;
    let mut m = Model::new(nh);
    let mut ops = Vec::with_capacity(len);
    let mut seen = 0usize;
    for _ in 0..len {
        let bound = (seen + 1).min(nh);
        let h = if bound > 1 { s.below(bound) } else { 0 };
        if h == seen {
            seen += 1;
        }
        let elig: Vec<usize> = (0..nh).filter(|&p| m.eligible_premise(h, p)).collect();
        let a = s.below(1 + (1usize << elig.len()));
        if a == 0 {
            m.invalidate(h);
            ops.push(Op::Invalidate(h as u8));
        } else {
            let bits = a - 1;
            let mut mask = 0u8;
            for (j, &p) in elig.iter().enumerate() {
                if bits & (1 << j) != 0 {
                    mask |= 1 << p;
                }
            }
            m.insert(h, mask);
            ops.push(Op::Insert(h as u8, mask));
        }
    }
    Case { nh, every_step: true, ops, warm: 0 }
}

// ---------------------------------------------------------------- oracle

fn key_of(h: usize) -> FactKey {
    // the shape search.rs gives to cached derivations: "<Type>.derived"
    FactKey::from_pattern(&format!("{}.derived", NAMES[h]))
}
thread_local! {
    /// How the case numbers its handles (set at the start of `execute`, a pure function of the case):
    /// 0 small ids; 1 ids that agree in their low 32 bits; 2 ids that agree in their low 16 bits; 3 ids just below
    /// u64::MAX; 4 ids with the top bit set; 5 ids that agree in their HIGH 32 bits and are multiples of 2^16
    static ID_STYLE: std::cell::Cell<u8> = const { std::cell::Cell::new(0) };
}

/// `FactHandle` ids are arbitrary u64: nothing in the statement depends on their size or bit pattern.
fn handle_of(h: usize) -> FactHandle {
    let h64 = h as u64;
    FactHandle::new(match ID_STYLE.with(|c| c.get()) {
        1 => ((h64 + 1) << 32) | 7,
        2 => ((IDS[h]) << 16) | 0x2a,
        3 => u64::MAX - IDS[h],
        4 => (1 << 63) | IDS[h],
        5 => (0xdead_beef << 32) | (IDS[h] << 16),
        _ => IDS[h],
    })
}

fn id_style_of(c: &Case) -> u8 {
    let h = c.ops.iter().fold(c.nh as u64 + 17, |a, o| {
        let x = match *o {
            Op::Query(h) => h as u64,
            Op::Insert(h, m) => 5 + h as u64 * 256 + m as u64,
            Op::Invalidate(h) => 2 + h as u64 * 16,
        };
        a.wrapping_mul(0x9e37_79b9).wrapping_add(x)
    });
    if h % 2 == 0 {
        0
    } else {
        1 + ((h / 2) % 5) as u8
    }
}

struct Mismatch {
    observer: &'static str,
    h: usize,
    engine: bool,
}

/// `f1_at`: operation index at which the executed history first contains the trigger of F1
fn classify(mm: &[Mismatch], m: &Model, f1_at: Option<usize>, step: usize) -> String {
    // most specific mechanism first
    let mut stale_flag = None;
    let mut stale_other = None;
    let mut lost_reproof = None;
    let mut lost_other = None;
    for x in mm {
        if x.engine {
            if m.flagged[x.h] {
                stale_flag.get_or_insert(x.observer);
            } else {
                stale_other.get_or_insert(x.observer);
            }
        } else if m.ever_invalid[x.h] {
            lost_reproof.get_or_insert(x.observer);
        } else {
            lost_other.get_or_insert(x.observer);
        }
    }
    if let Some(o) = stale_flag {
        format!("stale-proven:directly-invalidated@{}", o)
    } else if let Some(o) = stale_other {
        if f1_at.map(|t| t <= step).unwrap_or(false) {
            format!("{}@{}", SIG_F1, o)
        } else {
            format!("stale-proven:lost-all-justifications@{}", o)
        }
    } else if let Some(o) = lost_reproof {
        format!("not-proven:after-reproof@{}", o)
    } else {
        format!("not-proven:has-live-justification@{}", lost_other.unwrap_or("?"))
    }
}

#[derive(Clone, Copy, PartialEq)]
enum Obs {
    /// get_node(h).valid for every handle
    Nodes,
    /// + is_proven / lookup_by_key for one handle
    One(usize),
    /// + is_proven / lookup_by_key for every handle
    All,
}

fn observe(g: &mut ProofGraph, m: &Model, f1_at: Option<usize>, keys: &[FactKey], obs: Obs, step: usize, what: &dyn Fn() -> String) -> Option<Verdict> {
    let mut mm: Vec<Mismatch> = Vec::new();
    for h in 0..m.nh {
        let want = m.proven(h);
        let node_valid = g.get_node(&handle_of(h)).map(|n| n.valid).unwrap_or(false);
        if node_valid != want {
            mm.push(Mismatch { observer: "get_node", h, engine: node_valid });
        }
        // (a handle that also has justifications filed under its second key: the first key is judged where every
        // reading agrees -- see observe_alias)
        let first_key_determined = !want || m.just[h].iter().any(|j| j & ALIAS_BIT == 0);
        if (obs == Obs::All || obs == Obs::One(h)) && first_key_determined {
            let key = &keys[h];
            let p = g.is_proven(key);
            if p != want {
                mm.push(Mismatch { observer: "is_proven", h, engine: p });
            }
            let l = match g.lookup_by_key(key) {
                None => false,
                Some(nodes) => {
                    if nodes.is_empty() || nodes.iter().any(|n| !n.valid || n.handle != Some(handle_of(h)) || (n.key != *key && n.key != FactKey::from_pattern(&format!("{}.alias", NAMES[h])))) {
                        return Some(Verdict::fail(
                            "lookup-returned-wrong-node",
                            format!("step {} ({}): lookup_by_key({}.derived) returned an empty list, an invalid node or a node of another handle/key", step, what(), NAMES[h]),
                        ));
                    }
                    true
                }
            };
            if l != want {
                mm.push(Mismatch { observer: "lookup_by_key", h, engine: l });
            }
        }
    }
    if mm.is_empty() {
        return None;
    }
    let sig = classify(&mm, m, f1_at, step);
    let list: Vec<String> = mm
        .iter()
        .map(|x| {
            format!(
                "{}({})={} but model says {} (flagged={}, surviving justifications={:?})",
                x.observer,
                NAMES[x.h],
                if x.engine { "proven" } else { "not proven" },
                if x.engine { "not proven" } else { "proven" },
                m.flagged[x.h],
                m.just[x.h].iter().map(|&j| set_str(j)).collect::<Vec<_>>()
            )
        })
        .collect();
    Some(Verdict::fail(sig, format!("step {} ({}): {}", step, what(), list.join("; "))))
}

/// A handle filed under a second key. The statement speaks of "a cached proof" and its justifications; which key a
/// justification came in under is no part of it. Judged only where every reading agrees: the second key answers
/// proven when a justification that was inserted under it survives (and the handle is not flagged), and not proven
/// when the handle has no surviving justification at all or is flagged. (In between -- only justifications that
/// came in under the first key survive -- nothing is demanded.) Histories that reach finding F1 are left out.
fn observe_alias(g: &mut ProofGraph, m: &Model, f1_at: Option<usize>, alias_keys: &[FactKey], alias_used: &[bool], step: usize, what: &dyn Fn() -> String) -> Option<Verdict> {
    if f1_at.map(|t| t <= step).unwrap_or(false) {
        return None;
    }
    for h in 0..m.nh {
        if !alias_used[h] {
            continue;
        }
        let want = if !m.proven(h) {
            false
        } else if m.just[h].iter().any(|j| j & ALIAS_BIT != 0) {
            true
        } else {
            continue;
        };
        let p = g.is_proven(&alias_keys[h]);
        let l = g.lookup_by_key(&alias_keys[h]).map(|v| !v.is_empty()).unwrap_or(false);
        if p != want || l != want {
            return Some(Verdict::fail(
                if want { "second-key:not-proven-with-live-justification" } else { "second-key:stale-proven" },
                format!(
                    "step {} ({}): {} was also inserted under the key {}.alias; is_proven={} lookup_by_key={} under that key, but the model says {} (flagged={}, surviving justifications={:?}, of which inserted under that key: {})",
                    step,
                    what(),
                    NAMES[h],
                    NAMES[h],
                    p,
                    l,
                    if want { "proven" } else { "not proven" },
                    m.flagged[h],
                    m.just[h].iter().map(|&j| set_str(j)).collect::<Vec<_>>(),
                    m.just[h].iter().filter(|&&j| j & ALIAS_BIT != 0).count()
                ),
            ));
        }
    }
    None
}

fn has_cycle(dep: &[u8], nh: usize) -> bool {
    // transitive closure over ≤ 5 nodes
    let mut reach: Vec<u8> = dep.to_vec();
    for _ in 0..nh {
        for a in 0..nh {
            let mut r = reach[a];
            for b in 0..nh {
                if reach[a] & (1 << b) != 0 {
                    r |= reach[b];
                }
            }
            reach[a] = r;
        }
    }
    (0..nh).any(|a| reach[a] & (1 << a) != 0)
}

fn has_diamond(dep: &[u8], nh: usize) -> bool {
    for d in 0..nh {
        for b in 0..nh {
            for c in (b + 1)..nh {
                if b == d || c == d || dep[d] & (1 << b) == 0 || dep[d] & (1 << c) == 0 {
                    continue;
                }
                let common = dep[b] & dep[c] & !(1 << d) & !(1 << b) & !(1 << c);
                if common != 0 {
                    return true;
                }
            }
        }
    }
    false
}

/// `dep`: premises of the surviving justifications; is `root` the common premise of two
/// distinct premises of a third handle?
fn diamond_below(dep: &[u8], nh: usize, root: usize) -> bool {
    for d in 0..nh {
        let mut via = 0;
        for b in 0..nh {
            if b != d && b != root && dep[d] & (1 << b) != 0 && dep[b] & (1 << root) != 0 {
                via += 1;
            }
        }
        if d != root && via >= 2 {
            return true;
        }
    }
    false
}

fn execute(case: &Case, ctx: &mut Ctx) -> Verdict {
    let nh = case.nh;
    let style = id_style_of(case);
    ID_STYLE.with(|c| c.set(style));
    if style > 0 {
        ctx.label(["", "ids:same-low-32-bits", "ids:same-low-16-bits", "ids:near-u64-max", "ids:top-bit-set", "ids:same-high-32-bits"][style as usize]);
    }
    let mut g = crate::core::new_or_default(ProofGraph::new);
    for w in 0..case.warm {
        let h = FactHandle::new(100_000 + w as u64);
        let (premises, premise_keys) = if w % 3 == 1 { (vec![FactHandle::new(100_000 + w as u64 - 1)], vec![format!("Warm{}.derived", w - 1)]) } else { (vec![], vec![]) };
        g.insert_proof(h, FactKey::from_pattern(&format!("Warm{}.derived", w)), "warm-up".to_string(), premises, premise_keys);
        if w % 5 == 4 {
            g.invalidate_handle(&h);
        }
    }
    if case.warm > 0 {
        ctx.label("graph-not-new(warm-up-insertions)");
    }
    let mut m = Model::new(nh);
    let f1_at = find_f1_trigger(case).map(|t| t.2);
    let keys: Vec<FactKey> = (0..nh).map(key_of).collect();
    let plan = alias_plan(case);
    let alias_keys: Vec<FactKey> = (0..nh).map(|h| FactKey::from_pattern(&format!("{}.alias", NAMES[h]))).collect();
    let mut alias_used = vec![false; nh];
    // classification state
    let mut dep = vec![0u8; nh]; // union of all premises ever given for a handle
    let mut waiting: Vec<u8> = vec![0; nh]; // waiting[p]: dependents inserted while p had no node
    let mut late_premise_got_node = false;
    let mut late_premise_died = false;
    let mut one_of_many = false;
    let mut reproof = false;
    let mut reproof_of_propagated = false;
    let mut transitive = false;
    let mut multi_just = false;
    let mut invalidate_unknown = false;
    let mut dependent_died = false;
    let mut diamond_root_invalidated = false;

    for (i, op) in case.ops.iter().enumerate() {
        let what = || match *op {
            Op::Query(h) => format!("is_proven {}", NAMES[h as usize]),
            Op::Insert(h, mask) => format!("insert {}<-{}", NAMES[h as usize], set_str(mask)),
            Op::Invalidate(h) => format!("invalidate {}", NAMES[h as usize]),
        };
        let mut obs = if case.every_step { Obs::All } else { Obs::Nodes };
        match *op {
            Op::Query(h) => {
                let h = h as usize;
                if obs == Obs::Nodes {
                    obs = Obs::One(h);
                }
            }
            Op::Insert(h, mask) => {
                let h = h as usize;
                if mask >> nh != 0 {
                    return Verdict::Discard("premise-out-of-range");
                }
                let mut premises = Vec::new();
                let mut premise_keys = Vec::new();
                for p in 0..nh {
                    if mask & (1 << p) != 0 {
                        if !m.eligible_premise(h, p) {
                            // guard: never judge a history the quantifier excludes
                            return Verdict::Discard("premise-was-invalidated");
                        }
                        premises.push(handle_of(p));
                        premise_keys.push(format!("{}.derived", NAMES[p]));
                        if !m.has_node[p] {
                            waiting[p] |= 1 << h;
                        }
                    }
                }
                if m.has_node[h] && !m.proven(h) {
                    reproof = true;
                    if !m.flagged[h] {
                        reproof_of_propagated = true;
                    }
                }
                if !m.has_node[h] && waiting[h] != 0 {
                    late_premise_got_node = true;
                }
                // the order in which premises are listed carries no meaning: every second insertion lists them backwards,
                // and every third one names a premise twice
                let (mut premises, mut premise_keys) = (premises, premise_keys);
                if i % 2 == 1 {
                    premises.reverse();
                    premise_keys.reverse();
                }
                if i % 3 == 2 && !premises.is_empty() {
                    premises.push(premises[0]);
                    premise_keys.push(premise_keys[0].clone());
                }
                if plan[i] {
                    g.insert_proof(handle_of(h), alias_keys[h].clone(), format!("rule{}", i), premises, premise_keys);
                    m.insert(h, mask | ALIAS_BIT);
                    alias_used[h] = true;
                } else {
                    g.insert_proof(handle_of(h), keys[h].clone(), format!("rule{}", i), premises, premise_keys);
                    m.insert(h, mask);
                }
                dep[h] |= mask;
                if m.just[h].len() >= 2 {
                    multi_just = true;
                }
            }
            Op::Invalidate(h) => {
                let h = h as usize;
                if !m.has_node[h] {
                    invalidate_unknown = true;
                }
                let dep_now: Vec<u8> = m.just.iter().map(|js| js.iter().fold(0u8, |a, &j| a | j)).collect();
                if diamond_below(&dep_now, nh, h) {
                    diamond_root_invalidated = true;
                }
                g.invalidate_handle(&handle_of(h));
                let was: Vec<bool> = (0..nh).map(|y| !m.just[y].is_empty()).collect();
                let info = m.invalidate(h);
                transitive |= info.transitive;
                one_of_many |= info.one_of_many_died;
                dependent_died |= info.some_dependent_died;
                for p in 0..nh {
                    // a premise whose dependents were inserted before its node existed loses all its justifications
                    if waiting[p] != 0 && was[p] && m.just[p].is_empty() {
                        late_premise_died = true;
                    }
                }
            }
        }
        if let Some(v) = observe(&mut g, &m, f1_at, &keys, obs, i, &what) {
            return v;
        }
        if let Some(v) = observe_alias(&mut g, &m, f1_at, &alias_keys, &alias_used, i, &what) {
            return v;
        }
    }
    if let Some(v) = observe(&mut g, &m, f1_at, &keys, Obs::All, case.ops.len(), &|| "end of history".to_string()) {
        return v;
    }
    if let Some(v) = observe_alias(&mut g, &m, f1_at, &alias_keys, &alias_used, case.ops.len(), &|| "end of history".to_string()) {
        return v;
    }
    if alias_used.iter().any(|&a| a) {
        ctx.label("handle-under-two-keys");
    }

    if late_premise_got_node {
        ctx.label("dependent-before-premise");
    }
    if late_premise_died {
        ctx.label("dependent-before-premise:premise-lost-all");
    }
    if one_of_many {
        ctx.label("one-of-several-justifications-died");
    }
    if reproof {
        ctx.label("reproof-after-invalidation");
    }
    if reproof_of_propagated {
        ctx.label("reproof-after-losing-all-justifications");
    }
    if transitive {
        ctx.label("chain:transitive-invalidation");
    }
    if dependent_died {
        ctx.label("dependent-invalidated");
    }
    if multi_just {
        ctx.label("multiple-justifications");
    }
    if has_diamond(&dep, nh) {
        ctx.label("diamond");
    }
    if diamond_root_invalidated {
        ctx.label("diamond:root-invalidated");
    }
    if has_cycle(&dep, nh) {
        ctx.label("cyclic");
    }
    if invalidate_unknown {
        ctx.label("invalidate-handle-without-node");
    }
    if case.ops.iter().any(|o| matches!(o, Op::Query(_))) {
        ctx.label("has-query-op");
    }
    if late_premise_got_node || one_of_many || reproof {
        ctx.nontrivial(hash_of(&(case.nh, case.every_step, &case.ops)));
    }
    Verdict::Pass
}

pub fn run_random(s: &mut Src, ctx: &mut Ctx) -> Verdict {
    let mut case = gen_random(s);
    if probe_only() {
        return Verdict::Pass;
    }
    apply_exclusions(&mut case, ctx);
    ctx.describe(|| render(&case));
    execute(&case, ctx)
}

pub fn run_exh(s: &mut Src, ctx: &mut Ctx) -> Verdict {
    // a replay file of an exhaustive part carries its own `exh`; a missing one falls back to 3 handles x 5 ops
    let param = if ctx.exh > 0 { ctx.exh } else { 35 };
    let mut case = gen_exh(s, param);
    if probe_only() {
        return Verdict::Pass;
    }
    apply_exclusions(&mut case, ctx);
    ctx.describe(|| render(&case));
    execute(&case, ctx)
}

pub fn property() -> Property {
    Property {
        id: "C17",
        level: "exploration",
        rule: "generated: histories of insert_proof(h, key_h, premises) / invalidate_handle(h) / is_proven(key_h) on one ProofGraph; random part: 0..9 operations over 2..5 handles; exhaustive parts: every history of exactly N insert/invalidate operations over H handles up to renaming of handles (budget param = 10*H+N), premise sets = all subsets of the other handles that were never invalidated (directly or by losing all justifications), including handles that have no node yet. Oracle: justification-graph model from the statement (invalidate = flag + delete every justification mentioning the handle, repeated for every node left without justification; proven = not flagged and >= 1 justification), compared with get_node(h).valid for all handles after every operation and with is_proven/lookup_by_key at query operations, at the end, and in every-step cases after every operation. Non-trivial: a dependent was inserted before its premise got a node, or a node kept a justification while losing another, or an invalid node was re-proved; distinct by (handle count, observation mode, operation sequence). Handle ids come in six styles by case (small; equal low 32 bits; equal low 16 bits; just below u64::MAX; top bit set; equal high 32 bits). One history in three files some insertions of a handle under a second key `<Name>.alias`; either key is judged only where every reading agrees (a justification inserted under it survives => proven; no surviving justification at all => not proven). The object under test is built with new() or with default() in turn (by a hash of the case's data, no draw).",
        assumptions: vec![
            "ProofGraph treats FactHandle values as opaque (hash/equality only), so exhaustive parts enumerate histories up to renaming of handles".into(),
            "premises never name the handle being inserted, and never a handle that was invalidated before (stricter reading of the quantifier); one FactKey per handle, plus (one history in three) a second key `<Name>.alias` under which some of its insertions are filed; the second key is judged only where every reading agrees (a justification inserted under it survives => proven; no surviving justification at all => not proven)".into(),
            "the known-finding exclusion F1 is active only while KNOWN_FINDINGS.txt lists id=C17-F1 as known".into(),
        ],
        parts: vec![
            Part { name: "random", run: run_random, quick: Budget::Random { cases: 3_000_000, bytes: 24 }, thorough: Budget::Random { cases: 15_000_000, bytes: 24 }, min_nontrivial_pct: 30 },
            Part { name: "exh-3h", run: run_exh, quick: Budget::Exhaustive { param: 36 }, thorough: Budget::Exhaustive { param: 37 }, min_nontrivial_pct: 0 },
            Part { name: "exh-4h", run: run_exh, quick: Budget::Exhaustive { param: 45 }, thorough: Budget::Exhaustive { param: 46 }, min_nontrivial_pct: 0 },
            Part { name: "exh-5h", run: run_exh, quick: Budget::Skip, thorough: Budget::Exhaustive { param: 55 }, min_nontrivial_pct: 0 },
        ],
        watchdog: true,
        replay_reps: 25,
    }
}
