//! C14 — stream inner join equals the reference join for every interleaving.
//!
//! One case = a pair of event sequences (left, right) + window + join condition
//! + watermark plan. The run function enumerates **all** merges of the two
//! arrival orders (≤ C(8,4) = 70) and judges every merge against a nested-loop
//! reference join written from the statement.
//!
//! * mode "never"  — `update_watermark` is not called during the run, so nothing
//!   is ever evicted: the multiset of emitted (left, right) pairs must equal the
//!   reference exactly (nothing missing, nothing twice, nothing else), for every
//!   merge; one `update_watermark(0)` at the very end must emit nothing.
//! * mode "wm"     — non-decreasing watermark updates between arrivals:
//!   emitted ⊆ reference, no pair twice, and a reference pair is *required*
//!   whenever at the arrival of its later element the earlier one was not yet
//!   evictable (`watermark − t ≤ W`); otherwise either outcome is legal.
//! * the same two modes through `StreamJoinManager` routing (plus a decoy join
//!   on (L, X) whose reference is empty because stream X never gets an event).

use crate::core::*;
use crate::runner::*;
use rust_rule_engine::rete::stream_join_node::{JoinStrategy, JoinType, JoinedEvent, StreamJoinNode};
use rust_rule_engine::streaming::event::{EventMetadata, StreamEvent};
use rust_rule_engine::streaming::join_manager::StreamJoinManager;
use rust_rule_engine::types::Value;
use std::collections::HashMap;
use std::sync::{Arc, Mutex};
use std::time::Duration;

const MAXN: usize = 4;

#[derive(Clone, Debug, Hash, PartialEq)]
struct Ev {
    /// join key index (k1, k2, k3) or no key at all
    key: Option<u8>,
    ts: u64,
    v: i64,
}

#[derive(Clone, Debug, Hash, PartialEq)]
enum Wm {
    /// no `update_watermark` during the run (one `update_watermark(0)` after the last arrival)
    Never,
    /// slot i is visited before arrival i, slot n after the last arrival;
    /// `Some(d)`: the watermark advances by d (d may be 0) and `update_watermark` is called
    Slots(Vec<Option<u8>>),
    /// after every arrival `update_watermark(max(base, max timestamp seen − lag))`
    Derived { lag: i64 },
}

#[derive(Clone, Debug, Hash, PartialEq)]
enum Via {
    Node,
    /// through StreamJoinManager; watermark sent for stream L (0), R (1) or both (2)
    Manager { wm_streams: u8 },
}

#[derive(Clone, Debug, Hash)]
struct Case {
    w_ms: u64,
    /// offset added to every timestamp and watermark (0 or an epoch-seconds sized value)
    base: u64,
    cond_le: bool,
    shared_ids: bool,
    left: Vec<Ev>,
    right: Vec<Ev>,
    wm: Wm,
    via: Via,
    /// 1, or the factor by which the window (in seconds), every timestamp offset, every watermark increment and the
    /// lag were multiplied (minutes, hours, a day, odd factors) before each timestamp was moved by -1, 0 or +1
    scale: i64,
}

impl Case {
    fn w(&self) -> i64 {
        (self.w_ms / 1000) as i64
    }
}

#[derive(Clone, Copy, PartialEq)]
enum Mode {
    NoWm,
    WithWm,
    Mgr,
}

const INCR: [u8; 7] = [0, 1, 2, 3, 5, 8, 13];
const EXH_TS: [u64; 4] = [0, 1, 3, 4];
const EXH_W: [u64; 3] = [0, 1, 3];

/// exhaustive watermark slot alphabets (index = exh / 100)
fn exh_alphabet(a: u32) -> &'static [Option<u8>] {
    match a {
        1 => &[None, Some(2), Some(5)],
        2 => &[None, Some(1), Some(3), Some(6)],
        _ => &[None, Some(3)],
    }
}

fn gen(s: &mut Src, exh: u32, mode: Mode) -> Case {
    if exh > 0 {
        // exh = a*100 + nl*10 + nr; a = 0: no watermark, a > 0: slot alphabet `a`
        let a = exh / 100;
        let nl = ((exh / 10) % 10) as usize;
        let nr = (exh % 10) as usize;
        let cfg = s.below(6);
        let w_ms = EXH_W[cfg % 3] * 1000;
        let cond_le = cfg / 3 == 1;
        // one combined draw per event (keeps the leading draws wide: the runner
        // distributes the choice tree over workers by the first three draws)
        let per = if cond_le { 24 } else { 12 };
        let ev = |s: &mut Src| {
            let x = s.below(per);
            let key = match x % 3 {
                0 => Some(0u8),
                1 => Some(1u8),
                _ => None,
            };
            Ev { key, ts: EXH_TS[(x / 3) % 4], v: (x / 12) as i64 }
        };
        let left: Vec<Ev> = (0..nl).map(|_| ev(s)).collect();
        let right: Vec<Ev> = (0..nr).map(|_| ev(s)).collect();
        let wm = if a == 0 {
            Wm::Never
        } else {
            let al = exh_alphabet(a);
            Wm::Slots((0..=nl + nr).map(|_| al[s.below(al.len())]).collect())
        };
        return Case { w_ms, base: 0, cond_le, shared_ids: true, left, right, wm, via: Via::Node, scale: 1 };
    }
    // Random mode uses a FIXED byte layout (every field of every slot is drawn whether it is used or not),
    // so that shrinking one byte changes one feature of the case and never shifts the decoding of the rest.
    let w_s: u64 = s.pick(&[10u64, 3, 1, 0]);
    let frac = if s.chance(1, 8) { 500 } else { 0 };
    let cond_le = s.bool();
    let shared_ids = s.bool();
    let nk = 1 + s.below(3);
    // timestamps 0..12; often from a narrower prefix of that domain so that equal-key events meet inside small windows
    let span = s.pick(&[13usize, 6, 3]);
    let base: u64 = if s.chance(1, 8) { 1_700_000_000 } else { 0 };
    let wm_streams = s.below(3) as u8;
    let via = if mode == Mode::Mgr { Via::Manager { wm_streams } } else { Via::Node };
    let k = s.weighted(&[1, 3, 1]);
    let kind = match mode {
        Mode::NoWm => 0,
        Mode::WithWm => {
            if k == 2 {
                2
            } else {
                1
            }
        }
        Mode::Mgr => k,
    };
    let lag = s.pick(&[0i64, 1, 2, 3, 5, 10]);
    // event slots alternate left/right and are interleaved with the watermark slots, so that a short byte
    // string still yields events on both sides and watermark updates between them
    let mut left: Vec<Ev> = Vec::new();
    let mut right: Vec<Ev> = Vec::new();
    let mut slots: Vec<Option<u8>> = Vec::new();
    let wm_slot = |s: &mut Src, slots: &mut Vec<Option<u8>>| {
        if mode != Mode::NoWm {
            let on = s.bool();
            let d = INCR[s.below(INCR.len())];
            slots.push(if on { Some(d) } else { None });
        }
    };
    wm_slot(s, &mut slots);
    for slot in 0..2 * MAXN {
        let present = s.chance(3, 4);
        let keyless = s.chance(1, 8);
        let k = (s.below(6) % nk) as u8; // always one byte; uniform for nk = 1, 2, 3
        let ts = base + s.below(span) as u64;
        let pv = s.below(3) as i64;
        if present {
            let e = Ev { key: if keyless { None } else { Some(k) }, ts, v: pv };
            if slot % 2 == 0 {
                left.push(e);
            } else {
                right.push(e);
            }
        }
        wm_slot(s, &mut slots);
    }
    slots.truncate(left.len() + right.len() + 1);
    let wm = match kind {
        0 => Wm::Never,
        1 => Wm::Slots(slots),
        _ => Wm::Derived { lag },
    };
    // Wide scale, drawn after everything else: one case in four multiplies the window, every timestamp offset, every
    // watermark increment and the lag by a factor far from the 0..13 unit domain, then moves each timestamp by -1, 0 or
    // +1, so that pairs sit exactly at, just inside and just outside distance W and evictions happen on the boundary.
    let mut scale = 1i64;
    let wide = s.chance(1, 4);
    let k = s.pick(&[60i64, 3600, 86_400, 1001, 65_537]);
    let jit: Vec<i64> = (0..2 * MAXN).map(|_| s.below(3) as i64 - 1).collect();
    if wide {
        scale = k;
        for (i, e) in left.iter_mut().enumerate() {
            e.ts = (base as i64 + (e.ts - base) as i64 * k + jit[i]).max(base as i64) as u64;
        }
        for (i, e) in right.iter_mut().enumerate() {
            e.ts = (base as i64 + (e.ts - base) as i64 * k + jit[MAXN + i]).max(base as i64) as u64;
        }
    }
    Case { w_ms: w_s * scale as u64 * 1000 + frac, base, cond_le, shared_ids, left, right, wm, via, scale }
}

/// Event ids are unique within a stream, as `StreamEvent::id` documents ("Unique event identifier"; the constructors
/// draw a UUID). With two same-side events that share id AND timestamp the node's matched-flags (keyed by id and
/// timestamp) alias, and the unchanged code already emits a pair twice after a partial eviction -- outside the domain.
fn id_of(case: &Case, left: bool, i: usize) -> String {
    if case.shared_ids {
        format!("e{}", i)
    } else if left {
        format!("L{}", i)
    } else {
        format!("R{}", i)
    }
}

fn mk_event(case: &Case, left: bool, i: usize) -> StreamEvent {
    let e = if left { &case.left[i] } else { &case.right[i] };
    let mut data = HashMap::new();
    if let Some(k) = e.key {
        // the two streams carry their key in different fields (the node takes one extractor per side)
        data.insert(if left { "k" } else { "rk" }.to_string(), Value::String(format!("k{}", k + 1)));
    }
    data.insert("v".to_string(), Value::Integer(e.v));
    StreamEvent {
        id: id_of(case, left, i),
        event_type: "T".into(),
        data,
        metadata: EventMetadata {
            timestamp: e.ts,
            source: if left { "L".into() } else { "R".into() },
            sequence: i as u64,
            tags: HashMap::new(),
        },
    }
}

fn mk_node(left: &str, right: &str, w_ms: u64, cond_le: bool) -> StreamJoinNode {
    // The window a node joins with is its public `join_strategy` field. For every second window size (a pure function
    // of the case, no draw) the node is built with another window and the field is assigned afterwards - the way a
    // node is re-tuned - so a value derived from the strategy at construction time shows.
    let retuned = (w_ms / 1000) % 2 == 1;
    let mut n = mk_node_with(left, right, if retuned { w_ms + 7000 } else { w_ms }, cond_le);
    if retuned {
        n.join_strategy = JoinStrategy::TimeWindow { duration: Duration::from_millis(w_ms) };
    }
    n
}

fn mk_node_with(left: &str, right: &str, w_ms: u64, cond_le: bool) -> StreamJoinNode {
    StreamJoinNode::new(
        left.to_string(),
        right.to_string(),
        JoinType::Inner,
        JoinStrategy::TimeWindow { duration: Duration::from_millis(w_ms) },
        Box::new(|e| e.data.get("k").and_then(|v| v.as_string())),
        Box::new(|e| e.data.get("rk").and_then(|v| v.as_string())),
        if cond_le {
            Box::new(|l, r| {
                let a = l.data.get("v").and_then(|v| v.as_integer()).unwrap_or(0);
                let b = r.data.get("v").and_then(|v| v.as_integer()).unwrap_or(0);
                a <= b
            })
        } else {
            Box::new(|_, _| true)
        },
    )
}

type Sink = Arc<Mutex<Vec<JoinedEvent>>>;

enum Sut {
    Node(Box<StreamJoinNode>),
    Mgr { m: StreamJoinManager, sink: Sink, decoy: Sink, wm_streams: u8 },
}

impl Sut {
    fn new(case: &Case) -> Sut {
        match case.via {
            Via::Node => Sut::Node(Box::new(mk_node("L", "R", case.w_ms, case.cond_le))),
            Via::Manager { wm_streams } => {
                let mut m = crate::core::new_or_default(StreamJoinManager::new);
                let sink: Sink = Arc::new(Mutex::new(Vec::new()));
                let decoy: Sink = Arc::new(Mutex::new(Vec::new()));
                let s2 = sink.clone();
                let d2 = decoy.clone();
                m.register_join("j".into(), mk_node("L", "R", case.w_ms, case.cond_le), Box::new(move |j| s2.lock().unwrap().push(j)));
                m.register_join("decoy".into(), mk_node("L", "X", case.w_ms, case.cond_le), Box::new(move |j| d2.lock().unwrap().push(j)));
                // Every second manager (by the case's salt) also hosts joins in which the streams play the OTHER part:
                // one whose LEFT input is R (the right input of the join under test) and one whose RIGHT input is L;
                // every fourth has unregistered the first of them again. A stream is left or right per join, not globally.
                if crate::core::case_bit(9) {
                    m.register_join("r-as-left".into(), mk_node("R", "Y", case.w_ms, case.cond_le), Box::new(|_| {}));
                    m.register_join("l-as-right".into(), mk_node("Z", "L", case.w_ms, case.cond_le), Box::new(|_| {}));
                    if crate::core::case_bit(19) {
                        m.unregister_join("r-as-left");
                    }
                }
                Sut::Mgr { m, sink, decoy, wm_streams }
            }
        }
    }
    fn arrive(&mut self, left: bool, e: StreamEvent) -> Vec<JoinedEvent> {
        match self {
            Sut::Node(n) => {
                if left {
                    n.process_left(e)
                } else {
                    n.process_right(e)
                }
            }
            Sut::Mgr { m, sink, .. } => {
                m.process_event(e);
                std::mem::take(&mut *sink.lock().unwrap())
            }
        }
    }
    fn watermark(&mut self, w: i64) -> Vec<JoinedEvent> {
        match self {
            Sut::Node(n) => n.update_watermark(w),
            Sut::Mgr { m, sink, wm_streams, .. } => {
                if *wm_streams != 1 {
                    m.update_watermark("L", w);
                }
                if *wm_streams != 0 {
                    m.update_watermark("R", w);
                }
                std::mem::take(&mut *sink.lock().unwrap())
            }
        }
    }
    fn decoy_outputs(&self) -> usize {
        match self {
            Sut::Node(_) => 0,
            Sut::Mgr { decoy, .. } => decoy.lock().unwrap().len(),
        }
    }
    /// events currently buffered (labelling only, never used by the oracle)
    fn buffered(&self) -> usize {
        match self {
            Sut::Node(n) => {
                let st = n.get_stats();
                st.left_buffer_size + st.right_buffer_size
            }
            Sut::Mgr { m, .. } => m.get_join_stats("j").map(|st| st.left_buffer_size + st.right_buffer_size).unwrap_or(0),
        }
    }
}

/// nested-loop reference join, written from the statement
fn reference(case: &Case) -> [[bool; MAXN]; MAXN] {
    let mut r = [[false; MAXN]; MAXN];
    let w = case.w();
    for (i, l) in case.left.iter().enumerate() {
        for (j, rr) in case.right.iter().enumerate() {
            let keys_equal = matches!((l.key, rr.key), (Some(a), Some(b)) if a == b);
            let dist = (l.ts as i64 - rr.ts as i64).abs();
            let cond = !case.cond_le || l.v <= rr.v;
            r[i][j] = keys_equal && dist <= w && cond;
        }
    }
    r
}

fn why_not(case: &Case, i: usize, j: usize) -> &'static str {
    let (l, r) = (&case.left[i], &case.right[j]);
    match (l.key, r.key) {
        (Some(a), Some(b)) if a == b => {
            if (l.ts as i64 - r.ts as i64).abs() > case.w() {
                "window"
            } else {
                "cond"
            }
        }
        (Some(_), Some(_)) => "key",
        _ => "keyless",
    }
}

fn all_merges(nl: usize, nr: usize) -> Vec<Vec<bool>> {
    fn rec(nl: usize, nr: usize, cur: &mut Vec<bool>, out: &mut Vec<Vec<bool>>) {
        if nl == 0 && nr == 0 {
            out.push(cur.clone());
            return;
        }
        if nl > 0 {
            cur.push(true);
            rec(nl - 1, nr, cur, out);
            cur.pop();
        }
        if nr > 0 {
            cur.push(false);
            rec(nl, nr - 1, cur, out);
            cur.pop();
        }
    }
    let mut out = Vec::new();
    rec(nl, nr, &mut Vec::new(), &mut out);
    out
}

fn merge_str(m: &[bool]) -> String {
    m.iter().map(|&l| if l { 'L' } else { 'R' }).collect()
}

#[derive(Default)]
struct Flags {
    optional_emitted: bool,
    optional_dropped: bool,
    evicted: bool,
    wm_before_arrival: bool,
}

struct Decoded {
    l: usize,
    r: usize,
}

fn decode(case: &Case, j: &JoinedEvent) -> Result<Decoded, Verdict> {
    let (l, r) = match (&j.left, &j.right) {
        (Some(l), Some(r)) => (l, r),
        _ => {
            return Err(Verdict::fail(
                "unpaired-output",
                format!(
                    "inner join emitted a JoinedEvent with a missing side: left={:?} right={:?}",
                    j.left.as_ref().map(|e| &e.id),
                    j.right.as_ref().map(|e| &e.id)
                ),
            ))
        }
    };
    let find = |e: &StreamEvent, left: bool| -> Option<usize> {
        let n = if left { case.left.len() } else { case.right.len() };
        (0..n).find(|&i| {
            let m = if left { &case.left[i] } else { &case.right[i] };
            id_of(case, left, i) == e.id && e.metadata.timestamp == m.ts && e.metadata.sequence == i as u64 && e.metadata.source == if left { "L" } else { "R" }
        })
    };
    match (find(l, true), find(r, false)) {
        (Some(a), Some(b)) => Ok(Decoded { l: a, r: b }),
        _ => Err(Verdict::fail(
            "foreign-event",
            format!(
                "emitted pair ({}@{} from {}, {}@{} from {}) is not (a left input, a right input)",
                l.id, l.metadata.timestamp, l.metadata.source, r.id, r.metadata.timestamp, r.metadata.source
            ),
        )),
    }
}

/// run one merge against the system under test and judge it
fn run_merge(case: &Case, evs: &(Vec<StreamEvent>, Vec<StreamEvent>), refm: &[[bool; MAXN]; MAXN], merge: &[bool], fl: &mut Flags) -> Result<(), Verdict> {
    let w = case.w();
    let n = merge.len();
    let mut sut = Sut::new(case);
    let mut cnt = [[0u8; MAXN]; MAXN];
    // where the 2nd emission of a pair came from (true = update_watermark)
    let mut dup_at_wm = [[false; MAXN]; MAXN];
    // arrival position and the highest watermark announced before that arrival
    let mut arr_l: [(usize, Option<i64>); MAXN] = [(0, None); MAXN];
    let mut arr_r: [(usize, Option<i64>); MAXN] = [(0, None); MAXN];
    let mut wm_val: i64 = case.base as i64;
    let mut wm_seen: Option<i64> = None;
    let mut max_ts: i64 = case.base as i64;
    let (mut il, mut ir) = (0usize, 0usize);
    let mut keyed_arrivals = 0usize;
    let ms = || merge_str(merge);

    let absorb = |outs: Vec<JoinedEvent>, at_wm: bool, step: usize, cnt: &mut [[u8; MAXN]; MAXN], dup: &mut [[bool; MAXN]; MAXN]| -> Result<(), Verdict> {
        for j in &outs {
            let d = match decode(case, j) {
                Ok(d) => d,
                Err(Verdict::Fail { sig, detail }) => return Err(Verdict::fail(sig, format!("merge {} step {}: {}", merge_str(merge), step, detail))),
                Err(v) => return Err(v),
            };
            cnt[d.l][d.r] = cnt[d.l][d.r].saturating_add(1);
            if cnt[d.l][d.r] == 2 {
                dup[d.l][d.r] = at_wm;
            }
        }
        Ok(())
    };

    for pos in 0..=n {
        if let Wm::Slots(sl) = &case.wm {
            if let Some(d) = sl[pos] {
                wm_val += d as i64 * case.scale;
                let outs = sut.watermark(wm_val);
                wm_seen = Some(wm_val);
                if pos < n {
                    fl.wm_before_arrival = true;
                }
                absorb(outs, true, pos, &mut cnt, &mut dup_at_wm)?;
                if sut.buffered() < keyed_arrivals {
                    fl.evicted = true;
                }
            }
        }
        if pos == n {
            break;
        }
        let left = merge[pos];
        let (e, ts, keyed) = if left {
            arr_l[il] = (pos, wm_seen);
            il += 1;
            (evs.0[il - 1].clone(), case.left[il - 1].ts, case.left[il - 1].key.is_some())
        } else {
            arr_r[ir] = (pos, wm_seen);
            ir += 1;
            (evs.1[ir - 1].clone(), case.right[ir - 1].ts, case.right[ir - 1].key.is_some())
        };
        if keyed {
            keyed_arrivals += 1;
        }
        let outs = sut.arrive(left, e);
        absorb(outs, false, pos, &mut cnt, &mut dup_at_wm)?;
        if let Wm::Derived { lag } = case.wm {
            max_ts = max_ts.max(ts as i64);
            wm_val = (max_ts - lag * case.scale).max(case.base as i64);
            let outs = sut.watermark(wm_val);
            wm_seen = Some(wm_val);
            if pos + 1 < n {
                fl.wm_before_arrival = true;
            }
            absorb(outs, true, pos, &mut cnt, &mut dup_at_wm)?;
            if sut.buffered() < keyed_arrivals {
                fl.evicted = true;
            }
        }
    }

    let emitted = |cnt: &[[u8; MAXN]; MAXN]| -> String {
        let mut v = Vec::new();
        for (i, row) in cnt.iter().enumerate() {
            for (j, c) in row.iter().enumerate() {
                for _ in 0..*c {
                    v.push(format!("({},{})", i, j));
                }
            }
        }
        format!("[{}]", v.join(" "))
    };
    let refs = || -> String {
        let mut v = Vec::new();
        for (i, row) in refm.iter().enumerate() {
            for (j, c) in row.iter().enumerate() {
                if *c {
                    v.push(format!("({},{})", i, j));
                }
            }
        }
        format!("[{}]", v.join(" "))
    };

    for i in 0..case.left.len() {
        for j in 0..case.right.len() {
            let c = cnt[i][j];
            if c > 0 && !refm[i][j] {
                return Err(Verdict::fail(
                    format!("spurious-pair:{}", why_not(case, i, j)),
                    format!("merge {}: emitted (left {}, right {}) which is not in the reference join; emitted={} reference={}", ms(), i, j, emitted(&cnt), refs()),
                ));
            }
            if c > 1 {
                return Err(Verdict::fail(
                    format!("duplicate-pair:{}", if dup_at_wm[i][j] { "watermark" } else { "arrival" }),
                    format!("merge {}: pair (left {}, right {}) emitted {} times; emitted={} reference={}", ms(), i, j, c, emitted(&cnt), refs()),
                ));
            }
            if refm[i][j] {
                let (pl, wl) = arr_l[i];
                let (pr, wr) = arr_r[j];
                // the element that arrived first is the one that may have been evicted
                let (earlier_ts, wm_at_later, second) = if pl < pr { (case.left[i].ts as i64, wr, "right") } else { (case.right[j].ts as i64, wl, "left") };
                let required = match wm_at_later {
                    None => true,
                    Some(x) => x - earlier_ts <= w,
                };
                if c == 0 {
                    if required {
                        return Err(Verdict::fail(
                            format!("missing-pair:{}-arrives-second", second),
                            format!(
                                "merge {}: reference pair (left {}, right {}) never emitted although its earlier element (t={}) was not evictable when the later one arrived (watermark {:?}, W={}); emitted={} reference={}",
                                ms(), i, j, earlier_ts, wm_at_later, w, emitted(&cnt), refs()
                            ),
                        ));
                    }
                    fl.optional_dropped = true;
                } else if !required {
                    fl.optional_emitted = true;
                }
            }
        }
    }
    if case.wm == Wm::Never {
        // nothing was ever evicted; watermark 0 evicts nothing either (0 − t ≤ W)
        let outs = sut.watermark(0);
        if !outs.is_empty() {
            let mut extra = Vec::new();
            for j in &outs {
                extra.push(match decode(case, j) {
                    Ok(d) => format!("({},{})", d.l, d.r),
                    Err(_) => "(?)".into(),
                });
            }
            return Err(Verdict::fail(
                "final-watermark-emits",
                format!("merge {}: update_watermark(0) after the last arrival emitted {} (every pair had already been emitted on arrival)", ms(), extra.join(" ")),
            ));
        }
    }
    if sut.decoy_outputs() > 0 {
        return Err(Verdict::fail("decoy-join-output", format!("merge {}: join (L,X) emitted {} results although stream X never had an event", ms(), sut.decoy_outputs())));
    }
    Ok(())
}

fn describe(case: &Case) -> String {
    let evs = |v: &Vec<Ev>| -> String {
        v.iter()
            .enumerate()
            .map(|(i, e)| format!("{}:{}@{}v{}", i, e.key.map(|k| format!("k{}", k + 1)).unwrap_or_else(|| "-".into()), e.ts - case.base, e.v))
            .collect::<Vec<_>>()
            .join(" ")
    };
    format!(
        "window={}ms base={} cond={} ids={} via={:?} wm={:?} left=[{}] right=[{}] (idx:key@timestamp-base v payload; watermarks start at base); all {} merges",
        case.w_ms,
        case.base,
        if case.cond_le { "l.v<=r.v" } else { "true" },
        if case.shared_ids { "shared(e<i> on both sides)" } else { "distinct(L<i>/R<i>)" },
        case.via,
        case.wm,
        evs(&case.left),
        evs(&case.right),
        all_merges(case.left.len(), case.right.len()).len()
    )
}

fn run_case(case: &Case, ctx: &mut Ctx) -> Verdict {
    ctx.describe(|| describe(case));
    let refm = reference(case);
    let evs: (Vec<StreamEvent>, Vec<StreamEvent>) =
        ((0..case.left.len()).map(|i| mk_event(case, true, i)).collect(), (0..case.right.len()).map(|i| mk_event(case, false, i)).collect());
    let merges = all_merges(case.left.len(), case.right.len());
    let mut fl = Flags::default();
    for m in &merges {
        if let Err(v) = run_merge(case, &evs, &refm, m, &mut fl) {
            return v;
        }
    }

    // classification
    let w = case.w();
    let mut ref_n = 0;
    let mut boundary = false;
    let mut cond_filters = false;
    let mut window_filters = false;
    for (i, l) in case.left.iter().enumerate() {
        for (j, r) in case.right.iter().enumerate() {
            if refm[i][j] {
                ref_n += 1;
            }
            if matches!((l.key, r.key), (Some(a), Some(b)) if a == b) {
                let d = (l.ts as i64 - r.ts as i64).abs();
                if d == w && refm[i][j] {
                    boundary = true;
                }
                if d > w {
                    window_filters = true;
                }
                if d <= w && !refm[i][j] {
                    cond_filters = true;
                }
            }
        }
    }
    let shares = |v: &Vec<Ev>| v.iter().enumerate().any(|(i, a)| a.key.is_some() && v.iter().skip(i + 1).any(|b| b.key == a.key));
    let dup_both = shares(&case.left) && shares(&case.right);
    let keyless = case.left.iter().chain(case.right.iter()).any(|e| e.key.is_none());
    ctx.label(if ref_n == 0 { "ref-empty" } else { "ref-nonempty" });
    if ref_n >= 4 {
        ctx.label("ref>=4-pairs");
    }
    if dup_both {
        ctx.label("key-shared-on-both-sides");
    }
    if keyless {
        ctx.label("keyless-event");
    }
    if boundary {
        ctx.label("pair-at-distance-W");
    }
    if cond_filters {
        ctx.label("condition-rejects-a-pair");
    }
    if window_filters {
        ctx.label("window-rejects-a-pair");
    }
    if merges.len() >= 20 {
        ctx.label("merges>=20");
    }
    if case.w_ms % 1000 != 0 {
        ctx.label("sub-second-window");
    }
    if case.base != 0 {
        ctx.label("epoch-sized-timestamps");
    }
    match case.wm {
        Wm::Never => ctx.label("wm-never"),
        Wm::Slots(_) if case.scale > 1 => {
            ctx.label("wm-slots");
            ctx.label("wide-scale");
        }
        Wm::Slots(_) => ctx.label("wm-slots"),
        Wm::Derived { .. } => ctx.label("wm-derived"),
    }
    if fl.wm_before_arrival {
        ctx.label("watermark-before-an-arrival");
    }
    if fl.evicted {
        ctx.label("eviction-observed");
    }
    if fl.optional_emitted {
        ctx.label("evictable-pair-still-emitted");
    }
    if fl.optional_dropped {
        ctx.label("evictable-pair-dropped");
    }
    if ref_n > 0 && (dup_both || keyless || boundary) {
        ctx.nontrivial(hash_of(case));
    }
    Verdict::Pass
}

pub fn run_nowm(s: &mut Src, ctx: &mut Ctx) -> Verdict {
    let case = gen(s, ctx.exh, Mode::NoWm);
    if probe_only() {
        return Verdict::Pass;
    }
    run_case(&case, ctx)
}

pub fn run_wm(s: &mut Src, ctx: &mut Ctx) -> Verdict {
    let case = gen(s, ctx.exh, Mode::WithWm);
    if probe_only() {
        return Verdict::Pass;
    }
    run_case(&case, ctx)
}

pub fn run_mgr(s: &mut Src, ctx: &mut Ctx) -> Verdict {
    let case = gen(s, ctx.exh, Mode::Mgr);
    if probe_only() {
        return Verdict::Pass;
    }
    run_case(&case, ctx)
}

pub fn property() -> Property {
    use Budget::*;
    Property {
        id: "C14",
        level: "exploration",
        rule: "generated: pairs of event sequences (0..4 left, 0..4 right; key k1..k3 drawn from 1..3 distinct keys, or no key; timestamp 0..12 or a 0..5 / 0..2 prefix of it, sometimes shifted by 1.7e9; payload 0..2) x window {0,1,3,10 s, sometimes +500 ms} (one case in four: window, timestamp offsets, watermark increments and lag multiplied by 60 / 3600 / 86400 / 1001 / 65537 and every timestamp then moved by -1, 0 or +1) x condition {true, l.v<=r.v} x id scheme {distinct, same ids on both sides}; for every pair ALL merges of the two arrival orders are executed (<= 70). Parts: nowm = no update_watermark call during the run (node); wm = non-decreasing watermark updates between arrivals (positional slots with increments 0..13, or derived from the highest timestamp seen minus a lag); mgr = both through StreamJoinManager (watermark announced for L, R or both) next to a decoy join (L,X); exh-* = exhaustive enumeration of every pair of sequences with n_l+n_r events over {k1,k2,none} x {0,1,3,4} x payload {0,1} x W {0,1,3} x 2 conditions (x every watermark slot assignment over a 2..4 letter increment alphabet) x all merges. Oracle: nested-loop reference join (both keys present and equal, |tl-tr| <= W, condition true); without watermarks the emitted multiset of (left,right) equals the reference for every merge and a final update_watermark(0) emits nothing; with watermarks the emitted pairs are a duplicate-free subset of the reference that contains every pair whose earlier element satisfied watermark - t <= W when the later one arrived. Non-trivial: the reference is non-empty and (a key is shared by >= 2 events on each side, or an event without key is present, or a reference pair sits exactly at distance W); distinct by the whole case (sequences, window, condition, ids, watermark plan, routing). Manager parts: every second manager also hosts a join whose left input is R and one whose right input is L (every fourth has unregistered the first again). The object under test is built with new() or with default() in turn (by a hash of the case's data, no draw).",
        assumptions: vec![
            "event timestamps are in the unit the node compares them in (window duration.as_secs()), i.e. seconds".into(),
            "an event whose key extractor returns None has no join key and joins with nothing (None is not equal to None)".into(),
            "event ids are unique within a stream (left and right may use the same ids); watermarks never decrease".into(),
            "with watermarks, a pair whose earlier element already satisfied watermark - t > W when the later one arrived may or may not be emitted (lazy front eviction)".into(),
        ],
        parts: vec![
            Part { name: "nowm", run: run_nowm, quick: Random { cases: 500_000, bytes: 96 }, thorough: Random { cases: 5_000_000, bytes: 96 }, min_nontrivial_pct: 30 },
            Part { name: "wm", run: run_wm, quick: Random { cases: 700_000, bytes: 128 }, thorough: Random { cases: 6_000_000, bytes: 128 }, min_nontrivial_pct: 30 },
            Part { name: "mgr", run: run_mgr, quick: Random { cases: 300_000, bytes: 128 }, thorough: Random { cases: 3_000_000, bytes: 128 }, min_nontrivial_pct: 30 },
            // exhaustive parts: param = a*100 + n_left*10 + n_right (a = watermark slot alphabet, 0 = no watermark call)
            Part { name: "exh-nowm-12", run: run_nowm, quick: Exhaustive { param: 12 }, thorough: Exhaustive { param: 12 }, min_nontrivial_pct: 0 },
            Part { name: "exh-nowm-21", run: run_nowm, quick: Exhaustive { param: 21 }, thorough: Exhaustive { param: 21 }, min_nontrivial_pct: 0 },
            Part { name: "exh-nowm-22", run: run_nowm, quick: Exhaustive { param: 22 }, thorough: Exhaustive { param: 22 }, min_nontrivial_pct: 0 },
            Part { name: "exh-nowm-13", run: run_nowm, quick: Skip, thorough: Exhaustive { param: 13 }, min_nontrivial_pct: 0 },
            Part { name: "exh-nowm-31", run: run_nowm, quick: Skip, thorough: Exhaustive { param: 31 }, min_nontrivial_pct: 0 },
            Part { name: "exh-wm2-11", run: run_wm, quick: Exhaustive { param: 211 }, thorough: Exhaustive { param: 211 }, min_nontrivial_pct: 0 },
            Part { name: "exh-wm1-12", run: run_wm, quick: Exhaustive { param: 112 }, thorough: Exhaustive { param: 112 }, min_nontrivial_pct: 0 },
            Part { name: "exh-wm1-21", run: run_wm, quick: Exhaustive { param: 121 }, thorough: Exhaustive { param: 121 }, min_nontrivial_pct: 0 },
            Part { name: "exh-wm2-12", run: run_wm, quick: Skip, thorough: Exhaustive { param: 212 }, min_nontrivial_pct: 0 },
            Part { name: "exh-wm2-21", run: run_wm, quick: Skip, thorough: Exhaustive { param: 221 }, min_nontrivial_pct: 0 },
            Part { name: "exh-wm3-22", run: run_wm, quick: Skip, thorough: Exhaustive { param: 322 }, min_nontrivial_pct: 0 },
        ],
        watchdog: true,
        replay_reps: 1,
    }
}
