//! C19 — parallel execution gives the sequential verdicts on every schedule.
//!
//! Generator: 1-24 typed-core rules with salience ties × thread configuration,
//! each configuration re-run many times under perturbed schedules (H5 yield
//! hook). Oracle: the sequential path of the same engine (`enabled=false`),
//! exactly one context per enabled rule, counters, and REF where defined.

use crate::c01::*;
use crate::core::*;
use crate::runner::*;
use crate::typed::*;
use rust_rule_engine::engine::parallel::{ParallelConfig, ParallelRuleEngine};
use rust_rule_engine::KnowledgeBase;
use std::cell::Cell;
use std::collections::BTreeMap;
use std::sync::atomic::{AtomicU64, Ordering};

static YIELD_SEED: AtomicU64 = AtomicU64::new(0x1234_5678_9abc_def1);
thread_local! {
    static YSTATE: Cell<u64> = const { Cell::new(0) };
}

/// schedule-point callback: pseudo-random yield / short spin, state is per thread
fn sched_cb(_id: u32) {
    YSTATE.with(|st| {
        let mut x = st.get();
        if x == 0 {
            x = splitmix(YIELD_SEED.fetch_add(0x9E37_79B9, Ordering::Relaxed)) | 1;
        }
        x ^= x << 13;
        x ^= x >> 7;
        x ^= x << 17;
        st.set(x);
        match x % 32 {
            0..=9 => std::thread::yield_now(),
            10 | 11 => {
                for _ in 0..(x >> 8) % 200 {
                    std::hint::spin_loop();
                }
            }
            12 => std::thread::sleep(std::time::Duration::from_micros((x >> 10) % 20)),
            _ => {}
        }
    });
}

pub fn install_sched_hook(seed: u64) {
    YIELD_SEED.store(splitmix(seed) | 1, Ordering::Relaxed);
    rust_rule_engine::verif_hooks::set_sched_callback(Some(sched_cb));
}

struct Case {
    rules: Vec<RuleAst>,
    enabled: Vec<bool>,
    store: Store,
    max_threads: usize,
    min_rules: usize,
    parallel: bool,
}

fn gen_case(s: &mut Src) -> Case {
    let cfg = GenCfg { absent: false, arrays: true, floats: true, strings: true, extremes: false, nested: true, max_depth: 4 };
    let store = gen_store(s, &cfg);
    set_store_context(&store);
    let n = 1 + s.below(24);
    let levels = 1 + s.below(4);
    let mut rules = Vec::new();
    let mut enabled = Vec::new();
    for i in 0..n {
        let mut cond = gen_cond(s, &cfg, 2);
        strip_lhs_arith(&mut cond);
        let salience = (s.below(levels) as i32) * 10;
        rules.push(RuleAst { name: format!("R{}", i), salience, no_loop: false, cond, actions: vec![Assign { target: "A.hit".into(), rhs: Term::Lit(V::Bool(true)) }] });
        enabled.push(!s.chance(1, 8));
    }
    let max_threads = 1 + s.below(16);
    let min_rules = 1 + s.below(4);
    let parallel = !s.chance(1, 6);
    Case { rules, enabled, store, max_threads, min_rules, parallel }
}

/// the parallel evaluator has no arithmetic-on-the-left support (Test CE without a registered function is
/// false there); that form is outside this property's comparison with REF, so it is rewritten to its left field
fn strip_lhs_arith(c: &mut Cond) {
    match c {
        Cond::Atom(a) => {
            if let Lhs::Arith(x) = &a.lhs {
                let p = match &x.first {
                    Operand::Field(p) => p.clone(),
                    _ => "A.x".to_string(),
                };
                a.lhs = Lhs::Field(p);
            }
        }
        Cond::And(a, b) | Cond::Or(a, b) => {
            strip_lhs_arith(a);
            strip_lhs_arith(b);
        }
        Cond::Not(x, _) => strip_lhs_arith(x),
    }
}

fn lhs_present(c: &Cond, st: &Store) -> bool {
    let mut ok = true;
    c.for_each_atom(&mut |a| {
        if let Lhs::Field(p) = &a.lhs {
            if !matches!(st.read(p), Ok(Some(_))) {
                ok = false;
            }
        }
    });
    ok
}

static HOOK: std::sync::Once = std::sync::Once::new();

pub fn run(s: &mut Src, ctx: &mut Ctx) -> Verdict {
    HOOK.call_once(|| install_sched_hook(std::env::var("VERIF_SEED").ok().and_then(|s| s.parse::<i64>().ok()).unwrap_or(1) as u64));
    let c = gen_case(s);
    if probe_only() {
        return Verdict::Pass;
    }
    ctx.describe(|| {
        format!(
            "max_threads={} min_rules_per_thread={} parallel={} enabled={:?}\n{}",
            c.max_threads,
            c.min_rules,
            c.parallel,
            c.enabled,
            describe(&c.rules, &c.store)
        )
    });
    let kb = KnowledgeBase::new("kb");
    for (r, en) in c.rules.iter().zip(c.enabled.iter()) {
        let mut rule = rule_to_engine(r);
        rule.enabled = *en;
        if kb.add_rule(rule).is_err() {
            return Verdict::fail("add-rule-error", "");
        }
    }
    let facts = c.store.to_facts();
    let n_enabled = c.enabled.iter().filter(|e| **e).count();
    // sequential reference path of the same engine
    let seq_engine = ParallelRuleEngine::new(ParallelConfig { enabled: false, max_threads: 1, min_rules_per_thread: 1, dependency_analysis: false });
    let seq = match catch(|| seq_engine.execute_parallel(&kb, &facts, false)) {
        Ok(Ok(r)) => r,
        Ok(Err(e)) => return Verdict::fail("sequential-error", format!("{}", e)),
        Err(p) => return Verdict::fail(format!("panic@{}", p.split(": ").next().unwrap_or("?")), p),
    };
    let mut seq_map: BTreeMap<String, bool> = BTreeMap::new();
    for cx in &seq.execution_contexts {
        if seq_map.insert(cx.rule.name.clone(), cx.fired).is_some() {
            return Verdict::fail("sequential-duplicate-context", format!("rule {} reported twice by the sequential path", cx.rule.name));
        }
    }
    if seq_map.len() != n_enabled || seq.total_rules_evaluated != n_enabled {
        return Verdict::fail("sequential-context-count", format!("{} contexts / evaluated={} for {} enabled rules", seq_map.len(), seq.total_rules_evaluated, n_enabled));
    }
    // REF where defined
    let mut ref_checked = 0;
    for (r, en) in c.rules.iter().zip(c.enabled.iter()) {
        if !*en || !lhs_present(&r.cond, &c.store) {
            continue;
        }
        match eval_cond(&r.cond, &c.store) {
            T3::Undef(_) => {}
            t => {
                ref_checked += 1;
                let fired = seq_map.get(&r.name).copied().unwrap_or(false);
                if fired != (t == T3::True) {
                    return Verdict::fail("sequential-vs-ref", format!("rule {}: sequential path fired={} but REF {:?}", r.name, fired, t));
                }
            }
        }
    }
    let reps = if ctx.thorough { 60 } else { 12 };
    let par_engine = ParallelRuleEngine::new(ParallelConfig { enabled: c.parallel, max_threads: c.max_threads, min_rules_per_thread: c.min_rules, dependency_analysis: c.max_threads % 2 == 0 });
    for rep in 0..reps {
        let par = match catch(|| par_engine.execute_parallel(&kb, &facts, false)) {
            Ok(Ok(r)) => r,
            Ok(Err(e)) => return Verdict::fail("parallel-error", format!("rep {}: {}", rep, e)),
            Err(p) => return Verdict::fail(format!("panic@{}", p.split(": ").next().unwrap_or("?")), p),
        };
        let mut par_map: BTreeMap<String, bool> = BTreeMap::new();
        for cx in &par.execution_contexts {
            if par_map.insert(cx.rule.name.clone(), cx.fired).is_some() {
                return Verdict::fail("duplicate-context", format!("rep {}: rule {} reported twice", rep, cx.rule.name));
            }
        }
        if par_map != seq_map {
            let d: Vec<String> = seq_map.iter().filter(|(k, v)| par_map.get(*k) != Some(v)).map(|(k, v)| format!("{}: sequential fired={} parallel {:?}", k, v, par_map.get(k))).collect();
            let extra: Vec<&String> = par_map.keys().filter(|k| !seq_map.contains_key(*k)).collect();
            return Verdict::fail("fired-set-differs", format!("rep {}: {:?} extra={:?}", rep, d, extra));
        }
        if par.total_rules_evaluated != seq.total_rules_evaluated || par.total_rules_fired != seq.total_rules_fired {
            return Verdict::fail(
                "counters-differ",
                format!("rep {}: parallel evaluated={} fired={} vs sequential evaluated={} fired={}", rep, par.total_rules_evaluated, par.total_rules_fired, seq.total_rules_evaluated, seq.total_rules_fired),
            );
        }
        let fired_n = par_map.values().filter(|v| **v).count();
        if par.total_rules_fired != fired_n {
            return Verdict::fail("fired-counter-vs-contexts", format!("rep {}: total_rules_fired={} but {} contexts fired", rep, par.total_rules_fired, fired_n));
        }
    }
    // Two callers at once: `execute_parallel` takes `&self` and the engine is Sync, so one engine may serve two threads
    // at the same time -- one more schedule the statement quantifies over. Each caller brings its own copy of the facts
    // and must get the one-by-one verdicts. (Every second case by rule count: a pure function of the case, no draw.)
    if c.rules.len() % 2 == 0 {
        let calls = if ctx.thorough { 6 } else { 3 };
        let outcome: Vec<Result<(), (String, String)>> = std::thread::scope(|sc| {
            let hs: Vec<_> = (0..2)
                .map(|who| {
                    let (kb, eng, store, seq_map, seq) = (&kb, &par_engine, &c.store, &seq_map, &seq);
                    sc.spawn(move || {
                        for k in 0..calls {
                            let own = store.to_facts();
                            let r = match catch(|| eng.execute_parallel(kb, &own, false)) {
                                Ok(Ok(r)) => r,
                                Ok(Err(e)) => return Err(("parallel-error:two-callers".to_string(), format!("caller {} call {}: {}", who, k, e))),
                                Err(p) => return Err((format!("panic@{}", p.split(": ").next().unwrap_or("?")), p)),
                            };
                            let m: BTreeMap<String, bool> = r.execution_contexts.iter().map(|cx| (cx.rule.name.clone(), cx.fired)).collect();
                            if m != *seq_map || r.execution_contexts.len() != m.len() || r.total_rules_evaluated != seq.total_rules_evaluated || r.total_rules_fired != seq.total_rules_fired {
                                let d: Vec<String> = seq_map.iter().filter(|(k, v)| m.get(*k) != Some(v)).map(|(k, v)| format!("{}: one-by-one fired={} got {:?}", k, v, m.get(k))).collect();
                                return Err((
                                    "fired-set-differs:two-callers-on-one-engine".to_string(),
                                    format!(
                                        "caller {} call {} (another thread was calling execute_parallel on the same engine): {} contexts, evaluated={} fired={}; one by one: evaluated={} fired={}; {:?}",
                                        who, k, r.execution_contexts.len(), r.total_rules_evaluated, r.total_rules_fired, seq.total_rules_evaluated, seq.total_rules_fired, d
                                    ),
                                ));
                            }
                        }
                        Ok(())
                    })
                })
                .collect();
            hs.into_iter().map(|h| h.join().unwrap_or_else(|_| Err(("harness-thread-died".to_string(), String::new())))).collect()
        });
        for o in outcome {
            if let Err((sig, detail)) = o {
                return Verdict::fail(sig, detail);
            }
        }
        ctx.label("two-callers-on-one-engine");
    }
    // The same engine object is then handed ANOTHER knowledge base (execute_parallel takes the knowledge base as an
    // argument): same name, same number of mutations, the same rules added in reverse order with every second enabled
    // flag flipped. What it reports must again be what a fresh engine's one-by-one path reports for THAT knowledge base.
    // (A pure function of the case: no draw.)
    {
        let kb2 = KnowledgeBase::new("kb");
        let en2: Vec<bool> = c.enabled.iter().enumerate().map(|(i, e)| if i % 2 == 0 { !*e } else { *e }).collect();
        for (r, en) in c.rules.iter().zip(en2.iter()).rev() {
            let mut rule = rule_to_engine(r);
            rule.enabled = *en;
            if kb2.add_rule(rule).is_err() {
                return Verdict::fail("add-rule-error", "");
            }
        }
        let fresh = ParallelRuleEngine::new(ParallelConfig { enabled: false, max_threads: 1, min_rules_per_thread: 1, dependency_analysis: false });
        let want = match catch(|| fresh.execute_parallel(&kb2, &facts, false)) {
            Ok(Ok(r)) => r,
            Ok(Err(e)) => return Verdict::fail("sequential-error", format!("second knowledge base: {}", e)),
            Err(p) => return Verdict::fail(format!("panic@{}", p.split(": ").next().unwrap_or("?")), p),
        };
        let got = match catch(|| par_engine.execute_parallel(&kb2, &facts, false)) {
            Ok(Ok(r)) => r,
            Ok(Err(e)) => return Verdict::fail("parallel-error", format!("second knowledge base: {}", e)),
            Err(p) => return Verdict::fail(format!("panic@{}", p.split(": ").next().unwrap_or("?")), p),
        };
        let m = |r: &rust_rule_engine::engine::parallel::ParallelExecutionResult| -> BTreeMap<String, bool> { r.execution_contexts.iter().map(|cx| (cx.rule.name.clone(), cx.fired)).collect() };
        let (wm, gm) = (m(&want), m(&got));
        if wm != gm || want.total_rules_evaluated != got.total_rules_evaluated || want.total_rules_fired != got.total_rules_fired || got.execution_contexts.len() != gm.len() {
            let d: Vec<String> = wm.iter().filter(|(k, v)| gm.get(*k) != Some(v)).map(|(k, v)| format!("{}: one-by-one fired={} reused engine {:?}", k, v, gm.get(k))).collect();
            let extra: Vec<&String> = gm.keys().filter(|k| !wm.contains_key(*k)).collect();
            return Verdict::fail(
                "fired-set-differs:engine-reused-on-another-knowledge-base",
                format!(
                    "the engine that had executed the first knowledge base reports evaluated={} fired={} for the second one (same name, same version), one by one: evaluated={} fired={}; {:?} extra={:?}",
                    got.total_rules_evaluated, got.total_rules_fired, want.total_rules_evaluated, want.total_rules_fired, d, extra
                ),
            );
        }
        if wm != seq_map {
            ctx.label("second-knowledge-base-has-other-verdicts");
        }
    }
    // classification
    let mut levels: BTreeMap<i32, Vec<bool>> = BTreeMap::new();
    for (r, en) in c.rules.iter().zip(c.enabled.iter()) {
        if *en {
            levels.entry(r.salience).or_default().push(seq_map[&r.name]);
        }
    }
    let mut chunked_mixed = false;
    for v in levels.values() {
        let l = v.len();
        if c.parallel && l >= 2 && l >= c.min_rules {
            let chunk = l.div_ceil(c.max_threads);
            if chunk < l && v.iter().any(|x| *x) && v.iter().any(|x| !*x) {
                chunked_mixed = true;
            }
        }
    }
    if ref_checked > 0 {
        ctx.label("ref-checked");
    }
    if levels.len() >= 2 {
        ctx.label("levels>=2");
    }
    if chunked_mixed {
        ctx.label("level-chunked-with-mixed-verdicts");
    }
    if levels.len() >= 2 && chunked_mixed {
        ctx.nontrivial(hash_of(&(hash_rules(&c.rules, &c.store), c.max_threads, c.min_rules, c.parallel, &c.enabled)));
    }
    Verdict::Pass
}


// ---------------------------------------------------------------------------------------------------------------
// part `writers`: rules whose action calls a registered function that writes a fact; readers of that fact sit at a
// strictly lower salience, so the one-by-one result is deterministic and the join between levels is observable
// ---------------------------------------------------------------------------------------------------------------

const NFLAGS: usize = 3;

fn flag_path(k: usize) -> String {
    format!("W.k{}", k)
}

struct WCase {
    base: Case,
    /// rule index -> flag written by its action (the action is `Custom{mark<k>}`)
    writer: BTreeMap<usize, usize>,
}

fn gen_wcase(s: &mut Src) -> WCase {
    let cfg = GenCfg { absent: false, arrays: false, floats: false, strings: true, extremes: false, nested: true, max_depth: 3 };
    let store = gen_store(s, &cfg);
    set_store_context(&store);
    let levels = 2 + s.below(3); // 2..4 salience levels, level index 0 = lowest
    let n = 3 + s.below(14);
    // the lowest level at which flag k is written (readers must sit strictly below it)
    let mut lowest_writer: [usize; NFLAGS] = [usize::MAX; NFLAGS];
    let mut plan: Vec<(usize, Option<usize>)> = Vec::new(); // (level, writer flag)
    for _ in 0..n {
        // upper levels are crowded so that they are handed to worker threads
        let level = if s.chance(2, 3) { levels - 1 - s.below(2.min(levels - 1)) } else { s.below(levels) };
        let w = if level >= 1 && s.chance(1, 3) { Some(s.below(NFLAGS)) } else { None };
        if let Some(k) = w {
            lowest_writer[k] = lowest_writer[k].min(level);
        }
        plan.push((level, w));
    }
    let mut rules = Vec::new();
    let mut enabled = Vec::new();
    let mut writer = BTreeMap::new();
    for (i, (level, w)) in plan.iter().enumerate() {
        let mut cond = if s.chance(1, 3) {
            // mostly-true conditions keep writers firing
            Cond::Atom(Atom { lhs: Lhs::Field("A.x".into()), op: Op::Eq, rhs: Term::Field("A.x".into()), tight: false })
        } else {
            gen_cond(s, &cfg, 1)
        };
        strip_lhs_arith(&mut cond);
        // a reader: some flag whose every writer sits strictly above this level
        let readable: Vec<usize> = (0..NFLAGS).filter(|k| lowest_writer[*k] != usize::MAX && lowest_writer[*k] > *level).collect();
        if !readable.is_empty() && s.chance(2, 3) {
            let k = readable[s.below(readable.len())];
            let positive = !s.chance(1, 4);
            let flag = Cond::Atom(Atom { lhs: Lhs::Field(flag_path(k)), op: Op::Eq, rhs: Term::Lit(V::Bool(true)), tight: false });
            let flag = if positive { flag } else { Cond::Not(Box::new(flag), false) };
            cond = match s.below(3) {
                0 => flag,
                1 => Cond::And(Box::new(cond), Box::new(flag)),
                _ => Cond::Or(Box::new(flag), Box::new(cond)),
            };
        }
        if let Some(k) = w {
            writer.insert(i, *k);
        }
        rules.push(RuleAst { name: format!("R{}", i), salience: (*level as i32) * 10, no_loop: false, cond, actions: vec![] });
        enabled.push(!s.chance(1, 10));
    }
    let max_threads = 1 + s.below(8);
    let min_rules = 1 + s.below(3);
    let parallel = !s.chance(1, 8);
    WCase { base: Case { rules, enabled, store, max_threads, min_rules, parallel }, writer }
}

fn register_marks(e: &mut ParallelRuleEngine) {
    for k in 0..NFLAGS {
        let path = flag_path(k);
        e.register_function(&format!("mark{}", k), move |_args, facts| {
            // the same write many times over: the result is the same, but other workers meet a writer at the lock a
            // hundred times more often (lock-order and re-entrancy mistakes in the readers need a waiting writer to show)
            for _ in 0..128 {
                facts.set(&path, rust_rule_engine::Value::Boolean(true));
            }
            Ok(rust_rule_engine::Value::Null)
        });
    }
}

pub fn run_writers(s: &mut Src, ctx: &mut Ctx) -> Verdict {
    HOOK.call_once(|| install_sched_hook(std::env::var("VERIF_SEED").ok().and_then(|s| s.parse::<i64>().ok()).unwrap_or(1) as u64));
    let w = gen_wcase(s);
    let c = &w.base;
    if probe_only() {
        return Verdict::Pass;
    }
    ctx.describe(|| {
        format!(
            "max_threads={} min_rules_per_thread={} parallel={} enabled={:?} writers(rule->flag)={:?} (action of a writer: registered function mark<k> sets {} = true)\n{}",
            c.max_threads,
            c.min_rules,
            c.parallel,
            c.enabled,
            w.writer,
            flag_path(0).replace('0', "<k>"),
            describe(&c.rules, &c.store)
        )
    });
    let kb = KnowledgeBase::new("kb");
    for (i, (r, en)) in c.rules.iter().zip(c.enabled.iter()).enumerate() {
        let mut rule = rule_to_engine(r);
        rule.enabled = *en;
        if let Some(k) = w.writer.get(&i) {
            rule.actions = vec![rust_rule_engine::types::ActionType::Custom { action_type: format!("mark{}", k), params: std::collections::HashMap::new() }];
        }
        if kb.add_rule(rule).is_err() {
            return Verdict::fail("add-rule-error", "");
        }
    }
    let n_enabled = c.enabled.iter().filter(|e| **e).count();
    // model: levels from the highest salience down; verdicts by REF on the evolving store; the flags written by the
    // writers that fired in a level are visible from the next level on
    let mut model = c.store.clone();
    let mut model_map: BTreeMap<String, Option<bool>> = BTreeMap::new();
    let mut sal: Vec<i32> = c.rules.iter().map(|r| r.salience).collect();
    sal.sort();
    sal.dedup();
    let mut model_defined = true;
    let mut reader_flipped = false;
    for lv in sal.iter().rev() {
        let mut writes = Vec::new();
        for (i, r) in c.rules.iter().enumerate() {
            if r.salience != *lv || !c.enabled[i] {
                continue;
            }
            let v = match eval_cond(&r.cond, &model) {
                T3::True => Some(true),
                T3::False => Some(false),
                T3::Undef(_) => None,
            };
            if v.is_some() && !only_flags_absent(&r.cond, &model) {
                // a left-hand field other than a flag is absent: outside REF's comparison (as in part `random`)
                model_map.insert(r.name.clone(), None);
            } else {
                model_map.insert(r.name.clone(), v);
            }
            if model_map[&r.name].is_some() && eval_cond(&r.cond, &c.store) != eval_cond(&r.cond, &model) {
                reader_flipped = true;
            }
            if let Some(k) = w.writer.get(&i) {
                match model_map[&r.name] {
                    Some(true) => writes.push(*k),
                    Some(false) => {}
                    None => model_defined = false,
                }
            }
        }
        if !model_defined {
            break;
        }
        for k in writes {
            model.write(&flag_path(k), V::Bool(true));
        }
    }
    // sequential reference path of the same engine, on fresh facts
    let mut seq_engine = ParallelRuleEngine::new(ParallelConfig { enabled: false, max_threads: 1, min_rules_per_thread: 1, dependency_analysis: false });
    register_marks(&mut seq_engine);
    let facts = c.store.to_facts();
    let seq = match catch(|| seq_engine.execute_parallel(&kb, &facts, false)) {
        Ok(Ok(r)) => r,
        Ok(Err(e)) => return Verdict::fail("sequential-error", format!("{}", e)),
        Err(p) => return Verdict::fail(format!("panic@{}", p.split(": ").next().unwrap_or("?")), p),
    };
    let mut seq_map: BTreeMap<String, bool> = BTreeMap::new();
    for cx in &seq.execution_contexts {
        if seq_map.insert(cx.rule.name.clone(), cx.fired).is_some() {
            return Verdict::fail("sequential-duplicate-context", format!("rule {} reported twice by the sequential path", cx.rule.name));
        }
    }
    if seq_map.len() != n_enabled || seq.total_rules_evaluated != n_enabled {
        return Verdict::fail("sequential-context-count", format!("{} contexts / evaluated={} for {} enabled rules", seq_map.len(), seq.total_rules_evaluated, n_enabled));
    }
    let mut ref_checked = 0;
    if model_defined {
        for (name, v) in &model_map {
            if let Some(v) = v {
                ref_checked += 1;
                if seq_map.get(name) != Some(v) {
                    return Verdict::fail("sequential-vs-ref:writers", format!("rule {}: sequential path fired={:?} but the level-by-level model says {}", name, seq_map.get(name), v));
                }
            }
        }
    }
    let seq_flags: Vec<bool> = (0..NFLAGS).map(|k| facts.get(&flag_path(k)).is_some()).collect();
    let reps = if ctx.thorough { 40 } else { 10 };
    let mut par_engine = ParallelRuleEngine::new(ParallelConfig { enabled: c.parallel, max_threads: c.max_threads, min_rules_per_thread: c.min_rules, dependency_analysis: c.max_threads % 2 == 0 });
    register_marks(&mut par_engine);
    for rep in 0..reps {
        let facts = c.store.to_facts();
        let par = match catch(|| par_engine.execute_parallel(&kb, &facts, false)) {
            Ok(Ok(r)) => r,
            Ok(Err(e)) => return Verdict::fail("parallel-error", format!("rep {}: {}", rep, e)),
            Err(p) => return Verdict::fail(format!("panic@{}", p.split(": ").next().unwrap_or("?")), p),
        };
        let mut par_map: BTreeMap<String, bool> = BTreeMap::new();
        for cx in &par.execution_contexts {
            if par_map.insert(cx.rule.name.clone(), cx.fired).is_some() {
                return Verdict::fail("duplicate-context", format!("rep {}: rule {} reported twice", rep, cx.rule.name));
            }
        }
        if par_map != seq_map {
            let d: Vec<String> = seq_map.iter().filter(|(k, v)| par_map.get(*k) != Some(v)).map(|(k, v)| format!("{}: sequential fired={} parallel {:?}", k, v, par_map.get(k))).collect();
            let extra: Vec<&String> = par_map.keys().filter(|k| !seq_map.contains_key(*k)).collect();
            return Verdict::fail("fired-set-differs:writers", format!("rep {}: {:?} extra={:?}", rep, d, extra));
        }
        if par.total_rules_evaluated != seq.total_rules_evaluated || par.total_rules_fired != seq.total_rules_fired {
            return Verdict::fail(
                "counters-differ",
                format!("rep {}: parallel evaluated={} fired={} vs sequential evaluated={} fired={}", rep, par.total_rules_evaluated, par.total_rules_fired, seq.total_rules_evaluated, seq.total_rules_fired),
            );
        }
        let par_flags: Vec<bool> = (0..NFLAGS).map(|k| facts.get(&flag_path(k)).is_some()).collect();
        if par_flags != seq_flags {
            return Verdict::fail("written-facts-differ", format!("rep {}: flags written into the caller's facts: parallel {:?}, sequential {:?}", rep, par_flags, seq_flags));
        }
    }
    // classification
    let mut by_level: BTreeMap<i32, usize> = BTreeMap::new();
    for (r, en) in c.rules.iter().zip(c.enabled.iter()) {
        if *en {
            *by_level.entry(r.salience).or_default() += 1;
        }
    }
    // a writer that fired in a level that is handed to worker threads
    let mut threaded_writer = false;
    for (i, _k) in &w.writer {
        let r = &c.rules[*i];
        if c.enabled[*i] && seq_map.get(&r.name) == Some(&true) {
            let l = by_level[&r.salience];
            if c.parallel && l >= 2 && l >= c.min_rules {
                threaded_writer = true;
            }
        }
    }
    if ref_checked > 0 {
        ctx.label("ref-checked");
    }
    if threaded_writer {
        ctx.label("writer-fired-in-threaded-level");
    }
    if reader_flipped {
        ctx.label("reader-verdict-depends-on-written-flag");
    }
    if threaded_writer && reader_flipped {
        ctx.nontrivial(hash_of(&(hash_rules(&c.rules, &c.store), c.max_threads, c.min_rules, c.parallel, &c.enabled, format!("{:?}", w.writer))));
    }
    Verdict::Pass
}

/// true when every absent left-hand field of the condition is a flag (W.k*)
fn only_flags_absent(c: &Cond, st: &Store) -> bool {
    let mut ok = true;
    c.for_each_atom(&mut |a| {
        if let Lhs::Field(p) = &a.lhs {
            if !p.starts_with("W.k") && !matches!(st.read(p), Ok(Some(_))) {
                ok = false;
            }
        }
    });
    ok
}

pub fn property() -> Property {
    Property {
        id: "C19",
        level: "exploration",
        rule: "generated: 1-24 typed-core rules (field-on-the-left atoms, trees to depth 3) with 1-4 salience levels (ties), ~1/8 disabled, stores with nested objects; max_threads 1..16, min_rules_per_thread 1..4, parallelism on (5/6) and off; each configuration executed 12x (quick) / 60x (thorough) with the H5 schedule-point hook yielding/spinning/sleeping pseudo-randomly inside the worker loop. Oracle: the call returns (monitor watchdog); exactly one execution context per enabled rule; the (rule, fired) map and both counters equal the sequential path of the same engine (enabled=false); total_rules_fired equals the number of fired contexts; the sequential verdict equals REF where REF is defined and all left-hand fields are present. Non-trivial: >= 2 salience levels and a level that is split into >= 2 chunks containing both firing and non-firing rules; distinct by (program, store, config). Part `writers`: 3-16 rules on 2-4 levels of which about a third (never on the lowest level) have an action calling a registered function mark<k> that writes the fact W.k<k> = true, and rules at a STRICTLY lower salience than every writer of a flag read it (positively or negated, alone or and/or-ed with a generated condition); fresh facts for every execution; 10x/40x per configuration; oracle as above plus: the flags found in the caller's facts after the call equal the sequential path's, and the sequential verdicts equal a level-by-level model (REF on a store that receives the fired writers' flags after each level). Non-trivial there: a writer fired inside a level that is handed to worker threads and some judged rule's verdict differs between the initial store and the store it was evaluated on. Every second case (by rule count) additionally runs two threads that call execute_parallel on the SAME engine at the same time (3 calls each, 6 in thorough; own copies of the facts): every call must report exactly the one-by-one verdicts and counters.",
        assumptions: vec![
            "thread schedules are sampled by the OS plus the yield hook, not enumerated (DESIGN.md §8)".into(),
            "part random registers no custom functions, so its actions do not change facts (by reading execute_action_parallel); part writers changes facts only through registered functions whose readers sit at a strictly lower salience than every writer, so the one-by-one result does not depend on the order inside a level".into(),
        ],
        parts: vec![
            Part { name: "random", run, quick: Budget::Random { cases: 2_000, bytes: 2500 }, thorough: Budget::Random { cases: 30_000, bytes: 2500 }, min_nontrivial_pct: 25 },
            Part { name: "writers", run: run_writers, quick: Budget::Random { cases: 3_000, bytes: 1500 }, thorough: Budget::Random { cases: 40_000, bytes: 1500 }, min_nontrivial_pct: 10 },
        ],
        watchdog: true,
        replay_reps: 10,
    }
}
