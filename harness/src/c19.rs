//! C19 — parallel execution gives the sequential verdicts on every schedule.
//!
//! Generator: 1-24 typed-core rules with salience ties × thread configuration,
//! each configuration re-run many times under perturbed schedules (H5 yield
//! hook). Oracle: the sequential path of the same engine (`enabled=false`),
//! exactly one context per enabled rule, counters, and REF where defined.

use crate::c01::*;
use crate::core::*;
use crate::runner::*;
use crate::typed::*;
use rust_rule_engine::engine::parallel::{ParallelConfig, ParallelRuleEngine};
use rust_rule_engine::KnowledgeBase;
use std::cell::Cell;
use std::collections::BTreeMap;
use std::sync::atomic::{AtomicU64, Ordering};

static YIELD_SEED: AtomicU64 = AtomicU64::new(0x1234_5678_9abc_def1);
thread_local! {
    static YSTATE: Cell<u64> = const { Cell::new(0) };
}

/// schedule-point callback: pseudo-random yield / short spin, state is per thread
fn sched_cb(_id: u32) {
    YSTATE.with(|st| {
        let mut x = st.get();
        if x == 0 {
            x = splitmix(YIELD_SEED.fetch_add(0x9E37_79B9, Ordering::Relaxed)) | 1;
        }
        x ^= x << 13;
        x ^= x >> 7;
        x ^= x << 17;
        st.set(x);
        match x % 32 {
            0..=9 => std::thread::yield_now(),
            10 | 11 => {
                for _ in 0..(x >> 8) % 200 {
                    std::hint::spin_loop();
                }
            }
            12 => std::thread::sleep(std::time::Duration::from_micros((x >> 10) % 20)),
            _ => {}
        }
    });
}

pub fn install_sched_hook(seed: u64) {
    YIELD_SEED.store(splitmix(seed) | 1, Ordering::Relaxed);
    rust_rule_engine::verif_hooks::set_sched_callback(Some(sched_cb));
}

struct Case {
    rules: Vec<RuleAst>,
    enabled: Vec<bool>,
    store: Store,
    max_threads: usize,
    min_rules: usize,
    parallel: bool,
}

fn gen_case(s: &mut Src) -> Case {
    let cfg = GenCfg { absent: false, arrays: true, floats: true, strings: true, extremes: false, nested: true, max_depth: 4 };
    let store = gen_store(s, &cfg);
    set_store_context(&store);
    let n = 1 + s.below(24);
    let levels = 1 + s.below(4);
    let mut rules = Vec::new();
    let mut enabled = Vec::new();
    for i in 0..n {
        let mut cond = gen_cond(s, &cfg, 2);
        strip_lhs_arith(&mut cond);
        let salience = (s.below(levels) as i32) * 10;
        rules.push(RuleAst { name: format!("R{}", i), salience, no_loop: false, cond, actions: vec![Assign { target: "A.hit".into(), rhs: Term::Lit(V::Bool(true)) }] });
        enabled.push(!s.chance(1, 8));
    }
    let max_threads = 1 + s.below(16);
    let min_rules = 1 + s.below(4);
    let parallel = !s.chance(1, 6);
    Case { rules, enabled, store, max_threads, min_rules, parallel }
}

/// the parallel evaluator has no arithmetic-on-the-left support (Test CE without a registered function is
/// false there); that form is outside this property's comparison with REF, so it is rewritten to its left field
fn strip_lhs_arith(c: &mut Cond) {
    match c {
        Cond::Atom(a) => {
            if let Lhs::Arith(x) = &a.lhs {
                let p = match &x.first {
                    Operand::Field(p) => p.clone(),
                    _ => "A.x".to_string(),
                };
                a.lhs = Lhs::Field(p);
            }
        }
        Cond::And(a, b) | Cond::Or(a, b) => {
            strip_lhs_arith(a);
            strip_lhs_arith(b);
        }
        Cond::Not(x, _) => strip_lhs_arith(x),
    }
}

fn lhs_present(c: &Cond, st: &Store) -> bool {
    let mut ok = true;
    c.for_each_atom(&mut |a| {
        if let Lhs::Field(p) = &a.lhs {
            if !matches!(st.read(p), Ok(Some(_))) {
                ok = false;
            }
        }
    });
    ok
}

static HOOK: std::sync::Once = std::sync::Once::new();

pub fn run(s: &mut Src, ctx: &mut Ctx) -> Verdict {
    HOOK.call_once(|| install_sched_hook(std::env::var("VERIF_SEED").ok().and_then(|s| s.parse::<i64>().ok()).unwrap_or(1) as u64));
    let c = gen_case(s);
    if probe_only() {
        return Verdict::Pass;
    }
    ctx.describe(|| {
        format!(
            "max_threads={} min_rules_per_thread={} parallel={} enabled={:?}\n{}",
            c.max_threads,
            c.min_rules,
            c.parallel,
            c.enabled,
            describe(&c.rules, &c.store)
        )
    });
    let kb = KnowledgeBase::new("kb");
    for (r, en) in c.rules.iter().zip(c.enabled.iter()) {
        let mut rule = rule_to_engine(r);
        rule.enabled = *en;
        if kb.add_rule(rule).is_err() {
            return Verdict::fail("add-rule-error", "");
        }
    }
    let facts = c.store.to_facts();
    let n_enabled = c.enabled.iter().filter(|e| **e).count();
    // sequential reference path of the same engine
    let seq_engine = ParallelRuleEngine::new(ParallelConfig { enabled: false, max_threads: 1, min_rules_per_thread: 1, dependency_analysis: false });
    let seq = match catch(|| seq_engine.execute_parallel(&kb, &facts, false)) {
        Ok(Ok(r)) => r,
        Ok(Err(e)) => return Verdict::fail("sequential-error", format!("{}", e)),
        Err(p) => return Verdict::fail(format!("panic@{}", p.split(": ").next().unwrap_or("?")), p),
    };
    let mut seq_map: BTreeMap<String, bool> = BTreeMap::new();
    for cx in &seq.execution_contexts {
        if seq_map.insert(cx.rule.name.clone(), cx.fired).is_some() {
            return Verdict::fail("sequential-duplicate-context", format!("rule {} reported twice by the sequential path", cx.rule.name));
        }
    }
    if seq_map.len() != n_enabled || seq.total_rules_evaluated != n_enabled {
        return Verdict::fail("sequential-context-count", format!("{} contexts / evaluated={} for {} enabled rules", seq_map.len(), seq.total_rules_evaluated, n_enabled));
    }
    // REF where defined
    let mut ref_checked = 0;
    for (r, en) in c.rules.iter().zip(c.enabled.iter()) {
        if !*en || !lhs_present(&r.cond, &c.store) {
            continue;
        }
        match eval_cond(&r.cond, &c.store) {
            T3::Undef(_) => {}
            t => {
                ref_checked += 1;
                let fired = seq_map.get(&r.name).copied().unwrap_or(false);
                if fired != (t == T3::True) {
                    return Verdict::fail("sequential-vs-ref", format!("rule {}: sequential path fired={} but REF {:?}", r.name, fired, t));
                }
            }
        }
    }
    let reps = if ctx.thorough { 60 } else { 12 };
    let par_engine = ParallelRuleEngine::new(ParallelConfig { enabled: c.parallel, max_threads: c.max_threads, min_rules_per_thread: c.min_rules, dependency_analysis: false });
    for rep in 0..reps {
        let par = match catch(|| par_engine.execute_parallel(&kb, &facts, false)) {
            Ok(Ok(r)) => r,
            Ok(Err(e)) => return Verdict::fail("parallel-error", format!("rep {}: {}", rep, e)),
            Err(p) => return Verdict::fail(format!("panic@{}", p.split(": ").next().unwrap_or("?")), p),
        };
        let mut par_map: BTreeMap<String, bool> = BTreeMap::new();
        for cx in &par.execution_contexts {
            if par_map.insert(cx.rule.name.clone(), cx.fired).is_some() {
                return Verdict::fail("duplicate-context", format!("rep {}: rule {} reported twice", rep, cx.rule.name));
            }
        }
        if par_map != seq_map {
            let d: Vec<String> = seq_map.iter().filter(|(k, v)| par_map.get(*k) != Some(v)).map(|(k, v)| format!("{}: sequential fired={} parallel {:?}", k, v, par_map.get(k))).collect();
            let extra: Vec<&String> = par_map.keys().filter(|k| !seq_map.contains_key(*k)).collect();
            return Verdict::fail("fired-set-differs", format!("rep {}: {:?} extra={:?}", rep, d, extra));
        }
        if par.total_rules_evaluated != seq.total_rules_evaluated || par.total_rules_fired != seq.total_rules_fired {
            return Verdict::fail(
                "counters-differ",
                format!("rep {}: parallel evaluated={} fired={} vs sequential evaluated={} fired={}", rep, par.total_rules_evaluated, par.total_rules_fired, seq.total_rules_evaluated, seq.total_rules_fired),
            );
        }
        let fired_n = par_map.values().filter(|v| **v).count();
        if par.total_rules_fired != fired_n {
            return Verdict::fail("fired-counter-vs-contexts", format!("rep {}: total_rules_fired={} but {} contexts fired", rep, par.total_rules_fired, fired_n));
        }
    }
    // classification
    let mut levels: BTreeMap<i32, Vec<bool>> = BTreeMap::new();
    for (r, en) in c.rules.iter().zip(c.enabled.iter()) {
        if *en {
            levels.entry(r.salience).or_default().push(seq_map[&r.name]);
        }
    }
    let mut chunked_mixed = false;
    for v in levels.values() {
        let l = v.len();
        if c.parallel && l >= 2 && l >= c.min_rules {
            let chunk = l.div_ceil(c.max_threads);
            if chunk < l && v.iter().any(|x| *x) && v.iter().any(|x| !*x) {
                chunked_mixed = true;
            }
        }
    }
    if ref_checked > 0 {
        ctx.label("ref-checked");
    }
    if levels.len() >= 2 {
        ctx.label("levels>=2");
    }
    if chunked_mixed {
        ctx.label("level-chunked-with-mixed-verdicts");
    }
    if levels.len() >= 2 && chunked_mixed {
        ctx.nontrivial(hash_of(&(hash_rules(&c.rules, &c.store), c.max_threads, c.min_rules, c.parallel, &c.enabled)));
    }
    Verdict::Pass
}

pub fn property() -> Property {
    Property {
        id: "C19",
        level: "exploration",
        rule: "generated: 1-24 typed-core rules (field-on-the-left atoms, trees to depth 3) with 1-4 salience levels (ties), ~1/8 disabled, stores with nested objects; max_threads 1..16, min_rules_per_thread 1..4, parallelism on (5/6) and off; each configuration executed 12x (quick) / 60x (thorough) with the H5 schedule-point hook yielding/spinning/sleeping pseudo-randomly inside the worker loop. Oracle: the call returns (monitor watchdog); exactly one execution context per enabled rule; the (rule, fired) map and both counters equal the sequential path of the same engine (enabled=false); total_rules_fired equals the number of fired contexts; the sequential verdict equals REF where REF is defined and all left-hand fields are present. Non-trivial: >= 2 salience levels and a level that is split into >= 2 chunks containing both firing and non-firing rules; distinct by (program, store, config).",
        assumptions: vec![
            "thread schedules are sampled by the OS plus the yield hook, not enumerated (DESIGN.md §8)".into(),
            "no custom functions registered, so actions do not change facts (by reading execute_action_parallel)".into(),
        ],
        parts: vec![Part { name: "random", run, quick: Budget::Random { cases: 2_000, bytes: 2500 }, thorough: Budget::Random { cases: 30_000, bytes: 2500 }, min_nontrivial_pct: 25 }],
        watchdog: true,
        replay_reps: 10,
    }
}
