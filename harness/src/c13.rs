//! C13 — watermarks are monotone and every late event is accounted for.
//!
//! Generator: timestamp sequences (any order) × watermark strategy × late-data
//! strategy. Oracle: a model written from the statement, compared after every
//! `add_event`.

use crate::core::*;
use crate::runner::*;
use rust_rule_engine::streaming::event::{EventMetadata, StreamEvent};
use rust_rule_engine::streaming::watermark::*;
use std::collections::HashMap;
use std::time::Duration;

#[derive(Clone, Debug)]
enum Wm {
    Bounded(u64),
    Mono,
}
#[derive(Clone, Debug)]
enum Late {
    Drop,
    Allowed(u64),
    Side,
    Recompute,
}

thread_local! {
    /// 0 = every offered event has an id of its own; k > 0 = ids repeat with period k (a source that re-delivers, a
    /// replay, hand-built events): the statement speaks about every OFFERED event, whatever it is called
    static ID_MOD: std::cell::Cell<usize> = const { std::cell::Cell::new(0) };
    /// 0: every event has sequence number 0 (what the constructors give); k > 0: the source numbers its events
    /// 1 + i mod k -- equal non-zero sequence numbers from one source recur (a source that restarts its numbering)
    static SEQ_MOD: std::cell::Cell<usize> = const { std::cell::Cell::new(0) };
}

fn ev_id(i: usize) -> String {
    let k = ID_MOD.with(|c| c.get());
    if k == 0 {
        format!("e{}", i)
    } else {
        format!("e{}", i % k)
    }
}

fn ev(i: usize, ts: u64) -> StreamEvent {
    StreamEvent {
        id: ev_id(i),
        event_type: "T".into(),
        data: HashMap::new(),
        metadata: EventMetadata { timestamp: ts, source: "s".into(), sequence: SEQ_MOD.with(|c| if c.get() == 0 { 0 } else { 1 + (i % c.get()) as u64 }), tags: HashMap::new() },
    }
}

fn gen(s: &mut Src, exh: u32) -> (Wm, Late, Vec<u64>) {
    let r = gen_inner(s, exh);
    // drawn last: one case in five re-uses event ids (period 1..3)
    let k = if exh == 0 && s.chance(1, 5) { 1 + s.below(3) } else { 0 };
    ID_MOD.with(|c| c.set(k));
    // drawn after that: one case in five carries sequence numbers (period 1..3, non-zero)
    let q = if exh == 0 && s.chance(1, 5) { 1 + s.below(3) } else { 0 };
    SEQ_MOD.with(|c| c.set(q));
    r
}

fn gen_inner(s: &mut Src, exh: u32) -> (Wm, Late, Vec<u64>) {
    if exh > 0 {
        let wm = match s.below(4) {
            0 => Wm::Mono,
            1 => Wm::Bounded(0),
            2 => Wm::Bounded(1),
            _ => Wm::Bounded(3),
        };
        let late = match s.below(5) {
            0 => Late::Drop,
            1 => Late::Allowed(0),
            2 => Late::Allowed(2),
            3 => Late::Side,
            _ => Late::Recompute,
        };
        const DOM: [u64; 6] = [0, 2, 3, 5, 8, 9];
        let ts = (0..exh).map(|_| DOM[s.below(6)]).collect();
        return (wm, late, ts);
    }
    if s.chance(1, 4) {
        return gen_wide(s);
    }
    let wm = if s.chance(1, 4) { Wm::Mono } else { Wm::Bounded(s.below(11) as u64) };
    let late = match s.below(4) {
        0 => Late::Drop,
        1 => Late::Allowed(s.below(11) as u64),
        2 => Late::Side,
        _ => Late::Recompute,
    };
    let n = s.below(13);
    // mostly a dense small domain; sometimes shifted far up so saturating arithmetic is not the only path
    let base: u64 = match s.weighted(&[8, 1, 1]) {
        0 => 0,
        1 => 1_700_000_000_000,
        _ => u64::MAX - 40,
    };
    let ts = (0..n).map(|_| base + s.below(31) as u64).collect();
    (wm, late, ts)
}

/// Delays and allowed latenesses from the whole range a `Duration` in milliseconds can take (not only 0..10 ms):
/// arbitrary, non-round values D and L below 2^k for a random k <= 44, and timestamps placed ON the boundaries the
/// statement speaks of: c1*D + c2*L + e for small c1, c2 and e in {-1, 0, 1}, so that events land exactly on, one
/// below and one above `largest timestamp - D` and exactly / one beyond `watermark - L`.
fn gen_wide(s: &mut Src) -> (Wm, Late, Vec<u64>) {
    let wide = |s: &mut Src| -> u64 {
        match s.weighted(&[3, 3, 2, 1]) {
            0 => 1001 + s.below(4000) as u64,
            1 => s.below(1 << 20) as u64,
            2 => {
                let k = 1 + s.below(44);
                s.bits64() & ((1u64 << k) - 1)
            }
            _ => *s.pick_ref(&[1000u64, 1001, 1023, 1024, 59_999, 60_000, 60_001, 3_600_000, 86_400_000, 86_400_001, (1 << 32) + 1, (1 << 53) + 1]),
        }
    };
    let d = wide(s);
    let l = if s.bool() { wide(s) } else { s.below(11) as u64 };
    let wm = if s.chance(1, 8) { Wm::Mono } else { Wm::Bounded(d) };
    let late = match s.below(4) {
        0 => Late::Drop,
        1 | 2 => Late::Allowed(l),
        _ => if s.bool() { Late::Side } else { Late::Recompute },
    };
    let n = 2 + s.below(10);
    let ts = (0..n)
        .map(|_| {
            let c1 = s.below(4) as u64;
            let c2 = s.below(3) as u64;
            let e = s.below(3) as i64 - 1;
            let t = c1.saturating_mul(d).saturating_add(c2.saturating_mul(l));
            if e < 0 { t.saturating_sub(1) } else { t.saturating_add(e as u64) }
        })
        .collect();
    (wm, late, ts)
}

/// Sub-millisecond rests (microseconds, 1..999) for the allowed delay and the allowed lateness, or (0, 0).
fn sub_ms_rest(ts: &[u64]) -> (u64, u64) {
    let h = ts.iter().fold(ts.len() as u64, |a, &t| a.wrapping_mul(31).wrapping_add(t));
    if h % 3 != 0 {
        return (0, 0);
    }
    let h = h / 3;
    (if h % 4 == 3 { 0 } else { 1 + (h / 4) % 999 }, if h % 5 == 4 { 0 } else { 1 + (h / 5) % 999 })
}

pub fn run(s: &mut Src, ctx: &mut Ctx) -> Verdict {
    let (wm, late, ts) = gen(s, ctx.exh);
    if probe_only() {
        return Verdict::Pass;
    }
    let idk = ID_MOD.with(|c| c.get());
    if idk > 0 {
        ctx.label("repeated-event-ids");
    }
    // The allowed delay and lateness are `Duration`s, timestamps are whole milliseconds. One case in three carries a
    // sub-millisecond rest on both (a pure function of the timestamps, so saved cases keep decoding). The statement
    // still fixes every answer: for whole t and m, `t < m - (D + r)` (0 < r < 1 ms) holds exactly when `t < m - D`,
    // and `w - t <= L + r` exactly when `w - t <= L` -- the rest must change nothing that can be observed.
    let (rest_d, rest_l) = sub_ms_rest(&ts);
    let rest_txt = if rest_d + rest_l > 0 { format!(" sub-millisecond rest: delay +{} us, lateness +{} us", rest_d, rest_l) } else { String::new() };
    ctx.describe(|| format!("watermark={:?} late={:?} timestamps={:?}{}{}", wm, late, ts, if idk > 0 { format!(" event ids repeat with period {}", idk) } else { String::new() }, format!("{}{}", rest_txt, SEQ_MOD.with(|c| if c.get() > 0 { format!(" sequence numbers 1 + i mod {}", c.get()) } else { String::new() }))));
    if rest_d + rest_l > 0 {
        ctx.label("sub-millisecond-rest");
    }
    let ws = match wm {
        Wm::Mono => WatermarkStrategy::MonotonicAscending,
        Wm::Bounded(d) => WatermarkStrategy::BoundedOutOfOrder { max_delay: Duration::from_millis(d) + Duration::from_micros(rest_d) },
    };
    let ls = match late {
        Late::Drop => LateDataStrategy::Drop,
        Late::Allowed(l) => LateDataStrategy::AllowedLateness { max_lateness: Duration::from_millis(l) + Duration::from_micros(rest_l) },
        Late::Side => LateDataStrategy::SideOutput,
        Late::Recompute => LateDataStrategy::RecomputeWindows,
    };
    let mut st = WatermarkedStream::new(ws, ls);
    // model
    let delay = match wm {
        Wm::Mono => 0,
        Wm::Bounded(d) => d,
    };
    let mut m_wm: u64 = 0;
    let mut m_max: u64 = 0;
    let mut m_events: Vec<String> = vec![];
    let mut m_side: Vec<String> = vec![];
    let (mut m_late, mut m_drop, mut m_allowed) = (0usize, 0usize, 0usize);
    let mut m_hist: Vec<u64> = vec![];
    let mut late_seen = false;
    let mut advance_after_late = false;
    for (i, &t) in ts.iter().enumerate() {
        let e = ev(i, t);
        let prev = st.current_watermark().timestamp;
        if st.add_event(e).is_err() {
            return Verdict::fail("add-event-err", format!("add_event returned Err at step {}", i));
        }
        // model step
        if t < m_wm {
            m_late += 1;
            late_seen = true;
            match late {
                Late::Drop => m_drop += 1,
                Late::Allowed(l) => {
                    if m_wm - t <= l {
                        m_allowed += 1;
                        m_events.push(ev_id(i));
                    } else {
                        m_drop += 1;
                    }
                }
                Late::Side => m_side.push(ev_id(i)),
                Late::Recompute => {
                    m_allowed += 1;
                    m_events.push(ev_id(i));
                }
            }
        } else {
            m_events.push(ev_id(i));
            m_max = m_max.max(t);
            let cand = m_max.saturating_sub(delay);
            if cand > m_wm {
                m_wm = cand;
                m_hist.push(cand);
                if late_seen {
                    advance_after_late = true;
                }
            }
        }
        let cur = st.current_watermark().timestamp;
        if cur < prev {
            return Verdict::fail("wm-backwards", format!("step {}: watermark moved from {} to {}", i, prev, cur));
        }
        if cur != m_wm {
            return Verdict::fail("wm-value", format!("step {} (t={}): watermark {} but model {}", i, t, cur, m_wm));
        }
        let evs: Vec<String> = st.events().iter().map(|e| e.id.clone()).collect();
        if evs != m_events {
            return Verdict::fail("events", format!("step {} (t={}): events {:?} but model {:?}", i, t, evs, m_events));
        }
        let side: Vec<String> = st.side_output().iter().map(|e| e.id.clone()).collect();
        if side != m_side {
            return Verdict::fail("side-output", format!("step {}: side {:?} but model {:?}", i, side, m_side));
        }
        let ls = st.late_stats();
        if (ls.total_late, ls.dropped, ls.allowed, ls.side_output) != (m_late, m_drop, m_allowed, m_side.len()) {
            return Verdict::fail(
                "late-stats",
                format!("step {}: stats {:?} but model late={} dropped={} allowed={} side={}", i, ls, m_late, m_drop, m_allowed, m_side.len()),
            );
        }
        // conservation
        if st.events().len() + ls.dropped + st.side_output().len() != i + 1 {
            return Verdict::fail("conservation", format!("step {}: accepted+dropped+side != offered", i));
        }
        if ls.total_late != ls.dropped + ls.allowed + ls.side_output {
            return Verdict::fail("late-sum", format!("step {}: total_late != dropped+allowed+side", i));
        }
        let hist: Vec<u64> = st.watermark_history().iter().map(|w| w.timestamp).collect();
        if hist != m_hist {
            return Verdict::fail("history", format!("step {}: history {:?} but model {:?}", i, hist, m_hist));
        }
        if hist.windows(2).any(|w| w[0] >= w[1]) {
            return Verdict::fail("history-order", format!("step {}: history not strictly increasing {:?}", i, hist));
        }
    }
    // Two spellings of one configuration: bounded out-of-orderness with delay 0 IS the monotone strategy. Whatever one
    // does after every event, the other does too.
    if delay == 0 {
        let mk = |mono: bool| {
            let ws = if mono { WatermarkStrategy::MonotonicAscending } else { WatermarkStrategy::BoundedOutOfOrder { max_delay: Duration::from_millis(0) } };
            let ls = match late {
                Late::Drop => LateDataStrategy::Drop,
                Late::Allowed(l) => LateDataStrategy::AllowedLateness { max_lateness: Duration::from_millis(l) },
                Late::Side => LateDataStrategy::SideOutput,
                Late::Recompute => LateDataStrategy::RecomputeWindows,
            };
            WatermarkedStream::new(ws, ls)
        };
        let (mut a, mut b) = (mk(true), mk(false));
        for (i, &t) in ts.iter().enumerate() {
            let _ = a.add_event(ev(i, t));
            let _ = b.add_event(ev(i, t));
            let view = |x: &WatermarkedStream| {
                let st = x.late_stats();
                (
                    x.current_watermark().timestamp,
                    x.events().iter().map(|e| e.id.clone()).collect::<Vec<_>>(),
                    x.side_output().iter().map(|e| e.id.clone()).collect::<Vec<_>>(),
                    (st.total_late, st.dropped, st.allowed, st.side_output),
                    x.watermark_history().iter().map(|w| w.timestamp).collect::<Vec<_>>(),
                )
            };
            if view(&a) != view(&b) {
                return Verdict::fail(
                    "two-spellings-differ:monotonic-vs-bounded-0",
                    format!("step {} (t={}): MonotonicAscending gives {:?} but BoundedOutOfOrder(0 ms) gives {:?}", i, t, view(&a), view(&b)),
                );
            }
        }
        ctx.label("monotonic-vs-bounded-0-compared");
    }
    if delay > 10 {
        ctx.label("wide-delay(>10ms)");
    }
    if late_seen {
        ctx.label("has-late");
    }
    if advance_after_late {
        ctx.label("advance-after-late");
        ctx.nontrivial(hash_of(&(format!("{:?}{:?}", wm, late), &ts)));
    }
    Verdict::Pass
}

/// Part `periodic`: the Periodic watermark strategy reads the wall clock, so its watermark VALUES are not
/// modelled. What the statement says about every strategy is judged relative to what is observed: the
/// watermark never moves backwards; an event is treated as late exactly when its timestamp is below the
/// watermark observed just before it is offered; every offered event ends up exactly once as accepted,
/// dropped or side-output according to the strategy; the statistics add up. A few generated steps sleep
/// longer than the interval so that the watermark really lags and then jumps (the oracle does not depend
/// on how long the sleep actually took).
pub fn run_periodic(s: &mut Src, ctx: &mut Ctx) -> Verdict {
    ID_MOD.with(|c| c.set(0));
    SEQ_MOD.with(|c| c.set(0));
    let interval_ms = 1 + s.below(2) as u64;
    let late = match s.below(4) {
        0 => Late::Drop,
        1 => Late::Allowed(s.below(11) as u64),
        2 => Late::Side,
        _ => Late::Recompute,
    };
    let n = 3 + s.below(8);
    let steps: Vec<(u64, bool)> = (0..n).map(|_| (s.below(31) as u64, s.chance(1, 4))).collect();
    if probe_only() {
        return Verdict::Pass;
    }
    ctx.describe(|| format!("Periodic({} ms) late={:?} steps (timestamp, sleep-past-interval-before) {:?}", interval_ms, late, steps));
    let ls = match late {
        Late::Drop => LateDataStrategy::Drop,
        Late::Allowed(l) => LateDataStrategy::AllowedLateness { max_lateness: Duration::from_millis(l) },
        Late::Side => LateDataStrategy::SideOutput,
        Late::Recompute => LateDataStrategy::RecomputeWindows,
    };
    let mut st = WatermarkedStream::new(WatermarkStrategy::Periodic { interval: Duration::from_millis(interval_ms) }, ls);
    let (mut m_late, mut m_drop, mut m_allowed) = (0usize, 0usize, 0usize);
    let mut m_events: Vec<String> = vec![];
    let mut m_side: Vec<String> = vec![];
    let mut max_seen = 0u64;
    let mut lagged_then_not_late = false;
    let mut saw_late = false;
    let mut advanced = false;
    for (i, &(t, sleep)) in steps.iter().enumerate() {
        if sleep {
            std::thread::sleep(Duration::from_millis(interval_ms + 1));
        }
        let w = st.current_watermark().timestamp;
        if st.add_event(ev(i, t)).is_err() {
            return Verdict::fail("add-event-err", format!("add_event returned Err at step {}", i));
        }
        let w2 = st.current_watermark().timestamp;
        if w2 < w {
            return Verdict::fail("wm-backwards", format!("step {}: watermark moved from {} to {}", i, w, w2));
        }
        if w2 > w {
            advanced = true;
        }
        if t < w {
            m_late += 1;
            saw_late = true;
            match late {
                Late::Drop => m_drop += 1,
                Late::Allowed(l) => {
                    if w - t <= l {
                        m_allowed += 1;
                        m_events.push(ev_id(i));
                    } else {
                        m_drop += 1;
                    }
                }
                Late::Side => m_side.push(ev_id(i)),
                Late::Recompute => {
                    m_allowed += 1;
                    m_events.push(ev_id(i));
                }
            }
        } else {
            m_events.push(ev_id(i));
            if t < max_seen && w < max_seen {
                // out of order, the watermark lagged behind the largest timestamp: on time by the statement
                lagged_then_not_late = true;
            }
        }
        max_seen = max_seen.max(t);
        let evs: Vec<String> = st.events().iter().map(|e| e.id.clone()).collect();
        let side: Vec<String> = st.side_output().iter().map(|e| e.id.clone()).collect();
        let ls = st.late_stats();
        if evs != m_events || side != m_side || (ls.total_late, ls.dropped, ls.allowed, ls.side_output) != (m_late, m_drop, m_allowed, m_side.len()) {
            return Verdict::fail(
                "periodic:late-iff-below-observed-watermark",
                format!(
                    "step {} (t={}, watermark observed before the call {}): events {:?} side {:?} stats {:?}; by the statement (late iff t < {}): events {:?} side {:?} late={} dropped={} allowed={}",
                    i, t, w, evs, side, ls, w, m_events, m_side, m_late, m_drop, m_allowed
                ),
            );
        }
        if st.events().len() + ls.dropped + st.side_output().len() != i + 1 {
            return Verdict::fail("conservation", format!("step {}: accepted+dropped+side != offered", i));
        }
        if w2 > max_seen {
            return Verdict::fail("periodic:watermark-above-max-timestamp", format!("step {}: watermark {} exceeds the largest timestamp seen {}", i, w2, max_seen));
        }
    }
    if lagged_then_not_late {
        ctx.label("out-of-order-event-at-lagging-watermark");
    }
    if saw_late {
        ctx.label("has-late");
    }
    if advanced && (lagged_then_not_late || saw_late) {
        ctx.nontrivial(hash_of(&(interval_ms, format!("{:?}", late), &steps)));
    }
    Verdict::Pass
}

/// Part `components`: the two public building blocks (`WatermarkGenerator`, `LateDataHandler`) driven directly, the
/// way `WatermarkedStream::add_event` composes them, plus what only they offer: the handler's side output can be
/// drained (`clear_side_output`), the generator reports each advance as its return value, and lateness can be
/// asked about without offering the event. Judged after every step against the same model: the return value of
/// `process_event` is `Some(w)` exactly when the watermark moved (and `w` is the new value); the decision for a
/// late event is the one the strategy prescribes and carries that event; `total_late` counts every late event
/// offered so far (draining the side output does not un-count them), `dropped` / `allowed` likewise,
/// `side_output` is the current size of the buffer, whose contents are the late events routed there since the
/// last drain, in order; `Watermark::is_late` / `WatermarkGenerator::is_late` answer `t < watermark`.
pub fn run_components(s: &mut Src, ctx: &mut Ctx) -> Verdict {
    let (wm, late, ts) = gen(s, 0);
    // per step: drain the side output before offering?
    let drains: Vec<bool> = ts.iter().map(|_| s.chance(1, 5)).collect();
    if probe_only() {
        return Verdict::Pass;
    }
    let idk = ID_MOD.with(|c| c.get());
    let (rest_d, rest_l) = sub_ms_rest(&ts);
    let rest_txt = if rest_d + rest_l > 0 { format!(" sub-millisecond rest: delay +{} us, lateness +{} us", rest_d, rest_l) } else { String::new() };
    ctx.describe(|| format!("components watermark={:?} late={:?} steps (timestamp, drain-side-output-first) {:?}{}{}", wm, late, ts.iter().zip(drains.iter()).collect::<Vec<_>>(), if idk > 0 { format!(" event ids repeat with period {}", idk) } else { String::new() }, format!("{}{}", rest_txt, SEQ_MOD.with(|c| if c.get() > 0 { format!(" sequence numbers 1 + i mod {}", c.get()) } else { String::new() }))));
    if rest_d + rest_l > 0 {
        ctx.label("sub-millisecond-rest");
    }
    let ws = match wm {
        Wm::Mono => WatermarkStrategy::MonotonicAscending,
        Wm::Bounded(d) => WatermarkStrategy::BoundedOutOfOrder { max_delay: Duration::from_millis(d) + Duration::from_micros(rest_d) },
    };
    let ls = match late {
        Late::Drop => LateDataStrategy::Drop,
        Late::Allowed(l) => LateDataStrategy::AllowedLateness { max_lateness: Duration::from_millis(l) + Duration::from_micros(rest_l) },
        Late::Side => LateDataStrategy::SideOutput,
        Late::Recompute => LateDataStrategy::RecomputeWindows,
    };
    let mut g = WatermarkGenerator::new(ws);
    let mut h = LateDataHandler::new(ls);
    let delay = match wm {
        Wm::Mono => 0,
        Wm::Bounded(d) => d,
    };
    let (mut m_wm, mut m_max) = (0u64, 0u64);
    let (mut m_late, mut m_drop, mut m_allowed, mut m_routed) = (0usize, 0usize, 0usize, 0usize);
    let mut m_side: Vec<String> = vec![];
    let mut drained_nonempty = false;
    let mut late_after_drain = false;
    for (i, (&t, &drain)) in ts.iter().zip(drains.iter()).enumerate() {
        if drain {
            if !m_side.is_empty() {
                drained_nonempty = true;
            }
            h.clear_side_output();
            m_side.clear();
        }
        let e = ev(i, t);
        let asked = g.is_late(&e);
        let asked_wm = g.current_watermark().is_late(t);
        let want_late = t < m_wm;
        if asked != want_late || asked_wm != want_late {
            return Verdict::fail("components:is-late", format!("step {} (t={}, watermark {}): WatermarkGenerator::is_late={} Watermark::is_late={} but t < watermark is {}", i, t, m_wm, asked, asked_wm, want_late));
        }
        if want_late {
            m_late += 1;
            if drained_nonempty {
                late_after_drain = true;
            }
            let d = h.handle_late_event(e, &g.current_watermark());
            let (kind, carried) = match &d {
                LateEventDecision::Drop => ("drop", None),
                LateEventDecision::Process(x) => ("process", Some(x.id.clone())),
                LateEventDecision::SideOutput(x) => ("side", Some(x.id.clone())),
                LateEventDecision::Recompute(x) => ("recompute", Some(x.id.clone())),
            };
            let want = match late {
                Late::Drop => {
                    m_drop += 1;
                    "drop"
                }
                Late::Allowed(l) => {
                    if m_wm - t <= l {
                        m_allowed += 1;
                        "process"
                    } else {
                        m_drop += 1;
                        "drop"
                    }
                }
                Late::Side => {
                    m_routed += 1;
                    m_side.push(ev_id(i));
                    "side"
                }
                Late::Recompute => {
                    m_allowed += 1;
                    "recompute"
                }
            };
            if kind != want || carried.as_deref().map(|c| c != ev_id(i)).unwrap_or(false) {
                return Verdict::fail("components:decision", format!("step {} (t={}, watermark {}): decision {} carrying {:?}, the strategy {:?} prescribes {} for e{}", i, t, m_wm, kind, carried, late, want, i));
            }
        } else {
            let r = g.process_event(&e);
            m_max = m_max.max(t);
            let cand = m_max.saturating_sub(delay);
            let moved = cand > m_wm;
            if moved {
                m_wm = cand;
            }
            match (r, moved) {
                (Some(w), true) if w.timestamp == m_wm => {}
                (None, false) => {}
                (r, _) => return Verdict::fail("components:process-event-return", format!("step {} (t={}): process_event returned {:?}; the watermark {} (now {})", i, t, r.map(|w| w.timestamp), if moved { "advanced" } else { "did not move" }, m_wm)),
            }
        }
        let cur = g.current_watermark().timestamp;
        if cur != m_wm {
            return Verdict::fail("components:wm-value", format!("step {} (t={}): watermark {} but model {}", i, t, cur, m_wm));
        }
        let side: Vec<String> = h.side_output().iter().map(|e| e.id.clone()).collect();
        if side != m_side {
            return Verdict::fail("components:side-output", format!("step {}: side output {:?} but the events routed there since the last drain are {:?}", i, side, m_side));
        }
        let st = h.stats();
        if (st.total_late, st.dropped, st.allowed, st.side_output) != (m_late, m_drop, m_allowed, m_side.len()) {
            return Verdict::fail(
                "components:late-stats",
                format!("step {}: stats {:?} but {} late events were offered (dropped {}, allowed {}, routed to the side output {} of which {} still buffered)", i, st, m_late, m_drop, m_allowed, m_routed, m_side.len()),
            );
        }
        if m_late != m_drop + m_allowed + m_routed {
            return Verdict::fail("components:model", "model accounting broken".to_string());
        }
    }
    if drained_nonempty {
        ctx.label("drained-a-non-empty-side-output");
    }
    if late_after_drain {
        ctx.label("late-event-after-a-drain");
    }
    if m_late > 0 && (drained_nonempty || m_drop + m_allowed > 0) {
        ctx.nontrivial(hash_of(&(format!("{:?}{:?}", wm, late), &ts, &drains)));
    }
    Verdict::Pass
}

pub fn property() -> Property {
    Property {
        id: "C13",
        level: "exploration",
        rule: "generated: timestamp sequences of length 0..12 over base+0..30 in any order x {BoundedOutOfOrder(0..10 ms), MonotonicAscending} x {Drop, AllowedLateness(0..10), SideOutput, RecomputeWindows}; one case in four instead takes delay D and lateness L from the whole millisecond range (non-round values from 1001 up to 2^44, minute/hour/day marks and their neighbours) with timestamps c1*D + c2*L + e (e in -1..1) placed on, just below and just above the boundaries the statement names; one case in three carries a sub-millisecond rest (1..999 us) on the delay and the lateness, which for whole-millisecond timestamps must change nothing observable (t < m - (D+r) exactly when t < m - D); plus exhaustive enumeration of all sequences of length 4..6 (quick) / 4..8 (thorough) over a 6-value domain x 20 configurations (every prefix is judged, so shorter sequences are covered). Oracle: watermark/late model from the statement, compared after every add_event (watermark value, monotonicity, events, side output, stats, conservation, history). Non-trivial: at least one late event and a watermark advance after it; distinct by (configuration, sequence). Part `components`: WatermarkGenerator and LateDataHandler driven directly (offer = is_late ? handle_late_event : process_event, as add_event composes them) with clear_side_output drains between offers; judged after every step: process_event returns Some(new watermark) exactly when it moved, the decision is the one the strategy prescribes and carries the event, total_late / dropped / allowed count every late event offered so far (a drain un-counts nothing), side_output is the current buffer size and the buffer holds the late events routed there since the last drain, is_late answers t < watermark. Drawn last: 1 case in 5 re-uses event ids (period 1..3), 1 case in 5 carries non-zero sequence numbers 1 + i mod k (k in 1..3) from one source.",
        assumptions: vec!["The Periodic strategy reads the wall clock: its watermark values are not modelled; part `periodic` judges only what is stated relative to the watermark observed before each call (monotone, late iff below it, routing, statistics), with real sleeps past the interval in the generator but no clock in the oracle. Custom does nothing.".into()],
        parts: vec![
            Part { name: "random", run, quick: Budget::Random { cases: 4_000_000, bytes: 40 }, thorough: Budget::Random { cases: 60_000_000, bytes: 40 }, min_nontrivial_pct: 15 },
            Part { name: "periodic", run: run_periodic, quick: Budget::Random { cases: 10_000, bytes: 40 }, thorough: Budget::Random { cases: 60_000, bytes: 40 }, min_nontrivial_pct: 20 },
            Part { name: "components", run: run_components, quick: Budget::Random { cases: 1_000_000, bytes: 48 }, thorough: Budget::Random { cases: 8_000_000, bytes: 48 }, min_nontrivial_pct: 15 },
            Part { name: "exh4", run, quick: Budget::Exhaustive { param: 4 }, thorough: Budget::Exhaustive { param: 4 }, min_nontrivial_pct: 0 },
            Part { name: "exh5", run, quick: Budget::Exhaustive { param: 5 }, thorough: Budget::Exhaustive { param: 5 }, min_nontrivial_pct: 0 },
            Part { name: "exh6", run, quick: Budget::Exhaustive { param: 6 }, thorough: Budget::Exhaustive { param: 6 }, min_nontrivial_pct: 0 },
            Part { name: "exh7", run, quick: Budget::Skip, thorough: Budget::Exhaustive { param: 7 }, min_nontrivial_pct: 0 },
            Part { name: "exh8", run, quick: Budget::Skip, thorough: Budget::Exhaustive { param: 8 }, min_nontrivial_pct: 0 },
        ],
        watchdog: true,
        replay_reps: 1,
    }
}
