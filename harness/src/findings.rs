//! KNOWN_FINDINGS.txt reader. The file is only ever read at run time.
//!
//! ```text
//! known: property=C09 id=C09-F1 sig=<glob> witness=corpus/C09/f1.json <what fails>
//! fixed: property=C04 <commit> <what failed>
//! ```
//! A `known` entry suppresses exactly the failures whose signature matches its
//! glob (`*` = any run of characters). A `fixed` entry suppresses nothing.

#[derive(Clone, Debug)]
pub struct Finding {
    pub kind: String,
    pub property: String,
    pub id: String,
    pub sig: String,
    pub witness: String,
    pub text: String,
}

pub fn load(path: &std::path::Path) -> Vec<Finding> {
    let s = match std::fs::read_to_string(path) {
        Ok(s) => s,
        Err(_) => return Vec::new(),
    };
    let mut out = Vec::new();
    for line in s.lines() {
        let line = line.trim();
        if line.is_empty() || line.starts_with('#') {
            continue;
        }
        let (kind, rest) = match line.split_once(':') {
            Some((k, r)) if k == "known" || k == "fixed" => (k.to_string(), r.trim()),
            _ => continue,
        };
        let mut f = Finding { kind, property: String::new(), id: String::new(), sig: String::new(), witness: String::new(), text: String::new() };
        let mut words = rest.split(' ').peekable();
        let mut text: Vec<&str> = Vec::new();
        while let Some(w) = words.next() {
            if !text.is_empty() {
                text.push(w);
                continue;
            }
            if let Some(v) = w.strip_prefix("property=") {
                f.property = v.to_string();
            } else if let Some(v) = w.strip_prefix("id=") {
                f.id = v.to_string();
            } else if let Some(v) = w.strip_prefix("sig=") {
                f.sig = v.to_string();
            } else if let Some(v) = w.strip_prefix("witness=") {
                f.witness = v.to_string();
            } else {
                text.push(w);
            }
        }
        f.text = text.join(" ");
        out.push(f);
    }
    out
}

pub fn sig_matches(pattern: &str, sig: &str) -> bool {
    if pattern.is_empty() {
        return false;
    }
    // simple glob: '*' matches any run
    let parts: Vec<&str> = pattern.split('*').collect();
    if parts.len() == 1 {
        return pattern == sig;
    }
    let mut pos = 0usize;
    for (i, p) in parts.iter().enumerate() {
        if p.is_empty() {
            continue;
        }
        if i == 0 {
            if !sig.starts_with(p) {
                return false;
            }
            pos = p.len();
        } else if i == parts.len() - 1 {
            if sig.len() < pos + p.len() || !sig.ends_with(p) {
                return false;
            }
        } else {
            match sig[pos..].find(p) {
                Some(j) => pos += j + p.len(),
                None => return false,
            }
        }
    }
    true
}
