//! C06 — the RETE engine fires a rule exactly for live facts that satisfy it.
//!
//! Generator: 1-4 single-type rules of a well-typed sub-core of GRL, converted
//! with the real `GrlReteLoader` (hook H3) and wrapped by a recorder; histories
//! of insert / update / retract / fire_all / reset over ≤ 6 facts of ≤ 3 types.
//! Oracles: O1 soundness at the moment of firing (REF on the matched fact's
//! contents as the engine itself presents them), O2 completeness of the first
//! fire_all when actions are no-ops and all rules are no-loop, O3 agreement of
//! the four working-memory views after every operation.

use crate::c01::{rule_to_engine, VIA_PARSER};
use crate::core::*;
use crate::runner::*;
use crate::typed::*;
use rust_rule_engine::rete::facts::{FactValue, TypedFacts};
use rust_rule_engine::rete::grl_loader::GrlReteLoader;
use rust_rule_engine::rete::propagation::IncrementalEngine;
use rust_rule_engine::rete::working_memory::FactHandle;
use rust_rule_engine::types::ActionType;
use std::collections::{BTreeMap, BTreeSet};
use std::sync::{Arc, Mutex};

const TYPES: [&str; 3] = ["T", "U", "W"];
const STRS: [&str; 3] = ["a", "ab", "b"];

#[derive(Clone, Debug, PartialEq, Hash)]
struct Data {
    x: i64,
    y: i64,
    s: usize,
    b: bool,
    u: i64,
    /// bit k set = field k of [x, y, s, b] is absent from this fact
    absent: u8,
    /// bit k set = field k of [x, y, -, b] is stored as the String that prints like its value ("1", "true"):
    /// a *type twin* — an update from the plain value to its twin changes the type and nothing a rendering shows
    twin: u8,
}

#[derive(Clone, Debug, PartialEq)]
enum ActKind {
    None,
    SetUnrelated(i64),
    SetCondField(i64),
    SetCondStr(usize),
    RetractMatched,
    /// `ActivateAgendaGroup("side"); ActivateAgendaGroup("MAIN")`: leaves working memory unchanged (the focus goes away
    /// and comes back within one firing)
    FocusRoundTrip,
}

#[derive(Clone, Debug)]
struct RRule {
    ty: usize,
    ast: RuleAst,
    act: ActKind,
}

#[derive(Clone, Debug, Hash, PartialEq)]
enum Op6 {
    Insert(usize, Data),
    Update(usize, Data),
    Retract(usize),
    FireAll,
    Reset,
    /// `set_conflict_resolution_strategy(k-th strategy)`: orders the agenda, decides nothing about WHAT fires
    SetStrategy(usize),
    /// the same `update(fact, data)` 1001 times in a row (a sensor that keeps re-sending its reading): one state for the
    /// statement, more than a thousand queued activations for the engine -- more than one `fire_all` pops (its loop
    /// guard is 1000), so the calls that follow are left to drain the queue (as many as the queued activations need at
    /// 1000 per call): they must fire nothing unsound, and owe nothing yet; after that everything is owed again
    Burst(usize, Data),
}

const STRATEGIES: [&str; 7] = ["Salience", "LEX", "MEA", "Depth", "Breadth", "Simplicity", "Complexity"];

fn strategy(k: usize) -> rust_rule_engine::rete::agenda::ConflictResolutionStrategy {
    use rust_rule_engine::rete::agenda::ConflictResolutionStrategy as S;
    [S::Salience, S::LEX, S::MEA, S::Depth, S::Breadth, S::Simplicity, S::Complexity][k % 7]
}

struct Case {
    rules: Vec<RRule>,
    ops: Vec<Op6>,
}

fn gen_data(s: &mut Src) -> Data {
    let mut d = Data { x: s.range(0, 2), y: s.range(0, 2), s: s.below(3), b: s.bool(), u: 0, absent: 0, twin: 0 };
    // now and then a fact lacks a field (an update can therefore also DROP a field)
    if s.chance(1, 4) {
        d.absent = 1 << s.below(4);
    }
    d
}

fn data_to_typed(d: &Data) -> TypedFacts {
    let mut t = TypedFacts::new();
    if d.absent & 1 == 0 {
        t.set("x", if d.twin & 1 != 0 { FactValue::String(d.x.to_string()) } else { FactValue::Integer(d.x) });
    }
    if d.absent & 2 == 0 {
        t.set("y", if d.twin & 2 != 0 { FactValue::String(d.y.to_string()) } else { FactValue::Integer(d.y) });
    }
    if d.absent & 4 == 0 {
        t.set("s", FactValue::String(STRS[d.s].to_string()));
    }
    if d.absent & 8 == 0 {
        t.set("b", if d.twin & 8 != 0 { FactValue::String(d.b.to_string()) } else { FactValue::Boolean(d.b) });
    }
    t.set("u", FactValue::Integer(d.u));
    t
}

fn gen_atom6(s: &mut Src, ty: &str) -> Atom {
    let f = |n: &str| format!("{}.{}", ty, n);
    let cmp = [Op::Eq, Op::Ne, Op::Lt, Op::Le, Op::Gt, Op::Ge];
    match s.weighted(&[5, 3, 3, 2, 3]) {
        0 => Atom { lhs: Lhs::Field(f(if s.bool() { "x" } else { "y" })), op: cmp[s.below(6)], rhs: Term::Lit(V::Int(s.range(0, 2))), tight: false },
        1 => Atom { lhs: Lhs::Field(f("x")), op: cmp[s.below(6)], rhs: Term::Field(f("y")), tight: false },
        2 => Atom {
            lhs: Lhs::Field(f("s")),
            op: [Op::Eq, Op::Ne, Op::Contains, Op::StartsWith, Op::EndsWith][s.below(5)],
            rhs: Term::Lit(V::Str(STRS[s.below(3)].to_string())),
            tight: false,
        },
        3 => Atom { lhs: Lhs::Field(f("b")), op: if s.bool() { Op::Eq } else { Op::Ne }, rhs: Term::Lit(V::Bool(s.bool())), tight: false },
        // one arithmetic operator on the left (documented Test-CE form)
        _ => {
            let aop = ['+', '-', '*', '%'][s.below(4)];
            let second = if aop == '%' { Operand::Lit(V::Int(2)) } else if s.bool() { Operand::Field(f("y")) } else { Operand::Lit(V::Int(s.range(1, 2))) };
            Atom {
                lhs: Lhs::Arith(Arith { first: Operand::Field(f("x")), rest: vec![(aop, second)] }),
                op: cmp[s.below(6)],
                rhs: Term::Lit(V::Int(s.range(0, 3))),
                tight: false,
            }
        }
    }
}

fn gen_cond6(s: &mut Src, ty: &str, depth: usize) -> Cond {
    if depth >= 3 || s.chance(1, 2) {
        return Cond::Atom(gen_atom6(s, ty));
    }
    match s.below(3) {
        0 => Cond::And(Box::new(gen_cond6(s, ty, depth + 1)), Box::new(gen_cond6(s, ty, depth + 1))),
        1 => Cond::Or(Box::new(gen_cond6(s, ty, depth + 1)), Box::new(gen_cond6(s, ty, depth + 1))),
        _ => Cond::Not(Box::new(gen_cond6(s, ty, depth + 1)), true),
    }
}

fn gen_case(s: &mut Src, exh: u32) -> Case {
    if exh > 0 {
        // small scope: one rule `T.x > 0` (optionally no-loop), two facts, two values, histories of length exh
        let no_loop = s.below(2) == 1;
        let ast = RuleAst {
            name: "R0".into(),
            salience: 0,
            no_loop,
            cond: Cond::Atom(Atom { lhs: Lhs::Field("T.x".into()), op: Op::Gt, rhs: Term::Lit(V::Int(0)), tight: false }),
            actions: vec![],
        };
        let act = match s.below(3) {
            0 => ActKind::None,
            1 => ActKind::SetCondField(0),
            _ => ActKind::RetractMatched,
        };
        let mut ops = Vec::new();
        for _ in 0..exh {
            let d = |x: i64| Data { x, y: 0, s: 0, b: false, u: 0, absent: 0, twin: 0 };
            ops.push(match s.below(8) {
                0 => Op6::Insert(0, d(0)),
                1 => Op6::Insert(0, d(1)),
                2 => Op6::Update(0, d(0)),
                3 => Op6::Update(0, d(1)),
                4 => Op6::Update(1, d(0)),
                5 => Op6::Retract(0),
                6 => Op6::Retract(1),
                _ => Op6::FireAll,
            });
        }
        ops.push(Op6::FireAll);
        return Case { rules: vec![RRule { ty: 0, ast, act }], ops };
    }
    let all_noop = s.chance(1, 3); // the O2 sub-domain: no actions, all no-loop
    let ntypes = if all_noop && s.bool() { 1 } else { 1 + s.below(3) };
    let nrules = 1 + s.below(4);
    let mut rules = Vec::new();
    for i in 0..nrules {
        let ty = s.below(ntypes);
        let cond = gen_cond6(s, TYPES[ty], 1);
        let salience = [0, 0, 5, 10][s.below(4)];
        let no_loop = all_noop || s.bool();
        let act = if all_noop {
            ActKind::None
        } else {
            match s.weighted(&[3, 2, 3, 1, 2]) {
                0 => ActKind::None,
                1 => ActKind::SetUnrelated(s.range(1, 3)),
                2 => ActKind::SetCondField(s.range(0, 2)),
                3 => ActKind::SetCondStr(s.below(3)),
                _ => ActKind::RetractMatched,
            }
        };
        let t = TYPES[ty];
        let actions = match &act {
            ActKind::SetUnrelated(v) => vec![Assign { target: format!("{}.u", t), rhs: Term::Lit(V::Int(*v)) }],
            ActKind::SetCondField(v) => vec![Assign { target: format!("{}.x", t), rhs: Term::Lit(V::Int(*v)) }],
            ActKind::SetCondStr(k) => vec![Assign { target: format!("{}.s", t), rhs: Term::Lit(V::Str(STRS[*k].to_string())) }],
            _ => vec![],
        };
        rules.push(RRule { ty, ast: RuleAst { name: format!("R{}", i), salience, no_loop, cond, actions }, act });
    }
    let nops = 4 + s.below(11);
    let mut ops = Vec::new();
    let mut issued = 0usize;
    for _ in 0..nops {
        let k = if all_noop { s.weighted(&[5, 3, 2, 3, 2]) } else { s.weighted(&[4, 4, 2, 3, 1]) };
        let op = match k {
            0 if issued < 6 => {
                issued += 1;
                Op6::Insert(s.below(ntypes), gen_data(s))
            }
            1 if issued > 0 => Op6::Update(s.below(issued), gen_data(s)),
            2 if issued > 0 => Op6::Retract(s.below(issued)),
            3 => Op6::FireAll,
            4 => Op6::Reset,
            _ => {
                if issued < 6 {
                    issued += 1;
                    Op6::Insert(s.below(ntypes), gen_data(s))
                } else {
                    Op6::FireAll
                }
            }
        };
        ops.push(op);
    }
    ops.push(Op6::FireAll);
    // drawn after the steps: in one all-noop case in three one rule's (empty) action list becomes a focus round trip
    if s.chance(1, 3) && rules.iter().all(|r: &RRule| r.act == ActKind::None && r.ast.no_loop) {
        let k = s.below(rules.len());
        rules[k].act = ActKind::FocusRoundTrip;
    }
    // type twins, drawn after everything else (byte-encoded cases written before this existed decode as before):
    // one write gets a field stored as the String that prints like its value; two times in three an update is first
    // made a copy of the previous write to the same fact, so that ONLY the type of one value changes
    if s.chance(1, 3) {
        let upd: Vec<usize> = ops.iter().enumerate().filter(|(_, o)| matches!(o, Op6::Update(..))).map(|(k, _)| k).collect();
        let ins: Vec<usize> = ops.iter().enumerate().filter(|(_, o)| matches!(o, Op6::Insert(..))).map(|(k, _)| k).collect();
        let bit = [1u8, 2, 8][s.below(3)];
        if !upd.is_empty() && s.chance(3, 4) {
            let k = upd[s.below(upd.len())];
            let same = s.chance(2, 3);
            let target = match &ops[k] {
                Op6::Update(i, _) => *i,
                _ => 0,
            };
            let mut prev: Option<Data> = None;
            let mut n_ins = 0;
            for o in &ops[..k] {
                match o {
                    Op6::Insert(_, d) => {
                        if n_ins == target {
                            prev = Some(d.clone());
                        }
                        n_ins += 1;
                    }
                    Op6::Update(i, d) if *i == target => prev = Some(d.clone()),
                    _ => {}
                }
            }
            if let Op6::Update(_, d) = &mut ops[k] {
                if same {
                    if let Some(p) = prev {
                        *d = p;
                    }
                }
                d.twin ^= bit;
            }
        } else if !ins.is_empty() {
            let k = ins[s.below(ins.len())];
            if let Op6::Insert(_, d) = &mut ops[k] {
                d.twin ^= bit;
            }
        }
    }
    // drawn after everything else: one history in six is preceded by a burst scenario on a fact of its own --
    // insert; the same update 1001 times; another update; fire_all; fire_all; another update; fire_all
    if s.chance(1, 6) {
        for o in ops.iter_mut() {
            match o {
                Op6::Update(i, _) | Op6::Retract(i) | Op6::Burst(i, _) => *i += 1,
                _ => {}
            }
        }
        let (d1, d2, d3) = (gen_data(s), gen_data(s), gen_data(s));
        let ty = s.below(ntypes);
        let prefix = vec![Op6::Insert(ty, d1.clone()), Op6::Burst(0, d1), Op6::Update(0, d2), Op6::FireAll, Op6::FireAll, Op6::Update(0, d3), Op6::FireAll];
        ops.splice(0..0, prefix);
    }
    // drawn last of all: in one history in three the conflict-resolution strategy is chosen (again) at one or two
    // points of the history -- before the first step, between any two steps
    if s.chance(1, 3) {
        for _ in 0..1 + s.below(2) {
            let at = s.below(ops.len());
            let k = s.below(STRATEGIES.len());
            ops.insert(at, Op6::SetStrategy(k));
        }
    }
    Case { rules, ops }
}

#[derive(Clone, Debug)]
struct Firing {
    rule: usize,
    handle: Option<u64>,
    /// type of the matched fact as found in the flattened view
    fact_type: Option<String>,
    /// handle registered for the rule's own type (what `Retract("T")` will retract)
    typed_handle: Option<u64>,
    /// the matched fact's fields as the engine presented them (T.<id>.<field>)
    contents: Option<BTreeMap<String, V>>,
}

fn fv_to_v(f: &FactValue) -> V {
    match f {
        FactValue::String(s) => V::Str(s.clone()),
        FactValue::Integer(i) => V::Int(*i),
        FactValue::Float(x) => V::Float(*x),
        FactValue::Boolean(b) => V::Bool(*b),
        FactValue::Array(a) => V::Arr(a.iter().map(fv_to_v).collect()),
        FactValue::Null => V::Null,
    }
}

fn rule_text(r: &RRule) -> String {
    let mut t = r.ast.grl();
    if r.act == ActKind::RetractMatched {
        let i = t.rfind('}').unwrap();
        t.insert_str(i, &format!("    Retract(\"{}\");\n", TYPES[r.ty]));
    } else if r.act == ActKind::FocusRoundTrip {
        let i = t.rfind('}').unwrap();
        t.insert_str(i, "    ActivateAgendaGroup(\"side\");\n    ActivateAgendaGroup(\"MAIN\");\n");
    } else if r.ast.actions.is_empty() {
        // the GRL grammar has no empty `then`: a rule without effect on working memory is written with a Log action
        let i = t.rfind('}').unwrap();
        t.insert_str(i, "    Log(\"fired\");\n");
    }
    t
}

fn render(c: &Case) -> String {
    let mut s = String::new();
    for r in &c.rules {
        s.push_str(&rule_text(r));
    }
    s.push_str(&format!("ops: {:?}", c.ops));
    s
}

fn v_to_fv(v: &V) -> FactValue {
    match v {
        V::Str(s) => FactValue::String(s.clone()),
        V::Int(i) => FactValue::Integer(*i),
        V::Float(x) => FactValue::Float(*x),
        V::Bool(b) => FactValue::Boolean(*b),
        V::Arr(a) => FactValue::Array(a.iter().map(v_to_fv).collect()),
        _ => FactValue::Null,
    }
}

/// Self-oracle for contents on which REF is undefined (values of an unexpected type): does a FRESH engine that holds
/// only this rule fire it for a single newly inserted fact with exactly these contents? The stale engine fired the
/// rule for these contents; if the same code on a clean slate does not, the firing was owed to what the fact held
/// earlier. None = the fresh engine could not be built.
fn fresh_engine_fires(c: &Case, rule: usize, contents: &BTreeMap<String, V>) -> Option<bool> {
    // only the condition matters: no actions, no-loop (a self-triggering action would run to the iteration bound),
    // built directly (the GRL grammar has no empty `then`)
    let mut only = c.rules[rule].clone();
    only.act = ActKind::None;
    only.ast.actions.clear();
    only.ast.no_loop = true;
    let one = Case { rules: vec![only], ops: vec![] };
    let rec: Arc<Mutex<Vec<Firing>>> = Arc::new(Mutex::new(Vec::new()));
    let via = VIA_PARSER.with(|v| v.replace(false));
    let built = build(&one, &rec);
    VIA_PARSER.with(|v| v.set(via));
    let mut e = built.ok()?;
    let mut t = TypedFacts::new();
    for (k, v) in contents {
        t.set(k.as_str(), v_to_fv(v));
    }
    let h = e.insert(TYPES[c.rules[rule].ty].to_string(), t);
    let _ = e.fire_all();
    let fired = rec.lock().unwrap().iter().any(|f| f.handle == Some(h.id()));
    Some(fired)
}

fn build(c: &Case, rec: &Arc<Mutex<Vec<Firing>>>) -> Result<IncrementalEngine, &'static str> {
    let mut engine = crate::core::new_or_default(IncrementalEngine::new);
    for (idx, r) in c.rules.iter().enumerate() {
        let rule = if VIA_PARSER.with(|v| v.get()) {
            let mut p = match rust_rule_engine::GRLParser::parse_rules(&rule_text(r)) {
                Ok(p) => p,
                Err(_) => return Err("parser-deviation:parse-error"),
            };
            if p.len() != 1 {
                return Err("parser-deviation:rule-count");
            }
            let p = p.remove(0);
            let expect_actions = (r.ast.actions.len() + usize::from(r.act == ActKind::RetractMatched) + 2 * usize::from(r.act == ActKind::FocusRoundTrip)).max(1);
            if !crate::c01::cond_matches(&r.ast.cond, &p.conditions) || p.actions.len() != expect_actions || p.no_loop != r.ast.no_loop || p.salience != r.ast.salience {
                return Err("parser-deviation:ast-mismatch");
            }
            p
        } else {
            let mut rule = rule_to_engine(&r.ast);
            if r.act == ActKind::RetractMatched {
                rule.actions.push(ActionType::Retract { object: format!("\"{}\"", TYPES[r.ty]) });
            }
            if r.act == ActKind::FocusRoundTrip {
                rule.actions.push(ActionType::ActivateAgendaGroup { group: "side".to_string() });
                rule.actions.push(ActionType::ActivateAgendaGroup { group: "MAIN".to_string() });
            }
            rule
        };
        let (mut rete, deps) = match GrlReteLoader::verif_convert_rule(rule) {
            Ok(x) => x,
            Err(_) => return Err("loader-conversion-error"),
        };
        let inner = rete.action.clone();
        let ty = TYPES[r.ty];
        let rec2 = rec.clone();
        rete.action = Arc::new(move |facts: &mut TypedFacts, results: &mut rust_rule_engine::rete::ActionResults| {
            // the exact handle the activation matched (hook), and that fact's fields as the engine presents them
            let handle = rust_rule_engine::verif_hooks::matched_handle();
            let mut fact_type: Option<String> = None;
            let contents = handle.and_then(|id| {
                let infix = format!(".{}.", id);
                let mut m: BTreeMap<String, V> = BTreeMap::new();
                for (k, v) in facts.get_all() {
                    if let Some(pos) = k.find(&infix) {
                        let ty = &k[..pos];
                        if !ty.contains('.') {
                            fact_type = Some(ty.to_string());
                            m.insert(k[pos + infix.len()..].to_string(), fv_to_v(v));
                        }
                    }
                }
                if m.is_empty() {
                    None
                } else {
                    Some(m)
                }
            });
            let typed_handle = facts.get_fact_handle(ty).map(|h| h.id());
            rec2.lock().unwrap().push(Firing { rule: idx, handle, fact_type, typed_handle, contents });
            inner(facts, results);
        });
        engine.add_rule(rete, deps);
    }
    Ok(engine)
}

/// REF verdict of rule `r` on one fact's contents
fn ref_on(r: &RRule, contents: &BTreeMap<String, V>) -> T3 {
    let mut st = Store::default();
    st.top.insert(TYPES[r.ty].to_string(), V::Obj(contents.clone()));
    eval_cond(&r.ast.cond, &st)
}

/// The same condition under the other reading of an absent field: an atom that reads a field the fact does not
/// carry is false (what the RETE evaluator does), instead of comparing with null (what the documentation says for
/// the forward engine). The statement does not pick one for this engine, so a firing is only called unsound when
/// the condition is false under BOTH readings, and a firing is only owed when it is true under both.
fn ref_on_absent_false(r: &RRule, contents: &BTreeMap<String, V>) -> T3 {
    fn reads_absent(a: &Atom, ty: &str, contents: &BTreeMap<String, V>) -> Option<bool> {
        let missing = |p: &String| p.strip_prefix(&format!("{}.", ty)).map(|f| !contents.contains_key(f)).unwrap_or(true);
        let op_missing = |o: &Operand| matches!(o, Operand::Field(p) if missing(p));
        let lhs = match &a.lhs {
            Lhs::Field(p) => missing(p),
            Lhs::Arith(x) => op_missing(&x.first) || x.rest.iter().any(|(_, o)| op_missing(o)),
        };
        let rhs = match &a.rhs {
            Term::Field(p) => missing(p),
            Term::Arith(x) => op_missing(&x.first) || x.rest.iter().any(|(_, o)| op_missing(o)),
            Term::Lit(_) => false,
        };
        if rhs && !lhs {
            // a right-hand field reference that is absent: the RETE evaluator compares with the reference's own
            // text as a string - a third reading; such an atom is not judged at all
            return None;
        }
        Some(lhs)
    }
    fn go(c: &Cond, r: &RRule, contents: &BTreeMap<String, V>, st: &Store) -> T3 {
        match c {
            Cond::Atom(a) => match reads_absent(a, TYPES[r.ty], contents) {
                None => T3::Undef("absent-rhs-field"),
                Some(true) => T3::False,
                Some(false) => eval_atom(a, st),
            },
            Cond::And(a, b) => go(a, r, contents, st).and(go(b, r, contents, st)),
            Cond::Or(a, b) => go(a, r, contents, st).or(go(b, r, contents, st)),
            Cond::Not(x, _) => go(x, r, contents, st).not(),
        }
    }
    let mut st = Store::default();
    st.top.insert(TYPES[r.ty].to_string(), V::Obj(contents.clone()));
    go(&r.ast.cond, r, contents, &st)
}

/// (certainly false, certainly true) under the two readings
fn both_readings(r: &RRule, contents: &BTreeMap<String, V>) -> (bool, bool, bool) {
    let a = ref_on(r, contents);
    let b = ref_on_absent_false(r, contents);
    let undef = matches!(a, T3::Undef(_)) || matches!(b, T3::Undef(_));
    (a == T3::False && b == T3::False, a == T3::True && b == T3::True, undef)
}

fn data_map(d: &Data) -> BTreeMap<String, V> {
    let mut m = BTreeMap::new();
    if d.absent & 1 == 0 {
        m.insert("x".into(), if d.twin & 1 != 0 { V::Str(d.x.to_string()) } else { V::Int(d.x) });
    }
    if d.absent & 2 == 0 {
        m.insert("y".into(), if d.twin & 2 != 0 { V::Str(d.y.to_string()) } else { V::Int(d.y) });
    }
    if d.absent & 4 == 0 {
        m.insert("s".into(), V::Str(STRS[d.s].into()));
    }
    if d.absent & 8 == 0 {
        m.insert("b".into(), if d.twin & 8 != 0 { V::Str(d.b.to_string()) } else { V::Bool(d.b) });
    }
    m.insert("u".into(), V::Int(d.u));
    m
}

pub fn run(s: &mut Src, ctx: &mut Ctx) -> Verdict {
    let c = gen_case(s, ctx.exh);
    if probe_only() {
        return Verdict::Pass;
    }
    ctx.describe(|| render(&c));
    let rec: Arc<Mutex<Vec<Firing>>> = Arc::new(Mutex::new(Vec::new()));
    let mut engine = match build(&c, &rec) {
        Ok(e) => e,
        Err(why) => return Verdict::Discard(why),
    };
    // model of the API-level working memory
    struct MFact {
        handle: FactHandle,
        ty: usize,
        live: bool,
        data: Data,
        /// false once an action may have rewritten this fact's fields
        data_known: bool,
        /// logical time of the last insert/update through the API
        written_at: u64,
    }
    let mut facts: Vec<MFact> = Vec::new();
    let mut last_id = 0u64;
    // an engine that is not new (every third history by length; a pure function of the case): 70 facts of another type
    // were inserted and retracted before, so handle ids are past 64 and retractions are on record
    if ctx.exh == 0 && c.ops.len() % 3 == 0 {
        for w in 0..70 {
            let mut t = TypedFacts::new();
            t.set("w", FactValue::Integer(w));
            let h = engine.insert("Warm".to_string(), t);
            let _ = engine.retract(h);
            last_id = last_id.max(h.id());
        }
        ctx.label("engine-not-new(warm-up)");
    }
    let all_noop = c.rules.iter().all(|r| matches!(r.act, ActKind::None | ActKind::FocusRoundTrip) && r.ast.no_loop);
    let mut first_fire_done = false;
    let mut armed: Vec<bool> = vec![true; c.rules.len()];
    let mut clock: u64 = 1;
    let mut last_fire_all: u64 = 0;
    let (mut nt_stale, mut nt_action_modifies, mut nt_compete) = (false, false, false);
    // Upper bound on the activations that may be queued: every insert / update adds at most one per rule, a fire_all
    // that does not run into its loop guard (1000 pops) empties the queue. While the bound exceeds 1000 a fire_all may
    // stop at the guard with valid activations still queued: such a call is a DRAINING call (see Op6::Burst) -- soundness
    // is judged, nothing is owed -- and takes at least 1000 off the queue.
    let mut backlog: usize = if ctx.exh == 0 && c.ops.len() % 3 == 0 { 70 * c.rules.len() } else { 0 };
    let mut pending_dirty: BTreeSet<usize> = BTreeSet::new(); // facts updated/retracted since last fire_all that matched some rule before
    for (oi, op) in c.ops.iter().enumerate() {
        clock += 1;
        match op {
            Op6::Insert(ty, d) => {
                let h = engine.insert(TYPES[*ty].to_string(), data_to_typed(d));
                if h.id() <= last_id {
                    return Verdict::fail("handle-reused-or-not-increasing", format!("op {}: insert returned id {} after {}", oi, h.id(), last_id));
                }
                last_id = h.id();
                backlog += c.rules.len();
                facts.push(MFact { handle: h, ty: *ty, live: true, data: d.clone(), data_known: true, written_at: clock });
            }
            Op6::Update(i, d) => {
                if let Some(f) = facts.get_mut(*i) {
                    let matched_before = !f.data_known || c.rules.iter().any(|r| r.ty == f.ty && !both_readings(r, &data_map(&f.data)).0);
                    let r = engine.update(f.handle, data_to_typed(d));
                    backlog += c.rules.len();
                    if f.live {
                        if r.is_err() {
                            return Verdict::fail("update-live-rejected", format!("op {}: update of a live handle returned Err", oi));
                        }
                        f.data = d.clone();
                        f.data_known = true;
                        f.written_at = clock;
                        if matched_before {
                            pending_dirty.insert(*i);
                        }
                    } else if r.is_ok() {
                        return Verdict::fail("update-retracted-accepted", format!("op {}: update of a retracted handle returned Ok", oi));
                    }
                }
            }
            Op6::Burst(i, d) => {
                if let Some(f) = facts.get_mut(*i) {
                    if f.live {
                        let matched_before = !f.data_known || c.rules.iter().any(|r| r.ty == f.ty && !both_readings(r, &data_map(&f.data)).0);
                        for k in 0..1001 {
                            if engine.update(f.handle, data_to_typed(d)).is_err() {
                                return Verdict::fail("update-live-rejected", format!("op {}: update {} of a burst on a live handle returned Err", oi, k));
                            }
                        }
                        f.data = d.clone();
                        f.data_known = true;
                        f.written_at = clock;
                        if matched_before {
                            pending_dirty.insert(*i);
                        }
                        backlog += 1001 * c.rules.len();
                        ctx.label("burst-of-1001-updates");
                    }
                }
            }
            Op6::Retract(i) => {
                if let Some(f) = facts.get_mut(*i) {
                    let r = engine.retract(f.handle);
                    if f.live {
                        if r.is_err() {
                            return Verdict::fail("retract-live-rejected", format!("op {}: retract of a live handle returned Err", oi));
                        }
                        f.live = false;
                        pending_dirty.insert(*i);
                    } else if r.is_ok() {
                        return Verdict::fail("retract-retracted-accepted", format!("op {}: retract of a retracted handle returned Ok", oi));
                    }
                }
            }
            Op6::SetStrategy(k) => {
                engine.set_conflict_resolution_strategy(strategy(*k));
                ctx.label("strategy-chosen-mid-history");
            }
            Op6::Reset => {
                engine.reset();
                for a in armed.iter_mut() {
                    *a = true;
                }
            }
            Op6::FireAll => {
                let draining = backlog > 1000;
                rec.lock().unwrap().clear();
                let live_before: BTreeSet<u64> = facts.iter().filter(|f| f.live).map(|f| f.handle.id()).collect();
                let fired = engine.fire_all();
                let mut retracted_in_this_call: BTreeSet<u64> = BTreeSet::new();
                let recs = rec.lock().unwrap().clone();
                if recs.len() != fired.len() {
                    return Verdict::fail("fired-list-vs-actions", format!("op {}: fire_all returned {} names but {} actions ran", oi, fired.len(), recs.len()));
                }
                // O1: soundness at the moment of firing
                for (k, f) in recs.iter().enumerate() {
                    let r = &c.rules[f.rule];
                    let hid = match f.handle {
                        Some(h) => h,
                        None => {
                            ctx.label("firing-without-matched-fact");
                            continue;
                        }
                    };
                    if !facts.iter().any(|m| m.handle.id() == hid) {
                        return Verdict::fail("fired-for-unknown-handle", format!("op {} firing {}: rule {} fired for handle {} which was never issued", oi, k, r.ast.name, hid));
                    }
                    if !live_before.contains(&hid) {
                        return Verdict::fail("retracted-fact-fired", format!("op {} firing {}: rule {} fired for handle {} which was retracted before this fire_all", oi, k, r.ast.name, hid));
                    }
                    if retracted_in_this_call.contains(&hid) {
                        return Verdict::fail("retracted-fact-fired", format!("op {} firing {}: rule {} fired for handle {} which an earlier action of this fire_all retracted", oi, k, r.ast.name, hid));
                    }
                    let contents = match &f.contents {
                        Some(m) => m,
                        None => return Verdict::fail("retracted-fact-fired", format!("op {} firing {}: rule {} fired for handle {} which is not in working memory", oi, k, r.ast.name, hid)),
                    };
                    if f.fact_type.as_deref() != Some(TYPES[r.ty]) {
                        // the activation paired the rule with a fact of another type: every field the rule reads is
                        // absent there, which the quantifier excludes (all facts of a type carry its fields) → not judged
                        ctx.label("cross-type-activation-not-judged");
                    } else {
                        let (surely_false, _surely_true, undef) = both_readings(r, contents);
                        if contents.len() < 5 {
                            ctx.label("firing-for-fact-lacking-a-field");
                        }
                        match if undef { T3::Undef("x") } else if surely_false { T3::False } else { T3::True } {
                            T3::True => {}
                            T3::False => {
                                return Verdict::fail(
                                    "stale-activation-fired",
                                    format!("op {} firing {}: rule {} fired for handle {} whose contents {:?} do not satisfy its condition", oi, k, r.ast.name, hid, contents),
                                )
                            }
                            T3::Undef(_) => {
                                // REF takes no side (a value of an unexpected type, an absent right-hand field, ...):
                                // ask the same code on a clean slate
                                match fresh_engine_fires(&c, f.rule, contents) {
                                    Some(false) => {
                                        return Verdict::fail(
                                            "stale-activation-fired:self-oracle",
                                            format!(
                                                "op {} firing {}: rule {} fired for handle {} whose contents {:?} do not make a fresh engine fire that rule for a newly inserted fact with the same contents",
                                                oi, k, r.ast.name, hid, contents
                                            ),
                                        )
                                    }
                                    Some(true) => ctx.label("self-oracle-agrees"),
                                    None => ctx.label("self-oracle-unavailable"),
                                }
                            }
                        }
                    }
                    if r.act == ActKind::RetractMatched {
                        if let Some(t) = f.typed_handle {
                            retracted_in_this_call.insert(t);
                        }
                    }
                }
                // O2: completeness and exclusiveness when actions are no-ops and every rule is no-loop.
                // A rule is *armed* if it has not fired since the last reset(). An activation is created when a
                // fact is inserted/updated and consumed only by fire_all, so the engine owes a firing of an armed
                // rule whenever some live fact of its type satisfies it and was last written after the previous
                // fire_all (at the first fire_all: any live satisfying fact). It may additionally fire an armed rule
                // that some live fact satisfies (left-over activation); it must fire nothing else, and nothing twice.
                if all_noop {
                    let mut must: Vec<String> = Vec::new();
                    let mut may: Vec<String> = Vec::new();
                    let mut undefined = false;
                    for (ri, r) in c.rules.iter().enumerate() {
                        let mut sat = false;
                        let mut sat_new = false;
                        for f in facts.iter().filter(|f| f.live) {
                            if f.ty == r.ty {
                                let (surely_false, surely_true, undef) = both_readings(r, &data_map(&f.data));
                                if undef {
                                    undefined = true;
                                } else if surely_true {
                                    sat = true;
                                    if f.written_at > last_fire_all {
                                        sat_new = true;
                                    }
                                } else if !surely_false {
                                    // true under one reading of absent fields only: may fire
                                    sat = true;
                                }
                            }
                        }
                        // a fact of another type satisfies a rule only vacuously (every field absent): either outcome is accepted
                        // (the RETE evaluator and REF treat absent fields differently, and the quantifier excludes them)
                        let vacuous = facts.iter().any(|f| f.live && f.ty != r.ty);
                        if !armed[ri] {
                            continue; // must not fire: checked below
                        }
                        if sat_new {
                            must.push(r.ast.name.clone());
                        } else if sat || vacuous {
                            may.push(r.ast.name.clone());
                        }
                    }
                    if !undefined {
                        let mut got = fired.clone();
                        got.sort();
                        if draining {
                            // owed firings that do not happen now are not owed later either (their facts are no longer
                            // "written since the previous fire_all"): they move to `may`
                            may.append(&mut must);
                            ctx.label("fire_all-draining-after-a-burst");
                        }
                        for m in &must {
                            let n = got.iter().filter(|g| *g == m).count();
                            if n != 1 {
                                let sig = if n == 0 { "completeness:missing" } else { "completeness:extra-or-duplicate" };
                                return Verdict::fail(sig, format!("op {}: fire_all fired {:?}; armed no-loop rule {} is satisfied by a live fact written since the previous fire_all and must fire exactly once", oi, got, m));
                            }
                        }
                        for g in &got {
                            let ri = c.rules.iter().position(|r| &r.ast.name == g).unwrap_or(0);
                            if !armed[ri] {
                                return Verdict::fail("completeness:no-loop-refire", format!("op {}: fire_all fired {:?} but no-loop rule {} already fired since the last reset", oi, got, g));
                            }
                            if !must.contains(g) && !may.contains(g) {
                                return Verdict::fail("completeness:extra-or-duplicate", format!("op {}: fire_all fired {:?} but no live fact satisfies {}", oi, got, g));
                            }
                            if got.iter().filter(|x| *x == g).count() > 1 {
                                return Verdict::fail("completeness:extra-or-duplicate", format!("op {}: fire_all fired no-loop rule {} more than once: {:?}", oi, g, got));
                            }
                        }
                        ctx.label("O2-judged");
                        if first_fire_done && !must.is_empty() {
                            ctx.label("O2-judged-on-later-fire_all");
                        }
                    }
                    for g in &fired {
                        if let Some(ri) = c.rules.iter().position(|r| &r.ast.name == g) {
                            armed[ri] = false;
                        }
                    }
                }
                last_fire_all = clock;
                first_fire_done = true;
                backlog = if draining { backlog - 1000 } else { 0 };
                {
                    let live_n = facts.iter().filter(|f| f.live).count();
                    for f in &recs {
                        let r = &c.rules[f.rule];
                        match r.act {
                            ActKind::None | ActKind::FocusRoundTrip => {}
                            ActKind::RetractMatched => {
                                // the action retracts exactly the matched handle
                                if let Some(m) = facts.iter_mut().find(|m| Some(m.handle.id()) == f.typed_handle) {
                                    m.live = false;
                                }
                                if live_n >= 2 {
                                    nt_action_modifies = true;
                                }
                            }
                            _ => {
                                // assignments are written back to facts of that type in a way the statement does not describe
                                for m in facts.iter_mut().filter(|m| m.ty == r.ty) {
                                    m.data_known = false;
                                }
                                if live_n >= 2 && !matches!(r.act, ActKind::SetUnrelated(_)) {
                                    nt_action_modifies = true;
                                }
                            }
                        }
                    }
                }
                if !pending_dirty.is_empty() {
                    nt_stale = true;
                }
                pending_dirty.clear();
                let sal: BTreeSet<i32> = recs.iter().map(|f| c.rules[f.rule].ast.salience).collect();
                if sal.len() >= 2 {
                    nt_compete = true;
                }
            }
        }
        // O3: the four views agree (only while no action has changed working memory behind the model's back)
        let wm = engine.working_memory();
        let all: BTreeSet<u64> = wm.get_all_facts().iter().map(|f| f.handle.id()).collect();
        let handles: BTreeSet<u64> = wm.get_all_handles().iter().map(|h| h.id()).collect();
        if all != handles {
            return Verdict::fail("wm-views:all-vs-handles", format!("after op {}: get_all_facts {:?} vs get_all_handles {:?}", oi, all, handles));
        }
        for f in &facts {
            let by_get = wm.get(&f.handle).is_some();
            let by_type = wm.get_by_type(TYPES[f.ty]).iter().any(|x| x.handle == f.handle);
            let in_all = all.contains(&f.handle.id());
            if by_get != by_type || by_get != in_all {
                return Verdict::fail("wm-views:disagree", format!("after op {}: handle {} get={} by_type={} all={}", oi, f.handle.id(), by_get, by_type, in_all));
            }
            if !f.live && by_get {
                return Verdict::fail("wm-views:retracted-visible", format!("after op {}: retracted handle {} still visible", oi, f.handle.id()));
            }
            if f.live && !by_get {
                return Verdict::fail("wm-views:live-missing", format!("after op {}: live handle {} not found", oi, f.handle.id()));
            }
            if by_get && f.data_known {
                // contents equal what was last written through the API
                let got: BTreeMap<String, V> = wm.get(&f.handle).unwrap().data.get_all().iter().map(|(k, v)| (k.clone(), fv_to_v(v))).collect();
                if got != data_map(&f.data) {
                    return Verdict::fail("wm-views:contents", format!("after op {}: handle {} holds {:?}, last written {:?}", oi, f.handle.id(), got, data_map(&f.data)));
                }
            }
        }
        for x in &all {
            if !facts.iter().any(|f| f.handle.id() == *x) {
                return Verdict::fail("wm-views:unknown-handle", format!("after op {}: unknown handle {} in listing", oi, x));
            }
        }
    }
    if nt_stale {
        ctx.label("update/retract-of-matching-fact-before-fire");
    }
    if nt_action_modifies {
        ctx.label("action-modifies-or-retracts-with>=2-live");
    }
    if nt_compete {
        ctx.label("rules-of-different-salience-fired");
    }
    if nt_stale || nt_action_modifies || nt_compete {
        ctx.nontrivial(hash_str(&render(&c)));
    }
    Verdict::Pass
}

pub fn run_api(s: &mut Src, ctx: &mut Ctx) -> Verdict {
    VIA_PARSER.with(|v| v.set(false));
    let r = run(s, ctx);
    VIA_PARSER.with(|v| v.set(true));
    r
}

pub fn property() -> Property {
    Property {
        id: "C06",
        level: "exploration",
        rule: "generated: 1-4 single-type rules over 3 fact types (well-typed atoms: int field vs literal/field with == != < <= > >=, string field with == != contains startsWith endsWith, bool field, one arithmetic operator on the left; && || ! to depth 3; salience ties; no-loop; action none / set unrelated field / set a condition field / Retract of the matched fact), converted by the real GrlReteLoader (hook verif_convert_rule) from parsed GRL text (part parser) or identical Rule values (part api), action closures wrapped by a recorder; histories of 4-14 insert/update/retract/fire_all/reset operations over <= 6 facts with a 3-value domain per field; plus exhaustive histories over 2 facts x 1 rule x 2 values. Oracles: O1 every firing's matched handle is live (engine view and API-level model) and REF says the rule's condition is true of exactly the contents the engine presents for that handle; O2 when all rules are no-loop with no actions: every fire_all fires exactly once each armed rule (not fired since the last reset) that a live fact written since the previous fire_all satisfies, may fire an armed rule some live fact satisfies, and fires nothing else; O3 after every operation get / get_by_type / get_all_facts / get_all_handles agree for every handle ever issued, ids increase, retracted handles are rejected by update/retract. Non-trivial: a fact matching some rule is updated or retracted before the next fire_all, or an action modifies/retracts with >= 2 live facts, or rules of different salience fire in one fire_all; distinct by hash of (rules, history). Drawn last: 1 history in 3 chooses one of 7 conflict-resolution strategies at one or two points; 1 history in 6 begins with a burst scenario on a fact of its own (insert; the same update 1001 times; update; fire_all; fire_all; update; fire_all). While an upper bound on the queued activations exceeds the engine's 1000-pop loop guard a fire_all is a draining call: soundness is judged, no firing is owed. The object under test is built with new() or with default() in turn (by a hash of the case's data, no draw).",
        assumptions: vec![
            "a fact may lack a field (1 case in 4 lacks one): the two readings of an absent field (compares as null / atom is false) are both accepted - a firing is unsound only if the condition is false under both, owed only if true under both".into(),
            "multi-type joins, exists/forall, accumulate, multi-operator arithmetic are not generated".into(),
        ],
        parts: vec![
            Part { name: "parser", run, quick: Budget::Random { cases: 6_000, bytes: 500 }, thorough: Budget::Random { cases: 40_000, bytes: 500 }, min_nontrivial_pct: 30 },
            Part { name: "api", run: run_api, quick: Budget::Random { cases: 30_000, bytes: 500 }, thorough: Budget::Random { cases: 400_000, bytes: 500 }, min_nontrivial_pct: 30 },
            Part { name: "exh", run: run_api, quick: Budget::Exhaustive { param: 3 }, thorough: Budget::Exhaustive { param: 5 }, min_nontrivial_pct: 0 },
        ],
        watchdog: true,
        replay_reps: 5,
    }
}
