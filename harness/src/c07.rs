//! C07 — RETE agenda order, no-loop, activation-group exclusivity and termination.
//!
//! Part A (`agenda`, `agendaExh*`): operation sequences on `AdvancedAgenda`
//! judged step by step against a model written from the statement.
//!
//! Part B (`termIncr`, `termTyped`, `termUl`): tiny rule sets (1–4 rules) for the
//! three RETE engines, including always-true rules without no-loop and actions
//! that re-enable rules. Oracle: `fire_all` returns and fires no more often than
//! the engine's iteration bound. Every rule action burns one unit of *fuel*; when
//! the fuel (= the bound) is used up the action unwinds out of `fire_all`, so a
//! missing guard is reported in milliseconds instead of hanging. Loops that do
//! not go through an action are left to the runner's watchdog (`watchdog: true`).

use crate::core::*;
use crate::runner::*;
use rust_rule_engine::rete::{
    ActionResult, ActionResults, Activation, AdvancedAgenda, AlphaNode, FactHandle, IncrementalEngine, ReteUlEngine,
    ReteUlNode, TypedFacts, TypedReteUlEngine, TypedReteUlRule,
};
use std::collections::{BTreeSet, HashMap};
use std::sync::atomic::{AtomicUsize, Ordering};
use std::sync::Arc;
use std::time::{Duration, Instant};

// ---------------------------------------------------------------------------
// Known-finding switches (see REPORT.md). Set to `false` once the fix is merged.
// ---------------------------------------------------------------------------

/// F1: `TypedReteUlEngine::fire_all` has no iteration bound. On the unfixed tree
/// every rule that could re-fire for ever gets `no_loop = true` in the typed part.
const EXCLUDE_F1_TYPED_UNBOUNDED: bool = false;
/// F2: `sort_by_key(|&i| -priority)` negates `i32::MIN` (panics when the engine is
/// compiled with overflow checks). Priority `i32::MIN` is rewritten to `i32::MIN + 1`
/// for the two non-incremental engines.
const EXCLUDE_F2_PRIORITY_MIN: bool = false;

// ===========================================================================
// Part A — agenda
// ===========================================================================

const GROUPS: [&str; 3] = ["MAIN", "g1", "g2"];
const ACTG: [&str; 2] = ["ag1", "ag2"];
const SAL: [i32; 9] = [0, 1, 5, -1, 10, i32::MAX, i32::MIN, i32::MAX - 1, i32::MIN + 1];

#[derive(Clone, Debug, Hash)]
enum Op {
    /// `t` = creation instant in ns after the case's base instant
    Add { rule: usize, sal: i32, group: usize, actg: Option<usize>, t: u64 },
    Pop { mark: bool },
    Focus(usize),
    Reset,
    Clear,
}

#[derive(Clone, Debug, Hash)]
struct ACase {
    /// no-loop is an attribute of the rule (all activations of a rule share it)
    no_loop: Vec<bool>,
    ops: Vec<Op>,
}

fn gen_agenda(s: &mut Src, exh: u32) -> ACase {
    if exh > 0 {
        // r0: no-loop, no activation group; r1, r2: loop allowed, both in activation group ag1
        let mut ops = Vec::new();
        let mut now = 10_000u64;
        for _ in 0..exh {
            let k = s.below(17);
            ops.push(match k {
                0..=11 => {
                    now += 1000;
                    let rule = k % 3;
                    Op::Add { rule, sal: ((k / 3) % 2) as i32, group: k / 6, actg: if rule == 0 { None } else { Some(0) }, t: now }
                }
                12 => Op::Pop { mark: true },
                13 => Op::Pop { mark: false },
                14 => Op::Focus(1),
                15 => Op::Focus(0),
                _ => Op::Reset,
            });
        }
        return ACase { no_loop: vec![true, false, false], ops };
    }
    let n_rules = 1 + s.below(4);
    let no_loop: Vec<bool> = (0..n_rules).map(|_| s.bool()).collect();
    let n_ops = 5 + s.below(21);
    let mut ops = Vec::with_capacity(n_ops);
    let mut now = 10_000u64;
    for _ in 0..n_ops {
        ops.push(match s.weighted(&[24, 16, 4, 3, 1]) {
            0 => {
                let rule = s.below(n_rules);
                let sal = match s.weighted(&[6, 2, 1]) {
                    0 => SAL[s.below(3)],
                    1 => SAL[s.below(SAL.len())],
                    _ => s.below(1 << 32) as u32 as i32,
                };
                let group = s.weighted(&[4, 2, 1]);
                let actg = match s.weighted(&[4, 2, 1]) {
                    0 => None,
                    1 => Some(0),
                    _ => Some(1),
                };
                // creation instants: normally strictly later than everything before; sometimes the same
                // instant as the previous activation (unordered for the oracle); sometimes an activation
                // that was created earlier and is only added now
                let t = match s.weighted(&[6, 1, 1]) {
                    0 => {
                        now += 1000;
                        now
                    }
                    1 => now,
                    _ => now.saturating_sub(1500),
                };
                Op::Add { rule, sal, group, actg, t }
            }
            1 => Op::Pop { mark: s.chance(3, 4) },
            2 => Op::Focus(s.below(3)),
            3 => Op::Reset,
            _ => Op::Clear,
        });
    }
    ACase { no_loop, ops }
}

struct Item {
    tag: u64,
    rule: usize,
    sal: i32,
    group: usize,
    actg: Option<usize>,
    t: u64,
    /// false = the statement does not say whether this activation is still pending (it was passed over
    /// while excluded, or added while its activation group had fired); such an item may be returned or
    /// not, and never makes the oracle demand anything
    definite: bool,
    focus_epoch: u32,
}

fn group_idx(name: &str) -> Option<usize> {
    GROUPS.iter().position(|g| *g == name)
}

pub fn run_agenda(s: &mut Src, ctx: &mut Ctx) -> Verdict {
    let case = gen_agenda(s, ctx.exh);
    if probe_only() {
        return Verdict::Pass;
    }
    ctx.describe(|| {
        let mut d = format!("rules no_loop={:?};", case.no_loop);
        for (i, op) in case.ops.iter().enumerate() {
            d.push_str(&match op {
                Op::Add { rule, sal, group, actg, t } => format!(
                    " {}:add(r{} sal={} group={} actg={} t={})",
                    i,
                    rule,
                    sal,
                    GROUPS[*group],
                    actg.map(|a| ACTG[a]).unwrap_or("-"),
                    t
                ),
                Op::Pop { mark } => format!(" {}:pop{}", i, if *mark { "+mark" } else { "" }),
                Op::Focus(g) => format!(" {}:focus({})", i, GROUPS[*g]),
                Op::Reset => format!(" {}:reset", i),
                Op::Clear => format!(" {}:clear", i),
            });
        }
        d
    });

    let mut ag = crate::core::new_or_default(AdvancedAgenda::new);
    // Creation instants are spread on one of four scales (a pure function of the case): the generated 1 us steps as they
    // are, or stretched to 1 ms, 0.3 s or 0.7 s steps -- an activation may well have been created seconds after the
    // agenda (the field is public, an `Instant` in the near future is a legal value). Order and ties are unchanged.
    let scale: u64 = [1, 1, 1_000, 300_000, 700_000][case.ops.len() % 5];
    if scale > 1 {
        ctx.label("creation-instants-on-a-wide-scale");
    }
    let base = Instant::now();
    // an agenda that is not new (every third random case by length; a pure function of the case): 70 activations of
    // another rule were queued and taken off again, without being marked fired
    if ctx.exh == 0 && case.ops.len() % 3 == 0 {
        for _ in 0..70 {
            ag.add_activation(Activation::new("warm".to_string(), 0));
            let _ = ag.get_next_activation();
        }
        ctx.label("agenda-not-new(warm-up)");
    }
    let mut pending: Vec<Item> = Vec::new();
    let mut fired_rules: BTreeSet<usize> = BTreeSet::new();
    let mut fired_groups: BTreeSet<usize> = BTreeSet::new();
    let mut next_tag = 1u64;
    let mut focus_epoch = 0u32;
    // groups that lost the focus through set_focus since the last clear(), oldest first (what a focus stack may hold)
    let mut left_by_set_focus: Vec<usize> = Vec::new();
    let mut nontrivial = false;

    for (step, op) in case.ops.iter().enumerate() {
        match op {
            Op::Add { rule, sal, group, actg, t } => {
                let tag = next_tag;
                next_tag += 1;
                let mut a = Activation::new(format!("r{}", rule), *sal)
                    .with_agenda_group(GROUPS[*group].to_string())
                    .with_no_loop(case.no_loop[*rule])
                    .with_matched_fact(FactHandle::new(tag));
                if let Some(g) = actg {
                    a = a.with_activation_group(ACTG[*g].to_string());
                }
                a.created_at = base + Duration::from_nanos(*t * scale);
                ag.add_activation(a);
                let definite = !actg.map(|g| fired_groups.contains(&g)).unwrap_or(false);
                if pending.iter().any(|p| p.t == *t) {
                    ctx.label("created-tie");
                }
                if pending.iter().any(|p| p.t > *t) {
                    ctx.label("created-earlier-added-later");
                }
                if *sal == i32::MAX || *sal == i32::MIN {
                    ctx.label("salience-extreme");
                }
                pending.push(Item { tag, rule: *rule, sal: *sal, group: *group, actg: *actg, t: *t, definite, focus_epoch });
            }
            Op::Focus(g) => {
                let before = ag.get_focus().to_string();
                ag.set_focus(GROUPS[*g].to_string());
                if ag.get_focus() != GROUPS[*g] {
                    return Verdict::fail("set-focus", format!("step {}: set_focus({}) but get_focus() = {}", step, GROUPS[*g], ag.get_focus()));
                }
                if before != GROUPS[*g] {
                    focus_epoch += 1;
                    if let Some(b) = group_idx(&before) {
                        left_by_set_focus.push(b);
                    }
                }
            }
            Op::Reset => {
                ag.reset_fired_flags();
                if !fired_rules.is_empty() || !fired_groups.is_empty() {
                    ctx.label("reset-with-fired");
                }
                fired_rules.clear();
                fired_groups.clear();
            }
            Op::Clear => {
                ag.clear();
                left_by_set_focus.clear();
                pending.clear();
                fired_rules.clear();
                fired_groups.clear();
            }
            Op::Pop { mark } => {
                let f0 = match group_idx(ag.get_focus()) {
                    Some(g) => g,
                    None => return Verdict::fail("focus-unknown", format!("step {}: focus is {:?}", step, ag.get_focus())),
                };
                let got = ag.get_next_activation();
                let f1 = match group_idx(ag.get_focus()) {
                    Some(g) => g,
                    None => return Verdict::fail("focus-unknown", format!("step {}: focus is {:?}", step, ag.get_focus())),
                };
                let excl_noloop = |p: &Item| case.no_loop[p.rule] && fired_rules.contains(&p.rule);
                let excl_actg = |p: &Item| p.actg.map(|g| fired_groups.contains(&g)).unwrap_or(false);
                let excluded = |p: &Item| excl_noloop(p) || excl_actg(p);
                if f1 != f0 {
                    ctx.label("focus-fallthrough");
                    // the focus may only fall back to a group that was focused before and left through set_focus
                    // since the last clear(): otherwise activations of a group nobody focused would fire
                    match left_by_set_focus.iter().rposition(|g| *g == f1) {
                        Some(k) => left_by_set_focus.truncate(k),
                        None => {
                            return Verdict::fail(
                                "pop-focus-moved-to-never-focused-group",
                                format!(
                                    "step {}: get_next_activation moved the focus from {} to {}, a group that was not focused (and left through set_focus) since the last clear(); returned {:?}",
                                    step,
                                    GROUPS[f0],
                                    GROUPS[f1],
                                    got.as_ref().map(|a| a.rule_name.clone())
                                ),
                            )
                        }
                    }
                    if let Some(p) = pending.iter().find(|p| p.group == f0 && p.definite && !excluded(p)) {
                        return Verdict::fail(
                            "pop-left-focused-group",
                            format!(
                                "step {}: focus moved from {} to {} although r{} (tag {}, salience {}) was pending and eligible in {}",
                                step, GROUPS[f0], GROUPS[f1], p.rule, p.tag, p.sal, GROUPS[f0]
                            ),
                        );
                    }
                }
                match got {
                    None => {
                        ctx.label("pop-none");
                        if let Some(p) = pending.iter().find(|p| p.group == f1 && p.definite && !excluded(p)) {
                            return Verdict::fail(
                                "pop-none-but-pending",
                                format!(
                                    "step {}: get_next_activation() = None but r{} (tag {}, salience {}) is pending and eligible in focused group {}",
                                    step, p.rule, p.tag, p.sal, GROUPS[f1]
                                ),
                            );
                        }
                        if pending.iter().any(|p| (p.group == f1 || p.group == f0) && p.definite && excluded(p)) {
                            ctx.label("skip-excluded");
                            nontrivial = true;
                        }
                        // everything excluded may have been passed over (which groups were traversed is not
                        // something the statement fixes)
                        for p in pending.iter_mut() {
                            if excluded(p) {
                                p.definite = false;
                            }
                        }
                    }
                    Some(a) => {
                        let tag = a.matched_fact_handle.map(|h| h.id()).unwrap_or(0);
                        let pos = match pending.iter().position(|p| p.tag == tag) {
                            Some(p) => p,
                            None => {
                                return Verdict::fail(
                                    "pop-not-pending",
                                    format!(
                                        "step {}: returned activation {} (tag {}, salience {}) is not pending (returned before, cleared, or never added)",
                                        step, a.rule_name, tag, a.salience
                                    ),
                                )
                            }
                        };
                        let it = &pending[pos];
                        if a.rule_name != format!("r{}", it.rule)
                            || a.salience != it.sal
                            || a.agenda_group != GROUPS[it.group]
                            || a.created_at != base + Duration::from_nanos(it.t * scale)
                            || a.no_loop != case.no_loop[it.rule]
                            || a.activation_group.as_deref() != it.actg.map(|g| ACTG[g])
                        {
                            return Verdict::fail("pop-altered", format!("step {}: activation tag {} came back with different attributes: {:?}", step, tag, a));
                        }
                        if it.group != f1 {
                            return Verdict::fail(
                                "pop-wrong-group",
                                format!("step {}: returned r{} (tag {}) of group {} while the focus is {}", step, it.rule, tag, GROUPS[it.group], GROUPS[f1]),
                            );
                        }
                        if excl_noloop(it) {
                            return Verdict::fail(
                                "pop-noloop-refire",
                                format!("step {}: no-loop rule r{} (tag {}) returned although it was marked fired since the last reset", step, it.rule, tag),
                            );
                        }
                        if excl_actg(it) {
                            return Verdict::fail(
                                "pop-actgroup-second",
                                format!(
                                    "step {}: r{} (tag {}) returned although activation group {} already fired",
                                    step,
                                    it.rule,
                                    tag,
                                    ACTG[it.actg.unwrap()]
                                ),
                            );
                        }
                        for p in pending.iter() {
                            if p.tag == tag || p.group != f1 || !p.definite || excluded(p) {
                                continue;
                            }
                            if p.sal > it.sal {
                                return Verdict::fail(
                                    "pop-order-salience",
                                    format!(
                                        "step {}: returned r{} (tag {}, salience {}) while r{} (tag {}, salience {}) is pending and eligible in {}",
                                        step, it.rule, tag, it.sal, p.rule, p.tag, p.sal, GROUPS[f1]
                                    ),
                                );
                            }
                            if p.sal == it.sal && p.t < it.t {
                                return Verdict::fail(
                                    "pop-order-created",
                                    format!(
                                        "step {}: returned r{} (tag {}, salience {}, created t={}) while r{} (tag {}, same salience, created earlier t={}) is pending and eligible in {}",
                                        step, it.rule, tag, it.sal, it.t, p.rule, p.tag, p.t, GROUPS[f1]
                                    ),
                                );
                            }
                        }
                        // classification
                        let in_group = pending.iter().filter(|p| p.group == f1 && p.definite).count();
                        let tie = pending.iter().any(|p| p.tag != tag && p.group == f1 && p.definite && !excluded(p) && p.sal == it.sal);
                        if tie {
                            ctx.label("salience-tie-at-pop");
                            if in_group >= 3 {
                                ctx.label("tie-among-3plus");
                                nontrivial = true;
                            }
                        }
                        let ahead = |p: &Item| p.sal > it.sal || (p.sal == it.sal && p.t <= it.t);
                        let skipped_here = pending.iter().any(|p| p.tag != tag && p.group == f1 && p.definite && excluded(p) && ahead(p));
                        let skipped_f0 = f0 != f1 && pending.iter().any(|p| p.group == f0 && p.definite && excluded(p));
                        if skipped_here || skipped_f0 {
                            ctx.label("skip-excluded");
                            nontrivial = true;
                            if pending.iter().any(|p| p.tag != tag && p.definite && excl_noloop(p) && (p.group == f0 || (p.group == f1 && ahead(p)))) {
                                ctx.label("skip-noloop");
                            }
                            if pending.iter().any(|p| p.tag != tag && p.definite && excl_actg(p) && (p.group == f0 || (p.group == f1 && ahead(p)))) {
                                ctx.label("skip-actgroup");
                            }
                        }
                        if it.focus_epoch != focus_epoch {
                            ctx.label("focus-change-between-add-and-pop");
                            nontrivial = true;
                        }
                        if !it.definite {
                            ctx.label("returned-undetermined");
                        }
                        let (it_sal, it_t) = (it.sal, it.t);
                        // passed over while excluded: the statement does not say whether they stay
                        for p in pending.iter_mut() {
                            if p.tag == tag || !excluded(p) {
                                continue;
                            }
                            let ahead = p.sal > it_sal || (p.sal == it_sal && p.t <= it_t);
                            if p.group != f1 || ahead {
                                p.definite = false;
                            }
                        }
                        let it = pending.remove(pos);
                        if *mark {
                            ag.mark_rule_fired(&a);
                            fired_rules.insert(it.rule);
                            if let Some(g) = it.actg {
                                fired_groups.insert(g);
                            }
                        } else {
                            ctx.label("pop-without-mark");
                        }
                    }
                }
            }
        }
    }
    if nontrivial {
        ctx.nontrivial(hash_of(&case));
    }
    Verdict::Pass
}

// ===========================================================================
// Part B — termination of fire_all
// ===========================================================================

#[derive(Clone, Copy, Debug, Hash, PartialEq, Eq)]
enum Eng {
    Incr,
    Typed,
    Ul,
}

/// Conditions over the facts `T.x` (integer, initially 0) and `T.flag` (boolean).
#[derive(Clone, Copy, Debug, Hash, PartialEq, Eq)]
enum Cond {
    /// `UlTerminal`: constant true
    Terminal,
    /// `T.x == T.x` (typed engines: variable reference; string engine: `x == "0" || x != "0"`)
    SelfEq,
    /// `T.x >= 0` — true for ever (x never decreases below 0)
    GeZero,
    /// `!(T.x < 0)`
    NotNeg,
    /// `T.x < k`
    Lt(i64),
    /// `T.x >= k` — false at first, enabled by increments
    Ge(i64),
    FlagIs(bool),
}

#[derive(Clone, Copy, Debug, Hash, PartialEq, Eq)]
enum Act {
    Nop,
    /// x := x + 1
    Inc,
    /// x := 0 (re-enables `Lt` rules)
    ResetX,
    SetFlag(bool),
    /// remove the `<rule j>_fired` marker fact (the non-incremental engines keep such markers in the fact base)
    Unfire(usize),
    /// incremental engine only: ActionResult::InsertFact of another `T` fact (at most 3 times per rule)
    Insert,
    /// incremental engine only: ActionResult::Update(handle of T)
    Update,
    /// incremental engine only: ActionResult::RetractByType("T")
    Retract,
    /// incremental engine only: ActionResult::ActivateAgendaGroup("g1")
    Focus,
}

#[derive(Clone, Debug, Hash)]
struct RuleSpec {
    cond: Cond,
    prio: i32,
    no_loop: bool,
    act: Act,
}

#[derive(Clone, Debug, Hash)]
struct TCase {
    rules: Vec<RuleSpec>,
    flag0: bool,
    /// incremental engine: number of `T` facts inserted before firing
    n_facts: usize,
    /// call fire_all a second time (state left by the first call), optionally after the engine's reset
    second: Option<bool>,
}

const PRIO: [i32; 8] = [0, 1, 10, -1, i32::MAX, i32::MIN, i32::MIN + 1, -10];

fn gen_rules(s: &mut Src) -> TCase {
    let n = 1 + s.below(4);
    let mut rules = Vec::with_capacity(n);
    for _ in 0..n {
        let cond = match s.below(8) {
            0 => Cond::Terminal,
            1 => Cond::SelfEq,
            2 => Cond::GeZero,
            3 => Cond::NotNeg,
            4 => Cond::Lt([1, 3, 7][s.below(3)]),
            5 => Cond::Ge([1, 2, 3][s.below(3)]),
            6 => Cond::FlagIs(true),
            _ => Cond::FlagIs(false),
        };
        let prio = match s.weighted(&[3, 1]) {
            0 => PRIO[s.below(PRIO.len())],
            _ => s.below(1 << 32) as u32 as i32,
        };
        let no_loop = s.bool();
        // half of the `x < k` / `flag == b` rules get the action that eventually disables them again
        // (loops that end on their own); drawn for every rule so that decoding does not depend on `cond`
        let paired = s.bool();
        let act = match s.below(10) {
            0 => Act::Nop,
            1 => Act::Inc,
            2 => Act::ResetX,
            3 => Act::SetFlag(true),
            4 => Act::SetFlag(false),
            5 => Act::Unfire(s.below(n)),
            6 => Act::Insert,
            7 => Act::Update,
            8 => Act::Retract,
            _ => Act::Focus,
        };
        let act = match (paired, cond) {
            (true, Cond::Lt(_)) => Act::Inc,
            (true, Cond::FlagIs(b)) => Act::SetFlag(!b),
            _ => act,
        };
        rules.push(RuleSpec { cond, prio, no_loop, act });
    }
    let flag0 = s.bool();
    let n_facts = 1 + s.below(2);
    let second = match s.weighted(&[3, 1, 1]) {
        0 => None,
        1 => Some(false),
        _ => Some(true),
    };
    TCase { rules, flag0, n_facts, second }
}

fn alpha(field: &str, op: &str, value: &str) -> ReteUlNode {
    ReteUlNode::UlAlpha(AlphaNode { field: field.to_string(), operator: op.to_string(), value: value.to_string() })
}

fn node_of(c: Cond, name: &str, string_engine: bool) -> ReteUlNode {
    match c {
        Cond::Terminal => ReteUlNode::UlTerminal(name.to_string()),
        Cond::SelfEq => {
            if string_engine {
                ReteUlNode::UlOr(Box::new(alpha("T.x", "==", "0")), Box::new(alpha("T.x", "!=", "0")))
            } else {
                alpha("T.x", "==", "T.x")
            }
        }
        Cond::GeZero => alpha("T.x", ">=", "0"),
        Cond::NotNeg => ReteUlNode::UlNot(Box::new(alpha("T.x", "<", "0"))),
        Cond::Lt(k) => alpha("T.x", "<", &k.to_string()),
        Cond::Ge(k) => alpha("T.x", ">=", &k.to_string()),
        Cond::FlagIs(b) => alpha("T.flag", "==", if b { "true" } else { "false" }),
    }
}

/// payload used to unwind out of `fire_all` when the fuel is used up
struct FuelOut;

#[derive(Clone)]
struct Fuel {
    used: Arc<AtomicUsize>,
    limit: Arc<AtomicUsize>,
}

impl Fuel {
    fn new(limit: usize) -> Fuel {
        Fuel { used: Arc::new(AtomicUsize::new(0)), limit: Arc::new(AtomicUsize::new(limit)) }
    }
    fn burn(&self) {
        let u = self.used.fetch_add(1, Ordering::Relaxed) + 1;
        if u > self.limit.load(Ordering::Relaxed) {
            std::panic::panic_any(FuelOut);
        }
    }
    fn refill(&self) {
        self.used.store(0, Ordering::Relaxed);
    }
}

fn typed_action(spec: &RuleSpec, fuel: Fuel, incremental: bool) -> Arc<dyn Fn(&mut TypedFacts, &mut ActionResults) + Send + Sync> {
    let act = spec.act;
    let inserts = AtomicUsize::new(0);
    Arc::new(move |facts: &mut TypedFacts, results: &mut ActionResults| {
        fuel.burn();
        match act {
            Act::Nop => {}
            Act::Inc => {
                let x = facts.get("T.x").and_then(|v| v.as_integer()).unwrap_or(0);
                facts.set("T.x", x + 1);
            }
            Act::ResetX => facts.set("T.x", 0i64),
            Act::SetFlag(b) => facts.set("T.flag", b),
            Act::Unfire(j) => {
                facts.remove(&format!("r{}_fired", j));
            }
            Act::Insert => {
                if incremental && inserts.fetch_add(1, Ordering::Relaxed) < 3 {
                    let mut d = TypedFacts::new();
                    d.set("x", 0i64);
                    d.set("flag", false);
                    results.add(ActionResult::InsertFact { fact_type: "T".to_string(), data: d });
                }
            }
            Act::Update => {
                if incremental {
                    if let Some(h) = facts.get_fact_handle("T") {
                        results.add(ActionResult::Update(h));
                    }
                }
            }
            Act::Retract => {
                if incremental {
                    results.add(ActionResult::RetractByType("T".to_string()));
                }
            }
            Act::Focus => {
                if incremental {
                    results.add(ActionResult::ActivateAgendaGroup("g1".to_string()));
                }
            }
        }
    })
}

fn string_action(spec: &RuleSpec, fuel: Fuel) -> impl Fn(&mut HashMap<String, String>) + Send + Sync + 'static {
    let act = spec.act;
    move |facts: &mut HashMap<String, String>| {
        fuel.burn();
        match act {
            Act::Inc => {
                let x = facts.get("T.x").and_then(|v| v.parse::<i64>().ok()).unwrap_or(0);
                facts.insert("T.x".to_string(), (x + 1).to_string());
            }
            Act::ResetX => {
                facts.insert("T.x".to_string(), "0".to_string());
            }
            Act::SetFlag(b) => {
                facts.insert("T.flag".to_string(), b.to_string());
            }
            Act::Unfire(j) => {
                facts.remove(&format!("r{}_fired", j));
            }
            _ => {}
        }
    }
}

enum Stop {
    FuelOut,
    /// arithmetic overflow panic inside fire_all (only with overflow checks compiled in)
    NegateOverflow(String),
}

/// Run `f` (a `fire_all` call). Any other engine panic is passed on to the runner (`panic@file:line`).
fn guarded<R>(f: impl FnOnce() -> R) -> Result<R, Stop> {
    match std::panic::catch_unwind(std::panic::AssertUnwindSafe(f)) {
        Ok(r) => Ok(r),
        Err(p) => {
            if p.is::<FuelOut>() {
                return Err(Stop::FuelOut);
            }
            let msg = p.downcast_ref::<&str>().map(|s| s.to_string()).or_else(|| p.downcast_ref::<String>().cloned()).unwrap_or_default();
            if msg.contains("attempt to negate with overflow") {
                let loc = LAST_PANIC.with(|l| l.borrow().clone()).unwrap_or_default();
                return Err(Stop::NegateOverflow(format!("{}: {}", loc, msg)));
            }
            std::panic::resume_unwind(p)
        }
    }
}

/// Any bound a repair of the typed engine declares in the style of its siblings (100 rounds, or 1000
/// activations) stays far below this number of firings for ≤ 4 rules; burning it all means "no bound".
const TYPED_FUEL: usize = 20_000;
const INCR_BOUND: usize = 1000;
const UL_ROUNDS: usize = 100;

fn f1_rewrite(case: &mut TCase) -> bool {
    // Without a bound the typed engine terminates iff every rule without no-loop eventually stops matching.
    // Kept as they are: `x < k` rules whose own action increments x (nothing resets x), and `flag == b`
    // rules whose own action sets the flag to !b (nothing sets it back).
    let has_reset = case.rules.iter().any(|r| r.act == Act::ResetX);
    let mut changed = false;
    let acts: Vec<Act> = case.rules.iter().map(|r| r.act).collect();
    for r in case.rules.iter_mut() {
        if r.no_loop {
            continue;
        }
        let self_limiting = match (r.cond, r.act) {
            (Cond::Lt(_), Act::Inc) => !has_reset,
            (Cond::FlagIs(b), Act::SetFlag(v)) => v != b && !acts.iter().any(|a| *a == Act::SetFlag(b)),
            _ => false,
        };
        if !self_limiting {
            r.no_loop = true;
            changed = true;
        }
    }
    changed
}

fn run_term(eng: Eng, s: &mut Src, ctx: &mut Ctx) -> Verdict {
    let mut case = gen_rules(s);
    if probe_only() {
        return Verdict::Pass;
    }
    if !ctx.no_exclusions {
        if EXCLUDE_F1_TYPED_UNBOUNDED && eng == Eng::Typed && f1_rewrite(&mut case) {
            ctx.exclude("F1-typed-fire-all-unbounded");
        }
        if EXCLUDE_F2_PRIORITY_MIN && eng != Eng::Incr {
            let mut hit = false;
            for r in case.rules.iter_mut() {
                if r.prio == i32::MIN {
                    r.prio = i32::MIN + 1;
                    hit = true;
                }
            }
            if hit {
                ctx.exclude("F2-priority-i32-min-negation");
            }
        }
    }
    ctx.describe(|| {
        let mut d = format!("engine={:?} facts: {}x T{{x=0, flag={}}}; second_call={:?};", eng, if eng == Eng::Incr { case.n_facts } else { 1 }, case.flag0, case.second);
        for (i, r) in case.rules.iter().enumerate() {
            d.push_str(&format!(" r{}[{:?} prio={} no_loop={} then {:?}]", i, r.cond, r.prio, r.no_loop, r.act));
        }
        d
    });
    let n = case.rules.len();
    let limit = match eng {
        Eng::Incr => INCR_BOUND,
        Eng::Typed => TYPED_FUEL,
        Eng::Ul => UL_ROUNDS * n,
    };
    let fuel = Fuel::new(limit);
    let calls = if case.second.is_some() { 2 } else { 1 };
    let mut all_fired: Vec<Vec<String>> = Vec::new();

    // exactly one of the three engines is built, from the same rule specification
    let mut incr: Option<IncrementalEngine> = None;
    let mut typed: Option<TypedReteUlEngine> = None;
    let mut ul: Option<ReteUlEngine> = None;
    match eng {
        Eng::Incr => {
            let mut e = IncrementalEngine::new();
            for (i, r) in case.rules.iter().enumerate() {
                let name = format!("r{}", i);
                e.add_rule(
                    TypedReteUlRule { name: name.clone(), node: node_of(r.cond, &name, false), priority: r.prio, no_loop: r.no_loop, action: typed_action(r, fuel.clone(), true) },
                    vec!["T".to_string()],
                );
            }
            for _ in 0..case.n_facts {
                let mut d = TypedFacts::new();
                d.set("x", 0i64);
                d.set("flag", case.flag0);
                e.insert("T".to_string(), d);
            }
            incr = Some(e);
        }
        Eng::Typed => {
            let mut e = TypedReteUlEngine::new();
            for (i, r) in case.rules.iter().enumerate() {
                let name = format!("r{}", i);
                let a = typed_action(r, fuel.clone(), false);
                e.add_rule_with_action(name.clone(), node_of(r.cond, &name, false), r.prio, r.no_loop, move |f, res| a(f, res));
            }
            e.set_fact("T.x", 0i64);
            e.set_fact("T.flag", case.flag0);
            typed = Some(e);
        }
        Eng::Ul => {
            let mut e = ReteUlEngine::new();
            for (i, r) in case.rules.iter().enumerate() {
                let name = format!("r{}", i);
                e.add_rule_with_action(name.clone(), node_of(r.cond, &name, true), r.prio, r.no_loop, string_action(r, fuel.clone()));
            }
            e.set_fact("T.x".to_string(), "0".to_string());
            e.set_fact("T.flag".to_string(), case.flag0.to_string());
            ul = Some(e);
        }
    }

    for call in 0..calls {
        if call == 1 {
            if case.second == Some(true) {
                ctx.label("second-call-after-reset");
                match eng {
                    Eng::Incr => incr.as_mut().unwrap().reset(),
                    Eng::Typed => typed.as_mut().unwrap().reset_fired_flags(),
                    Eng::Ul => ul.as_mut().unwrap().reset_fired_flags(),
                }
            } else {
                ctx.label("second-call");
            }
            fuel.refill();
        }
        let r = match eng {
            Eng::Incr => {
                let e = incr.as_mut().unwrap();
                guarded(|| e.fire_all())
            }
            Eng::Typed => {
                let e = typed.as_mut().unwrap();
                guarded(|| e.fire_all())
            }
            Eng::Ul => {
                let e = ul.as_mut().unwrap();
                guarded(|| e.fire_all())
            }
        };
        let fired = match r {
            Ok(f) => f,
            Err(Stop::NegateOverflow(m)) => {
                return Verdict::fail(
                    "fire-all-panic-negate-priority",
                    format!("call {}: {:?} fire_all panicked instead of returning: {} (sort key `-priority` with priority i32::MIN)", call, eng, m),
                );
            }
            Err(Stop::FuelOut) => {
                return match eng {
                    Eng::Incr => Verdict::fail(
                        "incr-fire-all-over-1000",
                        format!("call {}: IncrementalEngine::fire_all fired a {}th action without returning (documented bound: {} activations)", call, limit + 1, INCR_BOUND),
                    ),
                    Eng::Ul => Verdict::fail(
                        "ul-fire-all-over-100-rounds",
                        format!("call {}: ReteUlEngine::fire_all fired a {}th action without returning ({} rules, documented bound {} rounds)", call, limit + 1, n, UL_ROUNDS),
                    ),
                    Eng::Typed => Verdict::fail(
                        "typed-fire-all-unbounded",
                        format!(
                            "call {}: TypedReteUlEngine::fire_all fired {} actions without returning ({} rules); its `while changed` loop has no iteration guard",
                            call, limit, n
                        ),
                    ),
                };
            }
        };
        let over = match eng {
            Eng::Incr => fired.len() > INCR_BOUND,
            Eng::Ul => fired.len() > UL_ROUNDS * n,
            Eng::Typed => false,
        };
        if over {
            return Verdict::fail(
                match eng {
                    Eng::Incr => "incr-fire-all-over-1000",
                    _ => "ul-fire-all-over-100-rounds",
                },
                format!("call {}: fire_all returned {} firings, more than the documented bound", call, fired.len()),
            );
        }
        all_fired.push(fired);
    }

    // no-loop in the two engines that keep their "fired" markers in the fact base: between resets a no-loop rule fires
    // at most once, over all fire_all calls of the case - unless ANOTHER rule's action removes its marker (that is the
    // user taking the record away; a rule's own action runs before its marker is written and cannot do that)
    if eng != Eng::Incr && case.second != Some(true) {
        for (i, r) in case.rules.iter().enumerate() {
            if !r.no_loop || case.rules.iter().enumerate().any(|(j, o)| j != i && o.act == Act::Unfire(i)) {
                continue;
            }
            let name = format!("r{}", i);
            let total: usize = all_fired.iter().map(|f| f.iter().filter(|x| **x == name).count()).sum();
            if total > 1 {
                return Verdict::fail(
                    "no-loop-refire-without-reset",
                    format!(
                        "no-loop rule {} fired {} times over {} fire_all call(s) with no reset in between and no other rule removing its marker; firings per call {:?}",
                        name,
                        total,
                        all_fired.len(),
                        all_fired
                    ),
                );
            }
            if total == 1 && all_fired.len() == 2 && r.act == Act::Unfire(i) {
                ctx.label("no-loop-rule-removing-its-own-marker-stayed-fired");
            }
        }
    }
    // classification
    let mut looper_fired = false;
    for fired in &all_fired {
        let mut per: HashMap<&str, usize> = HashMap::new();
        for f in fired {
            *per.entry(f.as_str()).or_default() += 1;
        }
        if per.values().any(|c| *c > 1) {
            ctx.label("rule-fired-repeatedly");
        }
        if fired.is_empty() {
            ctx.label("nothing-fired");
        }
        if eng == Eng::Incr && fired.len() == INCR_BOUND {
            ctx.label("stopped-by-guard");
        }
        if eng == Eng::Typed && fired.len() >= UL_ROUNDS {
            ctx.label("fired-100plus");
        }
        for (i, r) in case.rules.iter().enumerate() {
            if !r.no_loop && per.contains_key(format!("r{}", i).as_str()) {
                looper_fired = true;
            }
        }
    }
    if case.rules.iter().any(|r| !r.no_loop && matches!(r.cond, Cond::Terminal | Cond::SelfEq | Cond::GeZero | Cond::NotNeg)) {
        ctx.label("always-true-without-no-loop");
    }
    if case.rules.iter().all(|r| r.no_loop) {
        ctx.label("all-no-loop");
    }
    if case.rules.iter().any(|r| r.prio == i32::MAX || r.prio == i32::MIN || r.prio == i32::MIN + 1) {
        ctx.label("priority-extreme");
    }
    if case.rules.iter().any(|r| matches!(r.act, Act::Unfire(_) | Act::ResetX)) {
        ctx.label("re-enabling-action");
    }
    if eng == Eng::Incr && case.rules.iter().any(|r| matches!(r.act, Act::Insert | Act::Update | Act::Retract | Act::Focus)) {
        ctx.label("action-result");
    }
    if looper_fired {
        ctx.nontrivial(hash_of(&(eng, &case)));
    }
    Verdict::Pass
}

pub fn run_term_incr(s: &mut Src, ctx: &mut Ctx) -> Verdict {
    run_term(Eng::Incr, s, ctx)
}
pub fn run_term_typed(s: &mut Src, ctx: &mut Ctx) -> Verdict {
    run_term(Eng::Typed, s, ctx)
}
pub fn run_term_ul(s: &mut Src, ctx: &mut Ctx) -> Verdict {
    run_term(Eng::Ul, s, ctx)
}

pub fn property() -> Property {
    Property {
        id: "C07",
        level: "exploration",
        rule: "Part A (agenda, agendaExh*): sequences of 5..25 operations {add_activation (salience from a tie-prone small domain, extremes and arbitrary i32; agenda group MAIN/g1/g2; activation group none/ag1/ag2; no-loop fixed per rule; explicit creation instants incl. equal instants and created-earlier-added-later), get_next_activation (+mark_rule_fired with p=3/4), set_focus, reset_fired_flags, clear} on AdvancedAgenda; agendaExh<n> enumerates all sequences of length n over a 17-operation alphabet. Oracle: model of pending activations and fired sets written from the statement, judged at every pop (group of the result = focused group, result was pending, not excluded by no-loop / fired activation group, no eligible pending activation of that group with higher salience or equal salience and earlier creation; None only if the focused group has no eligible pending activation; focus only leaves a group without eligible activations). Activations that were passed over while excluded are 'undetermined' and never make the oracle demand anything. Non-trivial: a pop with >=3 pending activations in the group and a salience tie, or a pop that skips an excluded activation, or a focus change between add and pop; distinct by (rule flags, operation sequence). Part B (termIncr/termTyped/termUl): rule sets of 1..4 rules over facts T.x, T.flag with conditions {UlTerminal, x==x, x>=0, !(x<0), x<k, x>=k, flag==b}, priorities incl. i32 extremes, no_loop arbitrary, actions {nop, x+=1, x:=0, set flag, remove another rule's _fired marker, InsertFact, Update, RetractByType, ActivateAgendaGroup}; fire_all is called once or twice. Oracle: fire_all returns without panic, the number of firings is within the engine's bound (1000 activations incremental, 100 rounds x rules ReteUlEngine, typed: no declared bound -> must return within 20000 firings); each action burns fuel and unwinds out of fire_all when the bound is exceeded, other hangs are caught by the watchdog. Non-trivial: a rule without no-loop actually fired; distinct by (engine, rule set). Creation instants of Part A are spread on one of four scales by case (1 us, 1 ms, 0.3 s, 0.7 s steps) after the agenda was created; order and ties as generated. The object under test is built with new() or with default() in turn (by a hash of the case's data, no draw).",
        assumptions: vec![
            "lock-on-active, auto-focus and ruleflow groups are left at their defaults: the statement says nothing about them".into(),
            "conflict resolution strategy is the default (Salience); the statement describes no other".into(),
            "no-loop is an attribute of the rule: all activations of one rule name carry the same flag".into(),
            "whether an activation that was skipped while excluded (or added while its activation group had fired) is still pending after reset_fired_flags is not fixed by the statement; both behaviours are accepted".into(),
            "TypedReteUlEngine declares no iteration bound; any bound up to 20000 firings per fire_all call is accepted".into(),
            "the negation overflow for priority i32::MIN is only observable when the engine is compiled with overflow checks (profile `strict`)".into(),
        ],
        parts: vec![
            Part { name: "agenda", run: run_agenda, quick: Budget::Random { cases: 5_000_000, bytes: 200 }, thorough: Budget::Random { cases: 30_000_000, bytes: 200 }, min_nontrivial_pct: 30 },
            Part { name: "agendaExh4", run: run_agenda, quick: Budget::Exhaustive { param: 4 }, thorough: Budget::Exhaustive { param: 4 }, min_nontrivial_pct: 0 },
            Part { name: "agendaExh5", run: run_agenda, quick: Budget::Exhaustive { param: 5 }, thorough: Budget::Exhaustive { param: 5 }, min_nontrivial_pct: 0 },
            Part { name: "agendaExh6", run: run_agenda, quick: Budget::Skip, thorough: Budget::Exhaustive { param: 6 }, min_nontrivial_pct: 0 },
            Part { name: "termIncr", run: run_term_incr, quick: Budget::Random { cases: 20_000, bytes: 64 }, thorough: Budget::Random { cases: 150_000, bytes: 64 }, min_nontrivial_pct: 20 },
            Part { name: "termTyped", run: run_term_typed, quick: Budget::Random { cases: 200_000, bytes: 64 }, thorough: Budget::Random { cases: 2_000_000, bytes: 64 }, min_nontrivial_pct: 4 },
            Part { name: "termUl", run: run_term_ul, quick: Budget::Random { cases: 200_000, bytes: 64 }, thorough: Budget::Random { cases: 2_000_000, bytes: 64 }, min_nontrivial_pct: 20 },
        ],
        watchdog: true,
        replay_reps: 25,
    }
}
