//! rre-verif: property-based testing / fuzzing machinery for rust-rule-engine.
pub mod core;
pub mod findings;
pub mod runner;

pub mod typed;
pub mod c01;
pub mod c02;
pub mod c03;
pub mod c06;
pub mod c13;
pub mod c19;

pub fn registry() -> Vec<runner::Property> {
    vec![c01::property(), c02::property(), c03::property(), c06::property(), c13::property(), c19::property()]
}
