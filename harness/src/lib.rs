//! rre-verif: property-based testing / fuzzing machinery for rust-rule-engine.
pub mod core;
pub mod findings;
pub mod runner;

pub mod c13;

pub fn registry() -> Vec<runner::Property> {
    vec![c13::property()]
}
