//! rre-verif: property-based testing / fuzzing machinery for rust-rule-engine.
pub mod core;
pub mod findings;
pub mod runner;

pub mod typed;
pub mod c01;
pub mod c02;
pub mod c03;
pub mod c04;
pub mod c05;
pub mod c06;
pub mod c07;
pub mod c08;
pub mod bc;
pub mod c09;
pub mod c10;
pub mod c11;
pub mod c12;
pub mod c13;
pub mod c14;
pub mod c15;
pub mod c16;
pub mod c17;
pub mod c18;
pub mod c19;
pub mod c20;

pub fn registry() -> Vec<runner::Property> {
    vec![c01::property(), c02::property(), c03::property(), c04::property(), c05::property(), c06::property(), c07::property(), c08::property(), c09::property(), c10::property(), c11::property(), c12::property(), c13::property(), c14::property(), c15::property(), c16::property(), c17::property(), c18::property(), c19::property(), c20::property()]
}
