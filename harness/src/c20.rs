//! C20 — restoring a checkpoint reproduces the state at checkpoint time; an
//! interrupted checkpoint never damages an earlier one and never restores partially.
//!
//! Parts
//! * `hist` / `hist-exhN` — operation histories (put / put_with_ttl / update / delete /
//!   checkpoint / restore / clock advance) over 3 keys on a file-backed `StateStore`
//!   under the injected millisecond clock. Oracle: at every checkpoint the harness
//!   records what the store observably holds (`keys` + `get` + `len`) and checks it
//!   against an independent model of the unexpired entries; after `restore(id)` the
//!   observable state must equal the recording of *that* checkpoint; listed ids are
//!   pairwise distinct, the list has min(n, max_checkpoints) entries and every listed
//!   id restores to its own recording.
//! * `crash` — fault enumeration. A generated history ends with checkpoint B. Every
//!   crash state of B's write sequence (`create_dir_all` → `File::create` → `write_all`
//!   → retention `remove_dir_all`) is materialised in the backend directory: no
//!   directory, empty directory, `state.json` truncated at EVERY byte length 0..=n,
//!   and the intermediate states of the retention delete. In each state a *fresh*
//!   store on the same path (what a restarted process has) must restore every earlier
//!   retained checkpoint exactly, and `restore(B)` must yield B's complete recording or
//!   `Err` with the live state unchanged.
//!
//! Known finding switches (see `excl_f1`/`excl_f2`): a switch is active only while the
//! finding is listed as `known:` in KNOWN_FINDINGS.txt and the case is not a witness replay.

use crate::core::*;
use crate::runner::*;
use rust_rule_engine::streaming::state::{StateBackend, StateConfig, StateStore};
use rust_rule_engine::verif_hooks::set_clock_ms;
use rust_rule_engine::Value;
use std::collections::{BTreeMap, HashMap};
use std::path::{Path, PathBuf};
use std::sync::atomic::{AtomicU64, Ordering};
use std::sync::OnceLock;
use std::time::Duration;

const T0: u64 = 1_700_000_000_000;
const LAST: usize = usize::MAX;

// ---------------------------------------------------------------------------
// known-finding switches
// ---------------------------------------------------------------------------

fn listed(id: &str) -> bool {
    static L: OnceLock<Vec<String>> = OnceLock::new();
    L.get_or_init(|| {
        crate::findings::load(&verif_root().join("KNOWN_FINDINGS.txt"))
            .into_iter()
            .filter(|f| f.kind == "known" && f.property == "C20")
            .map(|f| f.id)
            .collect()
    })
    .iter()
    .any(|x| x == id)
}

/// F1: checkpoint id = `checkpoint_<ms>` — two checkpoints in one millisecond share a directory.
fn excl_f1(ctx: &Ctx) -> bool {
    !ctx.no_exclusions && listed("C20-F1")
}
/// F2: arbitrary finite f64 values are not restored bit-exactly (serde_json without `float_roundtrip`).
fn excl_f2(ctx: &Ctx) -> bool {
    !ctx.no_exclusions && listed("C20-F2")
}

// ---------------------------------------------------------------------------
// case
// ---------------------------------------------------------------------------

#[derive(Clone, Debug)]
enum Op {
    Put(usize, Value),
    PutTtl(usize, Value, u64),
    Update(usize, Value),
    Delete(usize),
    /// `bump`: the F1 exclusion moved the clock forward by 1 ms first
    Checkpoint { bump: bool },
    /// index into the checkpoints taken so far: `sel % n`, 0 = oldest, LAST = newest
    Restore(usize),
    Advance(u64),
    /// `cleanup_expired()`: physically drops expired entries; nothing observable may change
    Cleanup,
    /// `restore` of an id that was never handed out (or of a retired checkpoint): must fail and change nothing
    RestoreUnknown,
}

#[derive(Clone, Debug)]
struct Case {
    keys: [String; 3],
    max_cp: usize,
    default_ttl: Option<u64>,
    arb_floats: bool,
    ops: Vec<Op>,
}

#[derive(Default)]
struct GenFlags {
    arb_float_used: bool,
    f2_rewrites: u32,
    nested: bool,
    non_ascii: bool,
}

fn gen_string(s: &mut Src, fl: &mut GenFlags) -> String {
    const POOL: [&str; 12] =
        ["", "a", "x y", "é", "日本語", "\"q\"\\", "\n\t\r", "\u{0}\u{1f}", "😀", "\u{2028}\u{feff}", "}{][,:", "Null"];
    const CH: [char; 16] =
        ['a', 'Z', '"', '\\', '\n', 'é', 'ß', '日', '😀', '\u{0}', '\u{7f}', '\u{80}', '\u{ffff}', '\u{10ffff}', '{', '}'];
    let out = if s.weighted(&[3, 1]) == 0 {
        POOL[s.below(POOL.len())].to_string()
    } else {
        let n = s.below(5);
        (0..n).map(|_| CH[s.below(CH.len())]).collect()
    };
    if !out.is_ascii() {
        fl.non_ascii = true;
    }
    out
}

fn gen_float(s: &mut Src, arb: bool, f2: bool, fl: &mut GenFlags) -> f64 {
    if !arb {
        // dyadic: exactly representable with a short decimal expansion
        return s.range(-64, 64) as f64 / 8.0;
    }
    let bits = s.bits64();
    if f2 {
        fl.f2_rewrites += 1;
        return ((bits >> 56) as u8 as i8) as f64 / 8.0;
    }
    fl.arb_float_used = true;
    let f = f64::from_bits(bits);
    if f.is_finite() {
        f
    } else {
        // clear the top exponent bit: always finite
        f64::from_bits(bits & !(1u64 << 62))
    }
}

fn gen_val(s: &mut Src, depth: u32, arb: bool, f2: bool, fl: &mut GenFlags) -> Value {
    let kinds = if depth >= 2 { 6 } else { 8 };
    match s.below(kinds) {
        0 => Value::Integer(s.pick(&[0i64, 1, 2, -1, 42, i64::MAX, i64::MIN, (1 << 53) + 1])),
        1 => Value::String(gen_string(s, fl)),
        2 => Value::Boolean(s.bool()),
        3 => Value::Null,
        4 => Value::Number(gen_float(s, arb, f2, fl)),
        5 => Value::Expression(gen_string(s, fl)),
        6 => {
            let n = s.below(4);
            Value::Array((0..n).map(|_| gen_val(s, depth + 1, arb, f2, fl)).collect())
        }
        _ => {
            fl.nested = true;
            let n = s.below(4);
            let mut m = HashMap::new();
            for _ in 0..n {
                let k = gen_string(s, fl);
                let v = gen_val(s, depth + 1, arb, f2, fl);
                m.insert(k, v);
            }
            Value::Object(m)
        }
    }
}

const TTLS: [u64; 4] = [2, 0, 1, 5];
const ADV: [u64; 6] = [1, 0, 2, 3, 5, 6];

/// What the generator knows about the history so far; only used to steer the weights towards
/// histories in which a restore can tell two checkpoints apart.
#[derive(Default)]
struct GenState {
    checkpoints: u32,
    /// a mutation happened since the last checkpoint
    dirty: bool,
    /// a TTL entry was written and the clock has not been advanced since the last checkpoint
    ttl_pending: bool,
}

fn gen_op(s: &mut Src, arb: bool, f2: bool, allow_restore: bool, g: &mut GenState, fl: &mut GenFlags) -> Op {
    // put, checkpoint, restore, advance, delete, update, put_with_ttl
    let w_cp = if g.checkpoints == 0 || g.dirty { 5 } else { 1 };
    let w_restore = if !allow_restore || g.checkpoints == 0 {
        0
    } else if g.checkpoints >= 2 {
        8
    } else {
        2
    };
    let w_adv = if g.ttl_pending && g.checkpoints > 0 { 5 } else { 2 };
    let w: [u32; 7] = [3, w_cp, w_restore, w_adv, 1, 2, 2];
    match s.weighted(&w) {
        0 => {
            g.dirty = true;
            Op::Put(s.below(3), gen_val(s, 0, arb, f2, fl))
        }
        1 => {
            g.checkpoints += 1;
            g.dirty = false;
            Op::Checkpoint { bump: false }
        }
        2 if allow_restore => Op::Restore(s.weighted(&[4, 1, 1, 1])),
        2 => Op::Checkpoint { bump: false },
        3 => {
            if g.checkpoints > 0 {
                g.ttl_pending = false;
            }
            Op::Advance(s.pick(&ADV))
        }
        4 => {
            g.dirty = true;
            Op::Delete(s.below(3))
        }
        5 => {
            g.dirty = true;
            Op::Update(s.below(3), gen_val(s, 0, arb, f2, fl))
        }
        _ => {
            g.dirty = true;
            g.ttl_pending = true;
            let k = s.below(3);
            let t = s.pick(&TTLS);
            Op::PutTtl(k, gen_val(s, 0, arb, f2, fl), t)
        }
    }
}

fn gen_keys(s: &mut Src) -> [String; 3] {
    if s.chance(1, 4) {
        ["".to_string(), "ключ \"k\"".to_string(), "k\n😀\\".to_string()]
    } else {
        ["a".to_string(), "b".to_string(), "c".to_string()]
    }
}

/// Rewrites the trigger of finding F1: a checkpoint taken in a millisecond that already
/// has one gets the clock moved forward by 1 ms first. Returns the number of rewrites.
fn apply_f1(ops: &mut [Op]) -> u32 {
    let mut now = T0;
    let mut used: Vec<u64> = Vec::new();
    let mut n = 0;
    for op in ops.iter_mut() {
        match op {
            Op::Advance(d) => now += *d,
            Op::Checkpoint { bump } => {
                if used.contains(&now) {
                    *bump = true;
                    now += 1;
                    n += 1;
                }
                used.push(now);
            }
            _ => {}
        }
    }
    n
}

fn finish_gen(case: &mut Case, fl: &GenFlags, ctx: &mut Ctx) {
    if excl_f1(ctx) && apply_f1(&mut case.ops) > 0 {
        ctx.exclude("F1-same-ms-checkpoint-id");
    }
    if fl.f2_rewrites > 0 {
        ctx.exclude("F2-arbitrary-f64-roundtrip");
    }
}

fn gen_hist(s: &mut Src, ctx: &mut Ctx, fl: &mut GenFlags) -> Case {
    if ctx.exh > 0 {
        // small alphabet, fixed configuration; the whole choice tree is enumerated
        let ops = (0..ctx.exh)
            .map(|_| match s.below(10) {
                0 => Op::Checkpoint { bump: false },
                1 => Op::Put(0, Value::Integer(1)),
                2 => Op::PutTtl(0, Value::String("t".into()), 1),
                3 => Op::Update(0, Value::Integer(2)),
                4 => Op::Delete(0),
                5 => Op::Restore(0),
                6 => Op::Restore(LAST),
                7 => Op::Advance(1),
                8 => Op::Advance(2),
                _ => Op::Put(1, Value::Boolean(true)),
            })
            .collect();
        let mut case =
            Case { keys: ["a".into(), "b".into(), "c".into()], max_cp: 2, default_ttl: None, arb_floats: false, ops };
        finish_gen(&mut case, fl, ctx);
        return case;
    }
    let keys = gen_keys(s);
    let max_cp = [10usize, 2, 3, 1][s.weighted(&[4, 3, 2, 1])];
    let default_ttl = if s.chance(1, 6) { Some(s.pick(&[2u64, 0, 5])) } else { None };
    let arb = s.chance(1, 8);
    let f2 = excl_f2(ctx);
    // two draws, the larger counts: long histories are the interesting ones, 0 stays the simplest
    let n = s.below(11).max(s.below(11));
    let mut g = GenState::default();
    let mut ops: Vec<Op> = (0..n).map(|_| gen_op(s, arb, f2, true, &mut g, fl)).collect();
    let mut default_ttl = default_ttl;
    // one history in three also calls cleanup_expired() somewhere (drawn after the steps: earlier encodings keep their meaning)
    if s.chance(1, 3) {
        let pos = s.below(ops.len() + 1);
        ops.insert(pos, Op::Cleanup);
    }
    // one in four tries to restore an id that does not exist
    if s.chance(1, 4) {
        let pos = s.below(ops.len() + 1);
        ops.insert(pos, Op::RestoreUnknown);
    }
    // Wide scale, drawn after everything else (byte-encoded cases written before this existed decode as before): one
    // case in four multiplies every TTL and every clock advance by K (a second, 1001 ms, a minute, an hour, a prime
    // near 10^6) and then moves each advance by -1, 0 or +1 ms, so that checkpoints and restores fall on, just before
    // and just after the expiry instants of TTLs far from the 0..5 ms of the small domain.
    if s.chance(1, 4) {
        let k = s.pick(&[1000u64, 1001, 60_000, 3_600_000, 999_983]);
        for op in ops.iter_mut() {
            match op {
                Op::PutTtl(_, _, t) => *t *= k,
                Op::Advance(a) => {
                    let j = s.below(3) as u64;
                    *a = (*a * k + j).saturating_sub(1);
                }
                _ => {}
            }
        }
        default_ttl = default_ttl.map(|t| t * k);
        wide_scale_label(ctx);
    }
    let mut case = Case { keys, max_cp, default_ttl, arb_floats: arb, ops };
    // One history in five (by the case's salt: no draw) deals in signed zeros: every written value becomes 0.0, -0.0,
    // [0.0] or [-0.0] in turn, so that a key is overwritten with the zero of the other sign between a checkpoint and
    // its restore. The two are different values (different bits, different text); equal only under `==`.
    if crate::core::case_bit(13) && crate::core::case_bit(17) && !crate::core::case_bit(23) || (crate::core::case_bit(5) && crate::core::case_bit(29) && crate::core::case_bit(31)) {
        let mut k = crate::core::case_bit(2) as usize;
        for op in case.ops.iter_mut() {
            if let Op::Put(_, v) | Op::PutTtl(_, v, _) | Op::Update(_, v) = op {
                *v = match k % 4 {
                    0 => Value::Number(0.0),
                    1 => Value::Number(-0.0),
                    2 => Value::Array(vec![Value::Number(-0.0)]),
                    _ => Value::Array(vec![Value::Number(0.0)]),
                };
                k += if crate::core::case_bit(3) { 1 } else { 2 } + (k % 2);
            }
        }
        ctx.label("signed-zeros");
    }
    finish_gen(&mut case, fl, ctx);
    case
}

fn wide_scale_label(ctx: &mut Ctx) {
    ctx.label("wide-scale-ttl-and-clock");
}

fn gen_crash(s: &mut Src, ctx: &mut Ctx, fl: &mut GenFlags) -> Case {
    let keys = gen_keys(s);
    let max_cp = s.pick(&[10usize, 2, 3]);
    let default_ttl = if s.chance(1, 8) { Some(s.pick(&[2u64, 0, 5])) } else { None };
    let arb = s.chance(1, 8);
    let f2 = excl_f2(ctx);
    let n = s.below(9).max(s.below(9));
    let mut g = GenState::default();
    let mut ops: Vec<Op> = (0..n).map(|_| gen_op(s, arb, f2, false, &mut g, fl)).collect();
    if s.chance(1, 3) {
        let pos = s.below(ops.len() + 1);
        ops.insert(pos, Op::Cleanup);
    }
    ops.push(Op::Checkpoint { bump: false }); // B, the interrupted one
    let mut case = Case { keys, max_cp, default_ttl, arb_floats: arb, ops };
    finish_gen(&mut case, fl, ctx);
    case
}

// ---------------------------------------------------------------------------
// rendering (deterministic: object keys sorted, floats with their bits)
// ---------------------------------------------------------------------------

fn fmt_val(v: &Value) -> String {
    match v {
        Value::String(s) => format!("Str({:?})", s),
        Value::Number(f) => format!("Num({:?}/0x{:016x})", f, f.to_bits()),
        Value::Integer(i) => format!("Int({})", i),
        Value::Boolean(b) => format!("Bool({})", b),
        Value::Null => "Null".into(),
        Value::Expression(s) => format!("Expr({:?})", s),
        Value::Array(a) => format!("[{}]", a.iter().map(fmt_val).collect::<Vec<_>>().join(", ")),
        Value::Object(m) => {
            let mut ks: Vec<&String> = m.keys().collect();
            ks.sort();
            format!("{{{}}}", ks.iter().map(|k| format!("{:?}: {}", k, fmt_val(&m[*k]))).collect::<Vec<_>>().join(", "))
        }
    }
}

fn fmt_obs(m: &Obs) -> String {
    format!("{{{}}}", m.iter().map(|(k, v)| format!("{:?}: {}", k, fmt_val(v))).collect::<Vec<_>>().join(", "))
}

fn fmt_case(c: &Case) -> String {
    let ops: Vec<String> = c
        .ops
        .iter()
        .map(|op| match op {
            Op::Put(k, v) => format!("put(k{}, {})", k, fmt_val(v)),
            Op::PutTtl(k, v, t) => format!("put_with_ttl(k{}, {}, {}ms)", k, fmt_val(v), t),
            Op::Update(k, v) => format!("update(k{}, {})", k, fmt_val(v)),
            Op::Delete(k) => format!("delete(k{})", k),
            Op::Checkpoint { bump: false } => "checkpoint".to_string(),
            Op::Checkpoint { bump: true } => "advance(1ms: F1 exclusion); checkpoint".to_string(),
            Op::Restore(LAST) => "restore(newest)".to_string(),
            Op::Restore(i) => format!("restore(#{} mod n, 0=oldest)", i),
            Op::Advance(d) => format!("advance({}ms)", d),
            Op::Cleanup => "cleanup_expired".to_string(),
            Op::RestoreUnknown => "restore(unknown id)".to_string(),
        })
        .collect();
    format!(
        "keys={:?} max_checkpoints={} default_ttl={:?} arbitrary_f64={} ops=[{}]",
        c.keys,
        c.max_cp,
        c.default_ttl,
        c.arb_floats,
        ops.join("; ")
    )
}

// ---------------------------------------------------------------------------
// observation and comparison
// ---------------------------------------------------------------------------

type Obs = BTreeMap<String, Value>;

/// exact equality: floats by bit pattern
fn same_val(a: &Value, b: &Value) -> bool {
    match (a, b) {
        (Value::Number(x), Value::Number(y)) => x.to_bits() == y.to_bits(),
        (Value::Array(x), Value::Array(y)) => x.len() == y.len() && x.iter().zip(y).all(|(p, q)| same_val(p, q)),
        (Value::Object(x), Value::Object(y)) => {
            x.len() == y.len() && x.iter().all(|(k, p)| y.get(k).map(|q| same_val(p, q)).unwrap_or(false))
        }
        (Value::Number(_), _) | (Value::Array(_), _) | (Value::Object(_), _) => false,
        _ => a == b,
    }
}

fn same_obs(a: &Obs, b: &Obs) -> bool {
    a.len() == b.len() && a.iter().all(|(k, p)| b.get(k).map(|q| same_val(p, q)).unwrap_or(false))
}

/// equality up to the last bits of floats: the signature of finding F2 (inexact f64 parsing)
fn near_val(a: &Value, b: &Value) -> bool {
    match (a, b) {
        (Value::Number(x), Value::Number(y)) => {
            x.is_sign_negative() == y.is_sign_negative() && (x.to_bits() as i128 - y.to_bits() as i128).abs() <= 2
        }
        (Value::Array(x), Value::Array(y)) => x.len() == y.len() && x.iter().zip(y).all(|(p, q)| near_val(p, q)),
        (Value::Object(x), Value::Object(y)) => {
            x.len() == y.len() && x.iter().all(|(k, p)| y.get(k).map(|q| near_val(p, q)).unwrap_or(false))
        }
        (Value::Number(_), _) | (Value::Array(_), _) | (Value::Object(_), _) => false,
        _ => a == b,
    }
}

/// ":f64-ulp" when two unequal observations differ only in floats that are at most 2 ulp apart
fn ulp_suffix(a: &Obs, b: &Obs) -> &'static str {
    if a.len() == b.len() && a.iter().all(|(k, p)| b.get(k).map(|q| near_val(p, q)).unwrap_or(false)) {
        ":f64-ulp"
    } else {
        ""
    }
}

/// suffix of a state-mismatch signature: the id collision explains it first, float inexactness second
fn mm_suffix(id_suffix: &'static str, got: &Obs, want: &Obs) -> &'static str {
    if !id_suffix.is_empty() {
        id_suffix
    } else {
        ulp_suffix(got, want)
    }
}

/// What the store observably holds right now: keys() + get + len, cross-checked.
fn observe(store: &StateStore, probe: &[String]) -> Result<Obs, Verdict> {
    let bad = |d: String| Verdict::fail("observe-inconsistent", d);
    let mut ks = store.keys();
    ks.sort();
    if ks.windows(2).any(|w| w[0] == w[1]) {
        return Err(bad(format!("keys() lists a key twice: {:?}", ks)));
    }
    let mut m = Obs::new();
    for k in &ks {
        match store.get(k) {
            Ok(Some(v)) => {
                m.insert(k.clone(), v);
            }
            Ok(None) => return Err(bad(format!("keys() lists {:?} but get() returns None at the same instant", k))),
            Err(e) => return Err(bad(format!("get({:?}) returned Err: {}", k, e))),
        }
    }
    let n = store.len();
    if n != m.len() {
        return Err(bad(format!("len() = {} but keys() has {} entries", n, m.len())));
    }
    for k in probe {
        if !m.contains_key(k) {
            match store.get(k) {
                Ok(None) => {}
                Ok(Some(v)) => return Err(bad(format!("get({:?}) = {} but keys() does not list it", k, fmt_val(&v)))),
                Err(e) => return Err(bad(format!("get({:?}) returned Err: {}", k, e))),
            }
        }
    }
    Ok(m)
}

// ---------------------------------------------------------------------------
// executor: real store + model
// ---------------------------------------------------------------------------

struct MEntry {
    val: Value,
    created: u64,
    ttl: Option<u64>,
}

#[derive(PartialEq)]
enum Life {
    Live,
    /// now == created + ttl: the statement does not say on which side the boundary falls
    Boundary,
    Expired,
}

impl MEntry {
    fn life(&self, now: u64) -> Life {
        match self.ttl {
            None => Life::Live,
            Some(t) => {
                let end = self.created + t;
                if now < end {
                    Life::Live
                } else if now == end {
                    Life::Boundary
                } else {
                    Life::Expired
                }
            }
        }
    }
}

struct Cp {
    id: String,
    rec: Obs,
    at: u64,
    /// expiry instants of the recorded entries that carried a TTL
    expiries: Vec<u64>,
}

struct ClockGuard;
impl Drop for ClockGuard {
    fn drop(&mut self) {
        set_clock_ms(None);
    }
}

struct DirGuard(PathBuf);
impl Drop for DirGuard {
    fn drop(&mut self) {
        let _ = std::fs::remove_dir_all(&self.0);
    }
}

static THREAD_NO: AtomicU64 = AtomicU64::new(0);

thread_local! {
    /// per-thread parent directory (threads do not contend on one directory lock) and case counter
    static BASE: std::cell::RefCell<Option<(PathBuf, u64)>> = const { std::cell::RefCell::new(None) };
}

/// a fresh (not yet existing) directory path for one case; removed when the guard drops
fn fresh_dir() -> DirGuard {
    BASE.with(|b| {
        let mut b = b.borrow_mut();
        let (base, n) = b.get_or_insert_with(|| {
            let t = THREAD_NO.fetch_add(1, Ordering::Relaxed);
            let d = scratch_dir().join(format!("c20-{}-t{}", std::process::id(), t));
            let _ = std::fs::create_dir_all(&d);
            (d, 0)
        });
        *n += 1;
        let d = base.join(format!("{}", n));
        // not created here: the store creates it with its first checkpoint (most enumerated
        // histories never write a file)
        let _ = std::fs::remove_dir_all(&d);
        DirGuard(d)
    })
}

struct Exec {
    store: StateStore,
    keys: [String; 3],
    max_cp: usize,
    default_ttl: Option<u64>,
    now: u64,
    model: BTreeMap<String, MEntry>,
    cps: Vec<Cp>,
    nontrivial: bool,
    /// first "ids not distinct" failure; reported at the end unless a consequence of it fails first
    pending: Option<Verdict>,
}

impl Exec {
    fn new(case: &Case, path: &Path) -> Exec {
        let cfg = StateConfig {
            backend: StateBackend::File { path: path.to_path_buf() },
            max_checkpoints: case.max_cp,
            enable_ttl: case.default_ttl.is_some(),
            default_ttl: Duration::from_millis(case.default_ttl.unwrap_or(3_600_000)),
            ..Default::default()
        };
        set_clock_ms(Some(T0));
        Exec {
            store: StateStore::with_config(cfg),
            keys: case.keys.clone(),
            max_cp: case.max_cp,
            default_ttl: case.default_ttl,
            now: T0,
            model: BTreeMap::new(),
            cps: Vec::new(),
            nontrivial: false,
            pending: None,
        }
    }

    fn retained(&self, idx: usize) -> bool {
        idx + self.max_cp >= self.cps.len()
    }

    /// ":same-ms-id" when another checkpoint call made in the same clock millisecond returned the same id
    fn suffix(&self, idx: usize) -> &'static str {
        let c = &self.cps[idx];
        if self.cps.iter().enumerate().any(|(j, o)| j != idx && o.id == c.id && o.at == c.at) {
            ":same-ms-id"
        } else {
            ""
        }
    }

    fn model_check(&self, obs: &Obs, step: usize) -> Result<(), Verdict> {
        let bad = |d: String| {
            Err(Verdict::fail(
                "store-vs-model",
                format!("step {}: store observably holds {} but {}", step, fmt_obs(obs), d),
            ))
        };
        for (k, e) in &self.model {
            match (e.life(self.now), obs.get(k)) {
                (Life::Live, Some(v)) | (Life::Boundary, Some(v)) => {
                    if !same_val(v, &e.val) {
                        return bad(format!("the model has {:?} = {}", k, fmt_val(&e.val)));
                    }
                }
                (Life::Live, None) => return bad(format!("the model has unexpired {:?} = {}", k, fmt_val(&e.val))),
                (Life::Expired, Some(_)) => return bad(format!("{:?} expired in the model", k)),
                (Life::Boundary, None) | (Life::Expired, None) => {}
            }
        }
        for k in obs.keys() {
            if !self.model.contains_key(k) {
                return bad(format!("the model has no key {:?}", k));
            }
        }
        Ok(())
    }

    fn step(&mut self, i: usize, op: &Op, ctx: &mut Ctx) -> Result<(), Verdict> {
        match op {
            Op::Advance(d) => {
                self.now += *d;
                set_clock_ms(Some(self.now));
                if *d == 0 {
                    ctx.label("advance-0");
                }
            }
            Op::Put(k, v) => {
                let key = self.keys[*k].clone();
                if let Err(e) = self.store.put(key.clone(), v.clone()) {
                    return Err(Verdict::fail("put-err", format!("step {}: put returned Err: {}", i, e)));
                }
                if self.default_ttl.is_some() {
                    ctx.label("put-with-default-ttl");
                }
                self.model.insert(key, MEntry { val: v.clone(), created: self.now, ttl: self.default_ttl });
            }
            Op::PutTtl(k, v, t) => {
                let key = self.keys[*k].clone();
                if let Err(e) = self.store.put_with_ttl(key.clone(), v.clone(), Duration::from_millis(*t)) {
                    return Err(Verdict::fail("put-err", format!("step {}: put_with_ttl returned Err: {}", i, e)));
                }
                self.model.insert(key, MEntry { val: v.clone(), created: self.now, ttl: Some(*t) });
            }
            Op::Update(k, v) => {
                let key = self.keys[*k].clone();
                let r = self.store.update(&key, v.clone());
                let life = self.model.get(&key).map(|e| e.life(self.now));
                match (life, r.is_ok()) {
                    (Some(Life::Live), true) | (Some(Life::Boundary), true) => {
                        self.model.get_mut(&key).unwrap().val = v.clone();
                        ctx.label("update-ok");
                    }
                    (Some(Life::Boundary), false) | (Some(Life::Expired), false) | (None, false) => {
                        ctx.label("update-err");
                    }
                    (Some(Life::Live), false) => {
                        return Err(Verdict::fail(
                            "update-err-on-live-key",
                            format!("step {}: update({:?}) returned Err but the key is unexpired in the model", i, key),
                        ));
                    }
                    (Some(Life::Expired), true) | (None, true) => {
                        return Err(Verdict::fail(
                            "update-ok-on-absent-key",
                            format!("step {}: update({:?}) returned Ok but the key is absent/expired in the model", i, key),
                        ));
                    }
                }
            }
            Op::Delete(k) => {
                let key = self.keys[*k].clone();
                if let Err(e) = self.store.delete(&key) {
                    return Err(Verdict::fail("delete-err", format!("step {}: delete returned Err: {}", i, e)));
                }
                self.model.remove(&key);
            }
            Op::Checkpoint { bump } => {
                if *bump {
                    self.now += 1;
                    set_clock_ms(Some(self.now));
                }
                self.checkpoint(i, ctx)?;
            }
            Op::Restore(sel) => self.restore(i, *sel, ctx)?,
            Op::RestoreUnknown => {
                let before = observe(&self.store, &self.keys)?;
                let listed_before: Vec<String> = self.store.list_checkpoints().iter().map(|c| c.id.clone()).collect();
                let r = self.store.restore("checkpoint_0_never_handed_out");
                let after = observe(&self.store, &self.keys)?;
                if r.is_ok() {
                    return Err(Verdict::fail("restore-unknown-id-ok", format!("step {}: restore of an id that was never handed out returned Ok", i)));
                }
                let listed_after: Vec<String> = self.store.list_checkpoints().iter().map(|c| c.id.clone()).collect();
                if !same_obs(&before, &after) || listed_before != listed_after {
                    return Err(Verdict::fail(
                        "failed-restore-changed-state",
                        format!("step {}: the failed restore changed the store from {} to {} (checkpoints listed {:?} -> {:?})", i, fmt_obs(&before), fmt_obs(&after), listed_before, listed_after),
                    ));
                }
                ctx.label("restore-of-unknown-id");
            }
            Op::Cleanup => {
                let before = observe(&self.store, &self.keys)?;
                let _ = self.store.cleanup_expired();
                let after = observe(&self.store, &self.keys)?;
                if !same_obs(&before, &after) {
                    return Err(Verdict::fail(
                        "cleanup-changed-observable-state",
                        format!("step {}: cleanup_expired() changed what the store observably holds from {} to {}", i, fmt_obs(&before), fmt_obs(&after)),
                    ));
                }
                self.model_check(&after, i)?;
                ctx.label("cleanup_expired");
            }
        }
        Ok(())
    }

    fn checkpoint(&mut self, i: usize, ctx: &mut Ctx) -> Result<(), Verdict> {
        let before = observe(&self.store, &self.keys)?;
        self.model_check(&before, i)?;
        if self.model.values().any(|e| e.life(self.now) == Life::Boundary) {
            ctx.label("checkpoint-at-ttl-boundary");
        }
        if self.model.values().any(|e| e.life(self.now) == Life::Expired) {
            ctx.label("checkpoint-with-expired-entry");
        }
        let id = match self.store.checkpoint(format!("cp{}", self.cps.len())) {
            Ok(id) => id,
            Err(e) => return Err(Verdict::fail("checkpoint-err", format!("step {}: checkpoint returned Err: {}", i, e))),
        };
        let after = observe(&self.store, &self.keys)?;
        if !same_obs(&before, &after) {
            return Err(Verdict::fail(
                "checkpoint-changed-live-state",
                format!("step {}: live state {} before checkpoint, {} after", i, fmt_obs(&before), fmt_obs(&after)),
            ));
        }
        let expiries = self
            .model
            .iter()
            .filter(|(k, e)| e.ttl.is_some() && before.contains_key(*k))
            .map(|(_, e)| e.created + e.ttl.unwrap())
            .collect();
        if self.cps.iter().any(|c| c.at == self.now) {
            ctx.label("two-checkpoints-same-ms");
            self.nontrivial = true;
        }
        self.cps.push(Cp { id, rec: before, at: self.now, expiries });
        let n = self.cps.len();
        let me = n - 1;
        // listing
        let listed = self.store.list_checkpoints();
        if listed.len() != n.min(self.max_cp) {
            return Err(Verdict::fail(
                "list-count",
                format!(
                    "step {}: list_checkpoints has {} entries after {} checkpoints with max_checkpoints={}",
                    i,
                    listed.len(),
                    n,
                    self.max_cp
                ),
            ));
        }
        if n > self.max_cp {
            ctx.label("retention-hit");
        }
        for m in &listed {
            if !self.cps.iter().any(|c| c.id == m.id) {
                return Err(Verdict::fail(
                    "list-unknown-id",
                    format!("step {}: list_checkpoints contains {:?}, which no checkpoint call returned", i, m.id),
                ));
            }
        }
        for a in 0..listed.len() {
            for b in a + 1..listed.len() {
                if listed[a].id == listed[b].id && self.pending.is_none() {
                    let idx = self.cps.iter().rposition(|c| c.id == listed[a].id).unwrap_or(me);
                    // not returned at once: the history goes on so that a consequence (wrong state
                    // restored, earlier checkpoint destroyed) is reported in preference
                    self.pending = Some(Verdict::fail(
                        format!("ids-not-distinct{}", self.suffix(idx)),
                        format!(
                            "step {}: two checkpoint calls that are both still listed returned the same id {:?} (clock at the calls: {:?})",
                            i,
                            listed[a].id,
                            self.cps.iter().filter(|c| c.id == listed[a].id).map(|c| c.at).collect::<Vec<_>>()
                        ),
                    ));
                }
            }
        }
        Ok(())
    }

    fn restore(&mut self, i: usize, sel: usize, ctx: &mut Ctx) -> Result<(), Verdict> {
        if self.cps.is_empty() {
            ctx.label("restore-skipped-no-checkpoint");
            return Ok(());
        }
        let n = self.cps.len();
        let idx = if sel == LAST { n - 1 } else { sel % n };
        let before = observe(&self.store, &self.keys)?;
        let r = self.store.restore(&self.cps[idx].id);
        let after = observe(&self.store, &self.keys)?;
        let retained = self.retained(idx);
        match r {
            Ok(()) => {
                let cp = &self.cps[idx];
                if !same_obs(&after, &cp.rec) {
                    return Err(Verdict::fail(
                        format!("restore-mismatch{}", mm_suffix(self.suffix(idx), &after, &cp.rec)),
                        format!(
                            "step {}: restore({:?}) [checkpoint #{} of {}] gives {} but the store held {} when it was taken",
                            i,
                            cp.id,
                            idx,
                            n,
                            fmt_obs(&after),
                            fmt_obs(&cp.rec)
                        ),
                    ));
                }
                if !retained {
                    ctx.label("restore-retired-ok");
                }
                if idx + 1 < n {
                    ctx.label("restore-older");
                }
                if (idx + 1..n).any(|j| !same_obs(&self.cps[j].rec, &cp.rec)) {
                    ctx.label("restore-older-after-mutation-and-newer-checkpoint");
                    self.nontrivial = true;
                }
                if !same_obs(&before, &cp.rec) {
                    ctx.label("restore-changes-live-state");
                }
                if cp.expiries.iter().any(|e| self.now > *e) {
                    ctx.label("ttl-expired-between-checkpoint-and-restore");
                    self.nontrivial = true;
                }
                let now = self.now;
                self.model =
                    cp.rec.iter().map(|(k, v)| (k.clone(), MEntry { val: v.clone(), created: now, ttl: None })).collect();
            }
            Err(e) => {
                if retained {
                    return Err(Verdict::fail(
                        format!("restore-err{}", self.suffix(idx)),
                        format!(
                            "step {}: restore({:?}) [checkpoint #{} of {}, within max_checkpoints={}] returned Err: {}",
                            i, self.cps[idx].id, idx, n, self.max_cp, e
                        ),
                    ));
                }
                // removed by retention: the statement only forbids a partial state
                ctx.label("restore-retired-err");
                if !same_obs(&before, &after) {
                    return Err(Verdict::fail(
                        "failed-restore-changed-live-state",
                        format!("step {}: restore returned Err but the live state went from {} to {}", i, fmt_obs(&before), fmt_obs(&after)),
                    ));
                }
            }
        }
        Ok(())
    }

    /// every listed id restores, to the recording of the call that returned it
    fn final_listed_restore(&mut self) -> Result<(), Verdict> {
        let listed = self.store.list_checkpoints();
        for m in &listed {
            let idx = match self.cps.iter().rposition(|c| c.id == m.id) {
                Some(x) => x,
                None => continue,
            };
            let r = self.store.restore(&m.id);
            if let Err(e) = r {
                return Err(Verdict::fail(
                    format!("listed-id-does-not-restore{}", self.suffix(idx)),
                    format!("end: list_checkpoints contains {:?} but restore returned Err: {}", m.id, e),
                ));
            }
            let obs = observe(&self.store, &self.keys)?;
            if !same_obs(&obs, &self.cps[idx].rec) {
                return Err(Verdict::fail(
                    format!("restore-mismatch{}", mm_suffix(self.suffix(idx), &obs, &self.cps[idx].rec)),
                    format!(
                        "end: restore({:?}) [checkpoint #{}] gives {} but the store held {} when it was taken",
                        m.id,
                        idx,
                        fmt_obs(&obs),
                        fmt_obs(&self.cps[idx].rec)
                    ),
                ));
            }
        }
        Ok(())
    }
}

fn class_labels(case: &Case, fl: &GenFlags, ctx: &mut Ctx) {
    if fl.arb_float_used {
        ctx.label("class:arbitrary-f64");
    }
    if fl.nested {
        ctx.label("nested-object");
    }
    if fl.non_ascii {
        ctx.label("non-ascii-string");
    }
    if !case.keys[0].is_ascii() || case.keys[0].is_empty() {
        ctx.label("exotic-keys");
    }
    if case.max_cp < 10 {
        ctx.label("small-max-checkpoints");
    }
}

// ---------------------------------------------------------------------------
// part: histories
// ---------------------------------------------------------------------------

pub fn run_hist(s: &mut Src, ctx: &mut Ctx) -> Verdict {
    let mut fl = GenFlags::default();
    let case = gen_hist(s, ctx, &mut fl);
    if probe_only() {
        return Verdict::Pass;
    }
    ctx.describe(|| fmt_case(&case));
    class_labels(&case, &fl, ctx);
    let dir = fresh_dir();
    let _clock = ClockGuard;
    let mut ex = Exec::new(&case, &dir.0);
    for (i, op) in case.ops.iter().enumerate() {
        if let Err(v) = ex.step(i, op, ctx) {
            return v;
        }
    }
    if let Err(v) = ex.final_listed_restore() {
        return v;
    }
    if let Some(v) = ex.pending.take() {
        return v;
    }
    if ex.cps.len() >= 2 {
        ctx.label("two-or-more-checkpoints");
    }
    if ex.nontrivial {
        ctx.nontrivial(hash_str(&fmt_case(&case)));
    }
    Verdict::Pass
}

// ---------------------------------------------------------------------------
// part: crash-state enumeration
// ---------------------------------------------------------------------------

/// directory name -> content of its state.json (None: directory without that file)
fn snapshot(path: &Path) -> BTreeMap<String, Option<Vec<u8>>> {
    let mut m = BTreeMap::new();
    if let Ok(rd) = std::fs::read_dir(path) {
        for e in rd.flatten() {
            let name = e.file_name().to_string_lossy().into_owned();
            m.insert(name, std::fs::read(e.path().join("state.json")).ok());
        }
    }
    m
}

struct CrashJudge<'a> {
    path: &'a Path,
    keys: &'a [String; 3],
    b: &'a Cp,
    /// earlier checkpoints that are retained once B is complete: (recording, id, sig suffix)
    earlier: Vec<(&'a Cp, &'static str)>,
    restores: u64,
}

impl CrashJudge<'_> {
    /// `judge_b`: whether restore(B) is judged in this state; `b_must_restore`: B is complete, Err is not acceptable
    fn judge(&mut self, state: &str, judge_b: bool, b_must_restore: bool) -> Result<(), Verdict> {
        // what a restarted process has: a new store on the same path, with some live state of its own
        let mut st = StateStore::new(StateBackend::File { path: self.path.to_path_buf() });
        let _ = st.put("~sentinel", Value::Integer(-7));
        let _ = st.put(self.keys[0].clone(), Value::String("live".into()));
        let sentinel = observe(&st, self.keys)?;
        let mut live = sentinel;
        let check_b = |st: &mut StateStore, live: &mut Obs, restores: &mut u64| -> Result<(), Verdict> {
            if !judge_b {
                return Ok(());
            }
            *restores += 1;
            let r = st.restore(&self.b.id);
            let obs = observe(st, self.keys)?;
            match r {
                Ok(()) => {
                    if !same_obs(&obs, &self.b.rec) {
                        return Err(Verdict::fail(
                            format!("crash:partial-or-wrong-state{}", ulp_suffix(&obs, &self.b.rec)),
                            format!(
                                "crash state [{}]: restore of the interrupted checkpoint {:?} returned Ok with {} but its complete state is {}",
                                state,
                                self.b.id,
                                fmt_obs(&obs),
                                fmt_obs(&self.b.rec)
                            ),
                        ));
                    }
                    *live = obs;
                }
                Err(e) => {
                    if b_must_restore {
                        return Err(Verdict::fail(
                            "crash:complete-checkpoint-does-not-restore",
                            format!("state [{}]: checkpoint {:?} is completely written but restore returned Err: {}", state, self.b.id, e),
                        ));
                    }
                    if !same_obs(&obs, live) {
                        return Err(Verdict::fail(
                            "crash:failed-restore-changed-live-state",
                            format!(
                                "crash state [{}]: restore({:?}) returned Err ({}) but the live state went from {} to {}",
                                state,
                                self.b.id,
                                e,
                                fmt_obs(live),
                                fmt_obs(&obs)
                            ),
                        ));
                    }
                }
            }
            Ok(())
        };
        check_b(&mut st, &mut live, &mut self.restores)?;
        for (a, suffix) in &self.earlier {
            self.restores += 1;
            let r = st.restore(&a.id);
            let obs = observe(&st, self.keys)?;
            match r {
                Ok(()) if same_obs(&obs, &a.rec) => live = obs,
                Ok(()) => {
                    return Err(Verdict::fail(
                        format!("crash:earlier-checkpoint-damaged{}", mm_suffix(suffix, &obs, &a.rec)),
                        format!(
                            "crash state [{}] of checkpoint {:?}: restore of the earlier checkpoint {:?} gives {} but it recorded {}",
                            state,
                            self.b.id,
                            a.id,
                            fmt_obs(&obs),
                            fmt_obs(&a.rec)
                        ),
                    ))
                }
                Err(e) => {
                    return Err(Verdict::fail(
                        format!("crash:earlier-checkpoint-damaged{}", suffix),
                        format!(
                            "crash state [{}] of checkpoint {:?}: restore of the earlier checkpoint {:?} returned Err: {}",
                            state, self.b.id, a.id, e
                        ),
                    ))
                }
            }
            check_b(&mut st, &mut live, &mut self.restores)?;
        }
        Ok(())
    }
}

fn copy_tree(from: &Path, to: &Path) -> std::io::Result<()> {
    std::fs::create_dir_all(to)?;
    for e in std::fs::read_dir(from)? {
        let e = e?;
        let dst = to.join(e.file_name());
        if e.file_type()?.is_dir() {
            copy_tree(&e.path(), &dst)?;
        } else {
            std::fs::copy(e.path(), &dst)?;
        }
    }
    Ok(())
}

impl CrashJudge<'_> {
    /// The restarted process goes on working: on a COPY of the crash state (the enumeration continues on the
    /// original) a new store takes a checkpoint C of its own state, the clock still showing the millisecond of the
    /// interrupted checkpoint B. C is a different checkpoint taken at a different moment: afterwards restore(B's id)
    /// must still give B's complete state or an error (never C's), restore(C) gives C's state, C's id is none of the
    /// earlier ids, and every earlier checkpoint still restores exactly.
    fn judge_restart(&mut self, state: &str, b_complete: bool, b_left_a_trace: bool) -> Result<(), Verdict> {
        let copy = DirGuard(self.path.with_extension("restart"));
        let _ = std::fs::remove_dir_all(&copy.0);
        if let Err(e) = copy_tree(self.path, &copy.0) {
            return Err(Verdict::fail("harness-io", format!("copy crash state: {}", e)));
        }
        let mut st = StateStore::new(StateBackend::File { path: copy.0.clone() });
        let _ = st.put("~restarted", Value::Integer(11));
        let c_rec = observe(&st, self.keys)?;
        let c_id = match st.checkpoint("after-restart") {
            Ok(id) => id,
            Err(_) => return Ok(()), // refusing to checkpoint next to the leftovers is not a violation
        };
        if c_id == self.b.id || self.earlier.iter().any(|(a, _)| a.id == c_id) {
            // handing out the id of an earlier or interrupted checkpoint: only a violation if it makes them indistinguishable,
            // which the restores below decide; remember it for the message
        }
        self.restores += 1;
        // without a trace on disk (crash before create_dir_all) nothing identifies the interrupted checkpoint: its id was
        // never returned to anybody, and a new checkpoint may carry it
        let r = if b_left_a_trace { st.restore(&self.b.id) } else { Err(rust_rule_engine::errors::RuleEngineError::ParseError { message: "not asked: no trace of the interrupted checkpoint on disk".into() }) };
        let obs = observe(&st, self.keys)?;
        match r {
            Ok(()) if same_obs(&obs, &self.b.rec) => {}
            Ok(()) => {
                return Err(Verdict::fail(
                    "crash:interrupted-id-restores-another-state-after-restart",
                    format!(
                        "crash state [{}]: a restarted store took checkpoint {:?} in the same millisecond; restore of the interrupted checkpoint {:?} then returned Ok with {} but its complete state is {} (the new checkpoint recorded {})",
                        state,
                        c_id,
                        self.b.id,
                        fmt_obs(&obs),
                        fmt_obs(&self.b.rec),
                        fmt_obs(&c_rec)
                    ),
                ))
            }
            Err(e) => {
                if b_complete && b_left_a_trace {
                    return Err(Verdict::fail(
                        "crash:complete-checkpoint-does-not-restore",
                        format!("state [{}], after a restarted store took checkpoint {:?}: checkpoint {:?} is completely written but restore returned Err: {}", state, c_id, self.b.id, e),
                    ));
                }
            }
        }
        self.restores += 1;
        if c_id != self.b.id {
            let r = st.restore(&c_id);
            let obs = observe(&st, self.keys)?;
            if r.is_err() || !same_obs(&obs, &c_rec) {
                return Err(Verdict::fail(
                    "crash:checkpoint-after-restart-does-not-restore",
                    format!("crash state [{}]: checkpoint {:?} taken by the restarted store restores to {:?} / {} but recorded {}", state, c_id, r.err(), fmt_obs(&obs), fmt_obs(&c_rec)),
                ));
            }
        }
        // the restarted store keeps checkpointing in the same millisecond (a burst): two more, each of another state.
        // None of them may carry the id of a checkpoint of the earlier store that is still retained there, each
        // restores to its own recording, and the earlier ones are untouched (checked below).
        let mut burst: Vec<(String, Obs)> = vec![(c_id.clone(), c_rec.clone())];
        for k in 0..2 {
            let _ = st.put("~restarted", Value::Integer(12 + k));
            let rec = observe(&st, self.keys)?;
            match st.checkpoint(format!("after-restart-{}", k + 2)) {
                Ok(id) => burst.push((id, rec)),
                Err(_) => break,
            }
        }
        for (i, (id, _)) in burst.iter().enumerate() {
            if burst.iter().skip(i + 1).any(|(o, _)| o == id) || self.earlier.iter().any(|(a, _)| &a.id == id) || (b_complete && b_left_a_trace && id == &self.b.id) {
                return Err(Verdict::fail(
                    "crash:checkpoint-id-reused-after-restart",
                    format!(
                        "crash state [{}]: a restarted store checkpointing {} times in one millisecond handed out {:?}, which is also the id of {}",
                        state,
                        burst.len(),
                        id,
                        if burst.iter().skip(i + 1).any(|(o, _)| o == id) { "another checkpoint of the same burst" } else { "a retained checkpoint of the earlier store" }
                    ),
                ));
            }
        }
        // only the newest of the burst is certainly still retained by the restarted store's own retention
        if let Some((id, rec)) = burst.last() {
            if burst.len() > 1 {
                self.restores += 1;
                let r = st.restore(id);
                let obs = observe(&st, self.keys)?;
                if r.is_err() || !same_obs(&obs, rec) {
                    return Err(Verdict::fail(
                        "crash:checkpoint-after-restart-does-not-restore",
                        format!("crash state [{}]: checkpoint {:?} (number {} of a same-millisecond burst after the restart) restores to {:?} / {} but recorded {}", state, id, burst.len(), r.err(), fmt_obs(&obs), fmt_obs(rec)),
                    ));
                }
            }
        }
        for (a, suffix) in &self.earlier {
            self.restores += 1;
            let r = st.restore(&a.id);
            let obs = observe(&st, self.keys)?;
            if r.is_err() || !same_obs(&obs, &a.rec) {
                return Err(Verdict::fail(
                    format!("crash:earlier-checkpoint-damaged-after-restart{}", mm_suffix(suffix, &obs, &a.rec)),
                    format!(
                        "crash state [{}] of checkpoint {:?}, after a restarted store took checkpoint {:?}: restore of the earlier checkpoint {:?} gives {:?} / {} but it recorded {}",
                        state,
                        self.b.id,
                        c_id,
                        a.id,
                        r.err(),
                        fmt_obs(&obs),
                        fmt_obs(&a.rec)
                    ),
                ));
            }
        }
        Ok(())
    }
}

pub fn run_crash(s: &mut Src, ctx: &mut Ctx) -> Verdict {
    let mut fl = GenFlags::default();
    let case = gen_crash(s, ctx, &mut fl);
    if probe_only() {
        return Verdict::Pass;
    }
    ctx.describe(|| fmt_case(&case));
    class_labels(&case, &fl, ctx);
    let dir = fresh_dir();
    let path = dir.0.clone();
    let _clock = ClockGuard;
    let mut ex = Exec::new(&case, &path);
    let last = case.ops.len() - 1;
    for (i, op) in case.ops[..last].iter().enumerate() {
        if let Err(v) = ex.step(i, op, ctx) {
            return v;
        }
    }
    let pre = snapshot(&path);
    if let Err(v) = ex.step(last, &case.ops[last], ctx) {
        return v;
    }
    let post = snapshot(&path);
    let nb = ex.cps.len() - 1;
    let b = &ex.cps[nb];
    let b_dir = path.join(&b.id);
    let b_file = b_dir.join("state.json");
    let earlier: Vec<(&Cp, &'static str)> =
        (0..nb).filter(|j| ex.retained(*j)).map(|j| (&ex.cps[j], ex.suffix(j))).collect();
    let n_earlier = earlier.len();
    let distinct_earlier = earlier.iter().any(|(a, _)| !same_obs(&a.rec, &b.rec));
    let mut j = CrashJudge { path: &path, keys: &case.keys, b, earlier, restores: 0 };
    let io = |what: &str, e: std::io::Error| Verdict::fail("harness-io", format!("{}: {}", what, e));

    // (0) the checkpoint as completed: judged before anything is assumed about the layout
    if let Err(v) = j.judge("complete, retention done", true, true) {
        return v;
    }
    if let Err(v) = j.judge_restart("complete, retention done", true, true) {
        return v;
    }
    // the write sequence the enumeration assumes: one directory per checkpoint holding only state.json.
    // Where the layout is different the oracle cannot construct crash states and refuses to judge.
    let refuse = |why: &'static str| ex.pending.clone().unwrap_or(Verdict::Discard(why));
    let json = match post.get(&b.id) {
        Some(Some(j)) => j.clone(),
        _ => return refuse("assumed-layout: <path>/<id>/state.json not found after checkpoint"),
    };
    let entries = std::fs::read_dir(&b_dir).map(|d| d.count()).unwrap_or(0);
    if entries != 1 {
        return refuse("assumed-layout: checkpoint directory holds more than state.json");
    }
    let removed: Vec<&String> = pre.keys().filter(|k| !post.contains_key(*k)).collect();
    let added: Vec<&String> = post.keys().filter(|k| !pre.contains_key(*k)).collect();
    let shared = pre.contains_key(&b.id);
    if removed.len() > 1 || added.len() > 1 || (!shared && added != vec![&b.id]) || (shared && !added.is_empty()) {
        return refuse("assumed-layout: checkpoint touched other directories than its own and one retired");
    }
    for (k, v) in &pre {
        if *k != b.id && post.get(k).map(|p| p != v).unwrap_or(false) {
            return refuse("assumed-layout: checkpoint rewrote another checkpoint's file");
        }
    }
    let n = json.len();
    // (1) written completely, retention not yet done: the retired directory is still there
    let retired = removed.first().map(|name| (path.join(name), pre[*name].clone()));
    if let Some((rdir, content)) = &retired {
        ctx.label("crash:retention-at-B");
        if let Err(e) = std::fs::create_dir_all(rdir) {
            return io("recreate retired dir", e);
        }
        if let Some(c) = content {
            if let Err(e) = std::fs::write(rdir.join("state.json"), c) {
                return io("recreate retired file", e);
            }
        }
        if let Err(v) = j.judge("state.json complete, retention pending", true, false) {
            return v;
        }
    }
    // (2) state.json truncated at every length n-1 .. 0 (write_all interrupted; File::create done)
    {
        let f = match std::fs::OpenOptions::new().write(true).open(&b_file) {
            Ok(f) => f,
            Err(e) => return io("open state.json", e),
        };
        for k in (0..n).rev() {
            if let Err(e) = f.set_len(k as u64) {
                return io("truncate", e);
            }
            if let Err(v) = j.judge(&format!("state.json truncated to {} of {} bytes", k, n), true, false) {
                return v;
            }
            if k == 0 || k == n / 2 || k + 1 == n {
                if let Err(v) = j.judge_restart(&format!("state.json truncated to {} of {} bytes", k, n), false, true) {
                    return v;
                }
            }
        }
    }
    if shared {
        // the directory existed before (same id as an earlier checkpoint): the state before
        // File::create is the old file. restore(B's id) is not judged here: that id was never handed out.
        ctx.label("crash:shared-directory");
        if let Some(Some(old)) = pre.get(&b.id) {
            if let Err(e) = std::fs::write(&b_file, old) {
                return io("rewrite old file", e);
            }
            if let Err(v) = j.judge("before File::create, directory shared with an earlier checkpoint", false, false) {
                return v;
            }
        }
    } else {
        // (3) directory created, file not yet; (4) nothing created
        if let Err(e) = std::fs::remove_file(&b_file) {
            return io("remove state.json", e);
        }
        if let Err(v) = j.judge("empty checkpoint directory", true, false) {
            return v;
        }
        if let Err(v) = j.judge_restart("empty checkpoint directory", false, true) {
            return v;
        }
        if let Err(e) = std::fs::remove_dir(&b_dir) {
            return io("remove checkpoint dir", e);
        }
        if let Err(v) = j.judge("no checkpoint directory", true, false) {
            return v;
        }
        if let Err(v) = j.judge_restart("no checkpoint directory", false, false) {
            return v;
        }
        if let Err(e) = std::fs::create_dir_all(&b_dir) {
            return io("recreate checkpoint dir", e);
        }
    }
    // (5) retention delete interrupted: B complete, retired directory emptied but not removed
    if let Some((rdir, _)) = &retired {
        if let Err(e) = std::fs::write(&b_file, &json) {
            return io("rewrite state.json", e);
        }
        let _ = std::fs::remove_file(rdir.join("state.json"));
        if let Err(v) = j.judge("complete, retired directory emptied but not removed", true, true) {
            return v;
        }
    }
    let _ = j.restores;
    if let Some(v) = ex.pending.clone() {
        return v;
    }
    ctx.label(if n <= 2 {
        "crash:B-empty"
    } else if n < 128 {
        "crash:n<128"
    } else if n < 512 {
        "crash:n<512"
    } else {
        "crash:n>=512"
    });
    if n_earlier > 0 {
        ctx.label("crash:has-earlier-checkpoint");
    }
    if n_earlier > 0 && distinct_earlier && n > 2 {
        ctx.nontrivial(hash_str(&fmt_case(&case)));
    }
    Verdict::Pass
}

// ---------------------------------------------------------------------------
// part: real crash (cross-check of the write sequence the enumeration assumes)
// ---------------------------------------------------------------------------
//
// The worker never forks and never touches its own resource limits. It starts a *new
// process* (`rre-check C20 --replay <file> --inner none`, i.e. this binary executing this
// very function) with VERIF_C20_CHILD pointing to a spec file. The child performs
// put; checkpoint A; put; checkpoint B with RLIMIT_FSIZE = k set (in the child only) just
// before B, so the kernel kills it with SIGXFSZ in the middle of `write_all`. The parent
// then requires the directory the child left behind to be one of the enumerated crash
// states, and judges it like those.

/// objects cut down to one entry: the serialisation is then independent of HashMap order
fn canon(v: Value) -> Value {
    match v {
        Value::Array(a) => Value::Array(a.into_iter().map(canon).collect()),
        Value::Object(m) => {
            let mut es: Vec<(String, Value)> = m.into_iter().collect();
            es.sort_by(|a, b| a.0.cmp(&b.0));
            Value::Object(es.into_iter().take(1).map(|(k, v)| (k, canon(v))).collect())
        }
        o => o,
    }
}

/// put(key,v1); checkpoint A; +1 ms; put(key,v2); [limit file size]; checkpoint B
/// `full`: the store retains ONE checkpoint, so its history is full when B is taken (retention has to drop A -- after B
/// is complete, never before)
fn realcrash_template(path: &Path, key: &str, v1: &Value, v2: &Value, limit: Option<u64>, full: bool) -> Result<(String, String), String> {
    set_clock_ms(Some(T0));
    let mut st = if full {
        StateStore::with_config(StateConfig { backend: StateBackend::File { path: path.to_path_buf() }, max_checkpoints: 1, ..Default::default() })
    } else {
        StateStore::new(StateBackend::File { path: path.to_path_buf() })
    };
    st.put(key, v1.clone()).map_err(|e| e.to_string())?;
    let a = st.checkpoint("A").map_err(|e| e.to_string())?;
    set_clock_ms(Some(T0 + 1));
    st.put(key, v2.clone()).map_err(|e| e.to_string())?;
    let mut old = libc::rlimit { rlim_cur: 0, rlim_max: 0 };
    if let Some(k) = limit {
        // only ever reached in the single-purpose child process
        unsafe {
            let none = libc::rlimit { rlim_cur: 0, rlim_max: 0 };
            libc::setrlimit(libc::RLIMIT_CORE, &none);
            libc::getrlimit(libc::RLIMIT_FSIZE, &mut old);
            let lim = libc::rlimit { rlim_cur: k, rlim_max: old.rlim_max };
            libc::setrlimit(libc::RLIMIT_FSIZE, &lim);
        }
    }
    let b = st.checkpoint("B");
    if limit.is_some() {
        unsafe {
            libc::setrlimit(libc::RLIMIT_FSIZE, &old);
        }
    }
    Ok((a, b.map_err(|e| e.to_string())?))
}

fn realcrash_child(spec_path: &str) -> Verdict {
    let _clock = ClockGuard;
    let spec: serde_json::Value = match std::fs::read_to_string(spec_path).ok().and_then(|t| serde_json::from_str(&t).ok()) {
        Some(j) => j,
        None => return Verdict::fail("realcrash-child-spec", "cannot read the spec file"),
    };
    let path = PathBuf::from(spec["path"].as_str().unwrap_or(""));
    let key = spec["key"].as_str().unwrap_or("").to_string();
    let k = spec["k"].as_u64().unwrap_or(0);
    let v1: Value = match serde_json::from_value(spec["v1"].clone()) {
        Ok(v) => v,
        Err(_) => return Verdict::fail("realcrash-child-spec", "v1"),
    };
    let v2: Value = match serde_json::from_value(spec["v2"].clone()) {
        Ok(v) => v,
        Err(_) => return Verdict::fail("realcrash-child-spec", "v2"),
    };
    let full = spec["full"].as_bool().unwrap_or(false);
    match realcrash_template(&path, &key, &v1, &v2, Some(k), full) {
        Ok(_) => Verdict::Pass,
        // checkpoint returned Err instead of the process being killed: tell the parent via the exit code
        Err(e) => Verdict::fail("realcrash-child-survived-with-err", e),
    }
}

pub fn run_realcrash(s: &mut Src, ctx: &mut Ctx) -> Verdict {
    if let Ok(spec) = std::env::var("VERIF_C20_CHILD") {
        return realcrash_child(&spec);
    }
    let mut fl = GenFlags::default();
    let keys = gen_keys(s);
    let key = keys[s.below(3)].clone();
    let v1 = canon(gen_val(s, 0, false, false, &mut fl));
    let v2 = canon(gen_val(s, 0, false, false, &mut fl));
    let kfrac = s.below(1024);
    // every second case (by the drawn fraction: no further draw) runs on a store that retains one checkpoint only
    let full = kfrac % 2 == 1;
    if probe_only() {
        return Verdict::Pass;
    }
    ctx.describe(|| {
        format!(
            "real crash: put({:?}, {}); checkpoint A; advance(1ms); put({:?}, {}); checkpoint B in a child process under RLIMIT_FSIZE = {}/1024 of (n+2){}",
            key,
            fmt_val(&v1),
            key,
            fmt_val(&v2),
            kfrac,
            if full { "; max_checkpoints = 1 (the history is full when B is taken)" } else { "" }
        )
    });
    let dir = fresh_dir();
    let _clock = ClockGuard;
    let pdir = dir.0.join("parent");
    let cdir = dir.0.join("child");
    let _ = std::fs::create_dir_all(&pdir);
    let _ = std::fs::create_dir_all(&cdir);
    // reference run in this process, no limit
    // (the reference run keeps both checkpoints whatever `full` is: it only supplies ids and complete files)
    let (a_id, b_id) = match realcrash_template(&pdir, &key, &v1, &v2, None, false) {
        Ok(x) => x,
        Err(e) => return Verdict::fail("checkpoint-err", format!("reference run: {}", e)),
    };
    let a_json = std::fs::read(pdir.join(&a_id).join("state.json")).unwrap_or_default();
    let b_json = match std::fs::read(pdir.join(&b_id).join("state.json")) {
        Ok(j) => j,
        Err(_) => return Verdict::Discard("assumed-layout: <path>/<id>/state.json not found after checkpoint"),
    };
    let n = b_json.len();
    let k = kfrac * (n + 2) / 1024; // 0 ..= n+1
    let spec = serde_json::json!({
        "path": cdir.to_string_lossy(),
        "key": key,
        "k": k,
        "full": full,
        "v1": serde_json::to_value(&v1).unwrap_or(serde_json::Value::Null),
        "v2": serde_json::to_value(&v2).unwrap_or(serde_json::Value::Null),
    });
    let spec_path = dir.0.join("spec.json");
    let replay_path = dir.0.join("child-replay.json");
    let replay = serde_json::json!({"property": "C20", "part": "realcrash", "kind": "bytes", "data": "", "exh": 0});
    if std::fs::write(&spec_path, spec.to_string()).is_err() || std::fs::write(&replay_path, replay.to_string()).is_err() {
        return Verdict::Discard("real-crash child could not be set up");
    }
    let exe = match std::env::current_exe() {
        Ok(e) => e,
        Err(_) => return Verdict::Discard("real-crash child could not be started"),
    };
    let child = std::process::Command::new(exe)
        .arg("C20")
        .arg("--replay")
        .arg(&replay_path)
        .arg("--inner")
        .arg("none")
        .env("VERIF_C20_CHILD", &spec_path)
        .stdin(std::process::Stdio::null())
        .stdout(std::process::Stdio::null())
        .stderr(std::process::Stdio::null())
        .spawn();
    let mut child = match child {
        Ok(c) => c,
        Err(_) => return Verdict::Discard("real-crash child could not be started"),
    };
    let mut waited = 0u32;
    let status = loop {
        match child.try_wait() {
            Ok(Some(st)) => break st,
            Ok(None) => {}
            Err(_) => return Verdict::Discard("real-crash child could not be waited for"),
        }
        std::thread::sleep(Duration::from_millis(2));
        waited += 1;
        if waited > 30_000 {
            let _ = child.kill();
            let _ = child.wait();
            return Verdict::Discard("real-crash child timed out");
        }
    };
    use std::os::unix::process::ExitStatusExt;
    let killed = status.signal() == Some(libc::SIGXFSZ);
    if k < n && !killed {
        // the cross-check is about a crash; anything else is an infrastructure matter
        return Verdict::Discard("real-crash child was not killed by SIGXFSZ although the limit is below the file size");
    }
    if k >= n && status.code() != Some(0) {
        return Verdict::Discard("real-crash child failed although the limit is not below the file size");
    }
    // the directory the crash left behind must be one of the enumerated states
    let left = snapshot(&cdir);
    let show = |m: &BTreeMap<String, Option<Vec<u8>>>| {
        m.iter().map(|(d, f)| format!("{}: {}", d, f.as_ref().map(|b| format!("state.json {} bytes", b.len())).unwrap_or("no state.json".into()))).collect::<Vec<_>>().join(", ")
    };
    let want = &b_json[..k.min(n)];
    // (a store that retains one checkpoint and SURVIVED has dropped A after completing B: that is the enumerated
    // state "complete, retention done")
    let a_dropped = full && k >= n;
    let in_enumeration = if a_dropped {
        left.len() == 1 && left.get(&b_id).map(|f| f.as_deref() == Some(want)).unwrap_or(false)
    } else {
        left.len() == 2
            && left.get(&a_id).map(|f| f.as_deref() == Some(&a_json[..])).unwrap_or(false)
            && left.get(&b_id).map(|f| f.as_deref() == Some(want)).unwrap_or(false)
    };
    if !in_enumeration {
        return Verdict::fail(
            "realcrash:state-not-enumerated",
            format!(
                "child killed while writing {:?} under RLIMIT_FSIZE={} (complete file: {} bytes): the crash enumeration of part `crash` assumes that this leaves the earlier checkpoint's file untouched and state.json = the first {} bytes of the complete file; found: {}",
                b_id,
                k,
                n,
                k.min(n),
                show(&left)
            ),
        );
    }
    // and it is judged like the enumerated ones
    let mut rec_a = Obs::new();
    rec_a.insert(key.clone(), v1.clone());
    let mut rec_b = Obs::new();
    rec_b.insert(key.clone(), v2.clone());
    let cp_a = Cp { id: a_id.clone(), rec: rec_a, at: T0, expiries: vec![] };
    let cp_b = Cp { id: b_id.clone(), rec: rec_b, at: T0 + 1, expiries: vec![] };
    let mut j = CrashJudge { path: &cdir, keys: &keys, b: &cp_b, earlier: if a_dropped { vec![] } else { vec![(&cp_a, "")] }, restores: 0 };
    if full {
        ctx.label("realcrash:history-full(max_checkpoints=1)");
    }
    if let Err(v) = j.judge(&format!("real crash, RLIMIT_FSIZE={} of {} bytes", k, n), true, k >= n) {
        return v;
    }
    ctx.label(if k >= n {
        "realcrash:limit>=n (survives)"
    } else if k == 0 {
        "realcrash:killed-at-0"
    } else {
        "realcrash:killed-mid-file"
    });
    if k < n {
        ctx.nontrivial(hash_of(&(fmt_val(&v1), fmt_val(&v2), k)));
    }
    Verdict::Pass
}

pub fn property() -> Property {
    Property {
        id: "C20",
        level: "fault_enumeration",
        rule: "hist: generated histories of 0..10 operations (put, put_with_ttl {0,1,2,5} ms, update, delete, checkpoint, restore of any earlier checkpoint, clock advance by 0/1/2/3/5/6 ms = 0/1/ttl/ttl+1) over 3 keys on a file-backed StateStore under the injected clock, max_checkpoints in {10,3,2,1}, optional default TTL; values: every Value variant, nested arrays/objects, non-ASCII and control-character strings, dyadic floats (arbitrary finite f64 bit patterns in 1/8 of the cases, labelled class:arbitrary-f64). hist-exhN: every sequence of N operations over a 10-operation alphabet (1-2 keys, TTL 1 ms, advance 1/2 ms, restore oldest/newest, max_checkpoints=2). Oracle: at each checkpoint the observable state (keys+get+len) is recorded and must agree with an independent model of the unexpired entries; after restore(id) the observable state equals the recording of that checkpoint (floats bit-exact); checkpoint leaves the live state unchanged; list_checkpoints has min(n,max) entries, listed ids are pairwise distinct and each restores to its own recording at the end. crash: generated history of 0..8 mutation/advance/checkpoint operations followed by checkpoint B; then EVERY crash state of B's write sequence is materialised in place (no directory, empty directory, state.json truncated at every byte length 0..n, complete with retention pending, retention delete half done) and judged from a fresh store on the same path: every earlier retained checkpoint restores exactly its recording, restore(B) gives B's complete recording or Err with the live state unchanged. realcrash: put; checkpoint A; put; checkpoint B executed by a child process that the kernel kills (SIGXFSZ) at file size k in 0..n+1; the directory left behind must be exactly the enumerated state for k and is judged like it. Non-trivial (hist): a restore of an older checkpoint whose recording differs from a newer one, or a TTL entry recorded by a checkpoint that has expired by the time of the restore, or two checkpoints with zero clock advance; (crash): at least one earlier retained checkpoint whose recording differs from B's and a non-empty B; (realcrash): the child was killed before the file was complete. Distinct = distinct rendered case (configuration + operation list). realcrash, every second case: the store retains ONE checkpoint (max_checkpoints = 1), so its history is full when B is taken: a child killed inside B's write must leave A untouched; a child that survives has dropped A after completing B. hist: 1 history in 7 deals in signed zeros (0.0, -0.0, [0.0], [-0.0] written in turn; floats are compared bit-exactly).",
        assumptions: vec![
            "TTL semantics taken from the code, not from the statement: put/put_with_ttl start a new lifetime, update keeps creation time and TTL, restored entries carry no TTL; an entry whose age equals its TTL exactly may be reported either way".into(),
            "crash states are enumerated under the assumed write sequence create_dir_all -> File::create -> write_all (prefix-ordered, no fsync reordering) -> metadata -> retention remove_dir_all; the layout <path>/<id>/state.json is verified per case (Discard otherwise); part realcrash cross-checks the write_all stage on a sample with a child process killed by SIGXFSZ under RLIMIT_FSIZE=k (crashes before File::create and power-loss reordering of unsynced data are not cross-checked)".into(),
            "a restarted process is modelled by a fresh StateStore on the same path".into(),
            "restore of a checkpoint already removed by retention is judged only as: Ok implies its recording, Err implies live state unchanged".into(),
        ],
        parts: vec![
            Part { name: "hist", run: run_hist, quick: Budget::Random { cases: 200_000, bytes: 200 }, thorough: Budget::Random { cases: 1_000_000, bytes: 200 }, min_nontrivial_pct: 8 },
            Part { name: "hist-exh4", run: run_hist, quick: Budget::Exhaustive { param: 4 }, thorough: Budget::Exhaustive { param: 4 }, min_nontrivial_pct: 0 },
            Part { name: "hist-exh5", run: run_hist, quick: Budget::Exhaustive { param: 5 }, thorough: Budget::Exhaustive { param: 5 }, min_nontrivial_pct: 0 },
            Part { name: "hist-exh6", run: run_hist, quick: Budget::Skip, thorough: Budget::Exhaustive { param: 6 }, min_nontrivial_pct: 0 },
            Part { name: "realcrash", run: run_realcrash, quick: Budget::Random { cases: 48, bytes: 64 }, thorough: Budget::Random { cases: 400, bytes: 64 }, min_nontrivial_pct: 50 },
            Part { name: "crash", run: run_crash, quick: Budget::Random { cases: 400, bytes: 200 }, thorough: Budget::Random { cases: 10_000, bytes: 200 }, min_nontrivial_pct: 10 },
        ],
        watchdog: true,
        replay_reps: 1,
    }
}
