//! C02 — firing order and rule attributes are honoured on every run.
//!
//! Rules are built through the Rust API so every attribute combination is
//! reachable; the observation channel is a custom `trace` action whose handler
//! appends the rule name to a harness-owned log. The oracle is a model
//! interpreter of the eligibility gate written from the statement.

use crate::core::*;
use crate::runner::*;
use chrono::{DateTime, TimeZone, Utc};
use rust_rule_engine::engine::rule::{Condition, ConditionGroup};
use rust_rule_engine::types::{ActionType, Operator, Value};
use rust_rule_engine::{EngineConfig, Facts, KnowledgeBase, Rule, RustRuleEngine};
use std::collections::{BTreeMap, BTreeSet, HashMap};
use std::sync::{Arc, Mutex};

/// Names of the three agenda groups, by style (index 0 is always the default group MAIN). Styles 1..3 are names that
/// stand in a prefix / separator / case relation to each other: `orders` and `orders::priority`, `a.b` and `a`,
/// `MAIN::x` and `main`. Group names are opaque strings to the statement.
const GROUP_TABLES: [[&str; 3]; 4] = [["MAIN", "g1", "g2"], ["MAIN", "orders", "orders::priority"], ["MAIN", "a.b", "a"], ["MAIN", "MAIN::x", "main"]];

thread_local! {
    /// style of the case being run (set at the start of every part's run function)
    static GROUP_STYLE: std::cell::Cell<usize> = const { std::cell::Cell::new(0) };
}

fn gname(g: usize) -> &'static str {
    GROUP_TABLES[GROUP_STYLE.with(|c| c.get())][g]
}
const NFLAGS: usize = 4;

#[derive(Clone, Debug, Hash)]
enum Act {
    SetFlag(usize, bool),
    Activate(usize), // index into the group table
}

#[derive(Clone, Debug, Hash)]
struct R {
    name: String,
    salience: i32,
    enabled: bool,
    no_loop: bool,
    lock: bool,
    agenda: Option<usize>,     // 1 or 2 → g1/g2 ; None → MAIN
    activation: Option<usize>, // a1/a2
    eff: Option<usize>,        // lattice index 1..=3
    exp: Option<usize>,
    cond: Option<(usize, bool)>, // flag k == v ; None = constant true
    acts: Vec<Act>,
}

#[derive(Clone, Debug, Hash)]
enum Step {
    /// time slot 0..3: execute_at_time strictly inside lattice interval i; 4: execute() at the real clock;
    /// 5: execute_with_callback at the real clock (the real clock lies before the whole lattice)
    Exec(usize),
    Focus(usize),
    /// RustRuleEngine::activate_agenda_group (programmatic counterpart of the ActivateAgendaGroup action)
    ActivateApi(usize),
    Pop,
    Clear,
    ResetNoLoop,
    Enable(usize, bool),
    Flip(usize),
}

#[derive(Clone, Debug, Hash)]
struct Case {
    rules: Vec<R>,
    flags: [bool; NFLAGS],
    max_cycles: usize,
    steps: Vec<Step>,
}

fn lattice(i: usize) -> DateTime<Utc> {
    Utc.with_ymd_and_hms(2030, 1, 1 + (i as u32) * 2, 0, 0, 0).unwrap()
}
fn slot_time(i: usize) -> DateTime<Utc> {
    // strictly between lattice(i) and lattice(i+1)
    Utc.with_ymd_and_hms(2030, 1, 2 + (i as u32) * 2, 12, 0, 0).unwrap()
}
/// slot i lies between lattice i and i+1; active iff eff <= slot < exp  ⇔ eff_idx <= i && i < exp_idx
fn active_at(r: &R, slot: usize) -> bool {
    if slot >= 4 {
        // "now" (2026) is before every lattice instant (2030): not yet effective if an effective date is set, never expired
        return r.eff.is_none();
    }
    if let Some(e) = r.eff {
        if slot < e {
            return false;
        }
    }
    if let Some(x) = r.exp {
        if slot >= x {
            return false;
        }
    }
    true
}

fn gen_rule(s: &mut Src, i: usize, small: bool) -> R {
    const SAL: [i32; 8] = [0, 3, 3, 7, -5, 0, i32::MAX, i32::MIN];
    let salience = if small { [0, 3, 3][s.below(3)] } else { SAL[s.below(8)] };
    let enabled = !s.chance(1, 8);
    let no_loop = s.chance(1, 3);
    let lock = s.chance(1, 3);
    let agenda = match s.below(if small { 2 } else { 3 }) {
        0 => None,
        k => Some(k),
    };
    let activation = match s.below(3) {
        0 => None,
        k => Some(k),
    };
    let (eff, exp) = if small {
        (None, None)
    } else {
        (if s.chance(1, 4) { Some(1 + s.below(3)) } else { None }, if s.chance(1, 4) { Some(1 + s.below(3)) } else { None })
    };
    let cond = if s.chance(1, 3) { None } else { Some((s.below(NFLAGS), !s.chance(1, 3))) };
    let na = s.below(3);
    let acts = (0..na)
        .map(|_| if s.chance(1, 3) { Act::Activate(s.below(if small { 2 } else { 3 })) } else { Act::SetFlag(s.below(NFLAGS), s.bool()) })
        .collect();
    R { name: format!("r{}", i), salience, enabled, no_loop, lock, agenda, activation, eff, exp, cond, acts }
}

fn gen_case(s: &mut Src, exh: u32) -> Case {
    if exh > 0 {
        // small scope: 3 rules over a reduced attribute space, 2 executes with a focus step between
        let rules: Vec<R> = (0..3)
            .map(|i| {
                let salience = [0, 3][s.below(2)];
                let attr = s.below(4); // none, no-loop, lock, both
                let agenda = if s.below(2) == 1 { Some(1) } else { None };
                let activation = if s.below(2) == 1 { Some(1) } else { None };
                let acts = match s.below(3) {
                    0 => vec![],
                    1 => vec![Act::Activate(1)],
                    _ => vec![Act::SetFlag(0, false)],
                };
                let cond = if s.below(2) == 1 { Some((0, true)) } else { None };
                R { name: format!("r{}", i), salience, enabled: true, no_loop: attr & 1 == 1, lock: attr & 2 == 2, agenda, activation, eff: None, exp: None, cond, acts }
            })
            .collect();
        let mid = match s.below(3) {
            0 => Step::Focus(1),
            1 => Step::Focus(0),
            _ => Step::ResetNoLoop,
        };
        return Case { rules, flags: [true; NFLAGS], max_cycles: 2, steps: vec![Step::Exec(0), mid, Step::Exec(0)] };
    }
    let n = 2 + s.below(6);
    let small = s.chance(1, 3);
    let rules: Vec<R> = (0..n).map(|i| gen_rule(s, i, small)).collect();
    let mut flags = [false; NFLAGS];
    for f in flags.iter_mut() {
        *f = !s.chance(1, 3);
    }
    let max_cycles = 1 + s.below(4);
    let ns = 3 + s.below(6);
    let mut steps = Vec::new();
    for _ in 0..ns {
        let st = match s.weighted(&[8, 3, 1, 1, 2, 1, 2, 2]) {
            7 => Step::ActivateApi(s.below(3)),
            0 => Step::Exec(if small { [0, 0, 4, 5][s.below(4)] } else { s.below(6) }),
            1 => Step::Focus(s.below(3)),
            2 => Step::Pop,
            3 => Step::Clear,
            4 => Step::ResetNoLoop,
            5 => Step::Enable(s.below(n), s.bool()),
            _ => Step::Flip(s.below(NFLAGS)),
        };
        steps.push(st);
    }
    Case { rules, flags, max_cycles, steps }
}

fn to_rule(r: &R) -> Rule {
    let cond = match r.cond {
        Some((k, v)) => ConditionGroup::single(Condition::new(format!("F.k{}", k), Operator::Equal, Value::Boolean(v))),
        None => ConditionGroup::single(Condition::new("F.one".to_string(), Operator::Equal, Value::Boolean(true))),
    };
    let mut params = HashMap::new();
    params.insert("0".to_string(), Value::String(r.name.clone()));
    let mut actions = vec![ActionType::Custom { action_type: "trace".into(), params }];
    for a in &r.acts {
        actions.push(match a {
            Act::SetFlag(k, v) => ActionType::Set { field: format!("F.k{}", k), value: Value::Boolean(*v) },
            Act::Activate(g) => ActionType::ActivateAgendaGroup { group: gname(*g).to_string() },
        });
    }
    let mut rule = Rule::new(r.name.clone(), cond, actions).with_salience(r.salience).with_no_loop(r.no_loop).with_lock_on_active(r.lock);
    rule.enabled = r.enabled;
    if let Some(g) = r.agenda {
        rule = rule.with_agenda_group(gname(g).to_string());
    }
    if let Some(a) = r.activation {
        rule = rule.with_activation_group(format!("a{}", a));
    }
    if let Some(e) = r.eff {
        rule = rule.with_date_effective(lattice(e));
    }
    if let Some(x) = r.exp {
        rule = rule.with_date_expires(lattice(x));
    }
    rule
}

struct Model {
    rules: Vec<R>, // insertion order
    flags: [bool; NFLAGS],
    stack: Vec<usize>,
    no_loop_fired: BTreeSet<String>,
    lock_fired: BTreeMap<usize, BTreeSet<String>>, // group → rules fired in its current activation
}

impl Model {
    fn active(&self) -> usize {
        *self.stack.last().unwrap()
    }
    fn activate(&mut self, g: usize) {
        self.stack.retain(|x| *x != g);
        self.stack.push(g);
        self.lock_fired.insert(g, BTreeSet::new());
    }
    /// returns (trace, passes); `double_act` reports whether an ActivateAgendaGroup action ran
    fn execute(&mut self, slot: usize, max_cycles: usize, activated_by_action: &mut Vec<usize>) -> Vec<String> {
        let mut order: Vec<usize> = (0..self.rules.len()).collect();
        order.sort_by_key(|i| std::cmp::Reverse(self.rules[*i].salience)); // stable: insertion order among equals
        let mut trace = Vec::new();
        for _ in 0..max_cycles {
            let mut any = false;
            let mut act_fired: BTreeSet<usize> = BTreeSet::new();
            for &i in &order {
                let r = self.rules[i].clone();
                let grp = r.agenda.unwrap_or(0);
                if !r.enabled || grp != self.active() || !active_at(&r, slot) {
                    continue;
                }
                if r.lock && self.lock_fired.get(&grp).map(|s| s.contains(&r.name)).unwrap_or(false) {
                    continue;
                }
                if let Some(a) = r.activation {
                    if act_fired.contains(&a) {
                        continue;
                    }
                }
                if r.no_loop && self.no_loop_fired.contains(&r.name) {
                    continue;
                }
                let c = match r.cond {
                    Some((k, v)) => self.flags[k] == v,
                    None => true,
                };
                if !c {
                    continue;
                }
                // fire
                trace.push(r.name.clone());
                any = true;
                if r.no_loop {
                    self.no_loop_fired.insert(r.name.clone());
                }
                if r.lock {
                    self.lock_fired.entry(grp).or_default().insert(r.name.clone());
                }
                if let Some(a) = r.activation {
                    act_fired.insert(a);
                }
                for a in &r.acts {
                    match a {
                        Act::SetFlag(k, v) => self.flags[*k] = *v,
                        Act::Activate(g) => {
                            self.activate(*g);
                            activated_by_action.push(*g);
                        }
                    }
                }
            }
            if !any {
                break;
            }
        }
        trace
    }
}

fn render(c: &Case) -> String {
    let mut s = format!("flags={:?} max_cycles={}\n", c.flags, c.max_cycles);
    for r in &c.rules {
        s.push_str(&format!(
            "  {} salience={} enabled={} no_loop={} lock_on_active={} agenda={} activation={:?} eff={:?} exp={:?} when {} then {:?}\n",
            r.name,
            r.salience,
            r.enabled,
            r.no_loop,
            r.lock,
            gname(r.agenda.unwrap_or(0)),
            r.activation.map(|a| format!("a{}", a)),
            r.eff,
            r.exp,
            match r.cond {
                Some((k, v)) => format!("F.k{}=={}", k, v),
                None => "true".into(),
            },
            r.acts
        ));
    }
    s.push_str(&format!("  steps: {:?}", c.steps));
    s
}

pub fn run(s: &mut Src, ctx: &mut Ctx) -> Verdict {
    let mut c = gen_case(s, ctx.exh);
    // group names: half of the random cases use one of the look-alike name tables (a pure function of the case)
    let style = if ctx.exh == 0 { [0, 1, 0, 2, 0, 3][(c.rules.len() + c.steps.len()) % 6] } else { 0 };
    GROUP_STYLE.with(|g| g.set(style));
    if probe_only() {
        return Verdict::Pass;
    }
    if style > 0 {
        ctx.label("agenda-group-names-related-by-prefix-or-case");
    }
    // Domain restriction (not a finding): a lock-on-active rule whose own actions re-activate its own group.
    // Whether that firing belongs to the old or the new activation is not stated, so the shape is not generated.
    for r in c.rules.iter_mut() {
        if r.lock {
            let own = r.agenda.unwrap_or(0);
            let n = r.acts.len();
            r.acts.retain(|a| !matches!(a, Act::Activate(g) if *g == own));
            if r.acts.len() != n {
                ctx.label("normalized:self-reactivation-removed");
            }
        }
    }
    ctx.describe(|| render(&c));
    judge(&c, ctx)
}

fn judge(c: &Case, ctx: &mut Ctx) -> Verdict {
    // engine
    let kb = KnowledgeBase::new("kb");
    for r in &c.rules {
        if kb.add_rule(to_rule(r)).is_err() {
            return Verdict::fail("add-rule-error", "add_rule failed for a fresh name");
        }
    }
    let mut engine = RustRuleEngine::with_config(kb, EngineConfig { max_cycles: c.max_cycles, timeout: None, enable_stats: false, debug_mode: false });
    let log: Arc<Mutex<Vec<String>>> = Arc::new(Mutex::new(Vec::new()));
    let l2 = log.clone();
    engine.register_action_handler("trace", move |params, _f| {
        if let Some(Value::String(n)) = params.get("0") {
            l2.lock().unwrap().push(n.clone());
        }
        Ok(())
    });
    let facts = Facts::new();
    let mut obj = HashMap::new();
    obj.insert("one".to_string(), Value::Boolean(true));
    for k in 0..NFLAGS {
        obj.insert(format!("k{}", k), Value::Boolean(c.flags[k]));
    }
    let _ = facts.add_value("F", Value::Object(obj));
    // model
    let mut m = Model { rules: c.rules.clone(), flags: c.flags, stack: vec![0], no_loop_fired: BTreeSet::new(), lock_fired: BTreeMap::new() };
    let mut execs = 0;
    let mut nt_tie = false;
    let mut nt_actgroup = false;
    let mut nt_lock = false;
    let mut nt_suppressed = false;
    let mut activations: BTreeMap<usize, usize> = BTreeMap::new();
    // groups activated through the API since the last execute: the engine re-applies them when execute starts
    let mut pending_api: Vec<usize> = Vec::new();
    let mut focus_op_while_pending = false;
    for (si, st) in c.steps.iter().enumerate() {
        match st {
            Step::Exec(slot) => {
                if !pending_api.is_empty() {
                    if focus_op_while_pending {
                        // set/pop/clear focus between an API activation and the next execute: which group is
                        // focused when execute starts is not stated → stop judging this history here
                        ctx.label("cut:focus-op-between-api-activation-and-execute");
                        break;
                    }
                    // execute starts by re-applying the API activations in the order they were made: the focus
                    // ends where it already was, and each is an activation of its group
                    for g in pending_api.drain(..) {
                        m.activate(g);
                    }
                    ctx.label("execute-after-api-activations");
                }
                focus_op_while_pending = false;
                execs += 1;
                log.lock().unwrap().clear();
                let before_flags = m.flags;
                let before_active = m.active();
                let mut by_action = Vec::new();
                let expected = m.execute(*slot, c.max_cycles, &mut by_action);
                for g in by_action {
                    *activations.entry(g).or_default() += 1;
                }
                let mut cb_names: Vec<String> = Vec::new();
                let res = match catch(|| match *slot {
                    4 => engine.execute(&facts),
                    5 => engine.execute_with_callback(&facts, |n, _f| cb_names.push(n.to_string())),
                    _ => engine.execute_at_time(&facts, slot_time(*slot)),
                }) {
                    Ok(r) => r,
                    Err(p) => return Verdict::fail(format!("panic@{}", p.split(": ").next().unwrap_or("?")), p),
                };
                let got = log.lock().unwrap().clone();
                if *slot == 5 && cb_names != got {
                    return Verdict::fail("callback-vs-actions", format!("step {}: callbacks {:?} but actions ran for {:?}", si, cb_names, got));
                }
                match *slot {
                    4 => ctx.label("entry:execute"),
                    5 => ctx.label("entry:execute_with_callback"),
                    _ => ctx.label("entry:execute_at_time"),
                }
                if got != expected {
                    let sig = classify_trace_diff(c, &got, &expected);
                    return Verdict::fail(sig, format!("step {} {:?}: engine trace {:?}, model {:?}", si, st, got, expected));
                }
                match res {
                    Ok(r) => {
                        if r.rules_fired != expected.len() {
                            return Verdict::fail("rules-fired-count", format!("step {}: rules_fired={} but {} firings", si, r.rules_fired, expected.len()));
                        }
                    }
                    Err(e) => return Verdict::fail("execute-error", format!("step {}: Err({})", si, e)),
                }
                // non-trivial classification on this execute
                for (i, a) in c.rules.iter().enumerate() {
                    for b in c.rules.iter().skip(i + 1) {
                        if a.salience == b.salience && expected.contains(&a.name) && expected.contains(&b.name) {
                            nt_tie = true;
                        }
                        if a.activation.is_some() && a.activation == b.activation {
                            let t = |r: &R| r.cond.map(|(k, v)| before_flags[k] == v).unwrap_or(true);
                            if t(a) && t(b) {
                                nt_actgroup = true;
                            }
                        }
                    }
                    let cond_true = a.cond.map(|(k, v)| before_flags[k] == v).unwrap_or(true);
                    if cond_true && (!a.enabled || a.agenda.unwrap_or(0) != before_active || !active_at(a, *slot)) {
                        nt_suppressed = true;
                    }
                }
            }
            Step::ActivateApi(g) => {
                engine.activate_agenda_group(gname(*g).to_string());
                m.activate(*g);
                pending_api.push(*g);
                *activations.entry(*g).or_default() += 1;
            }
            Step::Focus(g) => {
                if !pending_api.is_empty() {
                    focus_op_while_pending = true;
                }
                engine.set_agenda_focus(gname(*g));
                m.activate(*g);
                *activations.entry(*g).or_default() += 1;
            }
            Step::Pop | Step::Clear => {
                if !pending_api.is_empty() {
                    focus_op_while_pending = true;
                }
                if matches!(st, Step::Pop) {
                    engine.pop_agenda_focus();
                    if m.stack.len() > 1 {
                        m.stack.pop();
                    }
                } else {
                    engine.clear_agenda_focus();
                    m.stack = vec![0];
                }
                // Returning to a group by pop/clear is not an activation of that group (activations are: the initial
                // state, set_agenda_focus, an ActivateAgendaGroup action), so a lock-on-active rule that already
                // fired in the group's current activation stays locked — "at most once per activation".
                let g = m.active();
                if m.lock_fired.get(&g).map(|s| !s.is_empty()).unwrap_or(false) {
                    ctx.label("pop/clear-returns-to-group-with-fired-lock-on-active-rule");
                }
            }
            Step::ResetNoLoop => {
                engine.reset_no_loop_tracking();
                m.no_loop_fired.clear();
            }
            Step::Enable(i, b) => {
                if let Some(r) = m.rules.get_mut(*i) {
                    let _ = engine.knowledge_base().set_rule_enabled(&r.name, *b);
                    r.enabled = *b;
                }
            }
            Step::Flip(k) => {
                m.flags[*k] = !m.flags[*k];
                let _ = facts.set_nested(&format!("F.k{}", k), Value::Boolean(m.flags[*k]));
            }
        }
        let ag = engine.get_active_agenda_group().to_string();
        if ag != gname(m.active()) {
            return Verdict::fail("active-agenda-group", format!("after step {} {:?}: engine focus {} but model {}", si, st, ag, gname(m.active())));
        }
    }
    for r in &c.rules {
        if r.lock && activations.get(&r.agenda.unwrap_or(0)).copied().unwrap_or(0) >= 2 {
            nt_lock = true;
        }
    }
    if nt_tie {
        ctx.label("salience-tie-both-fired");
    }
    if nt_actgroup {
        ctx.label("activation-group-contention");
    }
    if nt_lock {
        ctx.label("lock-on-active-reactivated");
    }
    if nt_suppressed {
        ctx.label("suppressed-although-true");
    }
    if execs >= 2 && (nt_tie || nt_actgroup || nt_lock || nt_suppressed) {
        ctx.nontrivial(hash_of(c));
    }
    Verdict::Pass
}

// ---------------------------------------------------------------------------------------------------------------
// C03 part `agenda` (registered by c03.rs): the per-call clauses of C03 on rule sets with agenda groups,
// lock-on-active, no-loop, activation groups and ActivateAgendaGroup actions. Nothing here predicts the trace (that is
// C02's claim): the eligibility state is rebuilt from the firings the engine itself reported, and the engine's own
// final facts and focus are used, so only "bound, counters, early stop => fixpoint" is judged.
// ---------------------------------------------------------------------------------------------------------------

pub fn run_c03_agenda(s: &mut Src, ctx: &mut Ctx) -> Verdict {
    GROUP_STYLE.with(|g| g.set(0));
    let mut c = gen_case(s, 0);
    c.max_cycles = [1, 2, 3, 4, 6, 8, 12][s.below(7)];
    // history alphabet of this part: execute / focus / reset / enable / flip (pop, clear and the API activation have
    // unspecified corners that C02 handles by cutting; they add nothing to C03's clauses)
    for st in c.steps.iter_mut() {
        if matches!(st, Step::Pop | Step::Clear | Step::ActivateApi(_)) {
            *st = Step::Exec(0);
        }
    }
    if probe_only() {
        return Verdict::Pass;
    }
    for r in c.rules.iter_mut() {
        if r.lock {
            let own = r.agenda.unwrap_or(0);
            r.acts.retain(|a| !matches!(a, Act::Activate(g) if *g == own));
        }
    }
    ctx.describe(|| render(&c));
    let kb = KnowledgeBase::new("kb");
    for r in &c.rules {
        if kb.add_rule(to_rule(r)).is_err() {
            return Verdict::fail("add-rule-error", "add_rule failed for a fresh name");
        }
    }
    let mut engine = RustRuleEngine::with_config(kb, EngineConfig { max_cycles: c.max_cycles, timeout: None, enable_stats: false, debug_mode: false });
    let log: Arc<Mutex<Vec<String>>> = Arc::new(Mutex::new(Vec::new()));
    let l2 = log.clone();
    engine.register_action_handler("trace", move |params, _f| {
        if let Some(Value::String(n)) = params.get("0") {
            l2.lock().unwrap().push(n.clone());
        }
        Ok(())
    });
    let facts = Facts::new();
    let mut obj = HashMap::new();
    obj.insert("one".to_string(), Value::Boolean(true));
    for k in 0..NFLAGS {
        obj.insert(format!("k{}", k), Value::Boolean(c.flags[k]));
    }
    let _ = facts.add_value("F", Value::Object(obj));
    // eligibility state, driven by what the engine reports
    let mut rules = c.rules.clone();
    let mut no_loop_fired: BTreeSet<String> = BTreeSet::new();
    let mut lock_fired: BTreeMap<usize, BTreeSet<String>> = BTreeMap::new();
    let mut early_stops = 0;
    let mut reactivated_lock = false;
    let mut multi_pass = false;
    for (si, st) in c.steps.iter().enumerate() {
        match st {
            Step::Exec(slot) => {
                log.lock().unwrap().clear();
                let res = match catch(|| match *slot {
                    4 => engine.execute(&facts),
                    5 => engine.execute_with_callback(&facts, |_n, _f| {}),
                    _ => engine.execute_at_time(&facts, slot_time(*slot)),
                }) {
                    Ok(Ok(r)) => r,
                    Ok(Err(e)) => return Verdict::fail("execute-error", format!("step {}: Err({})", si, e)),
                    Err(p) => return Verdict::fail(format!("panic@{}", p.split(": ").next().unwrap_or("?")), p),
                };
                let got = log.lock().unwrap().clone();
                if res.cycle_count > c.max_cycles {
                    return Verdict::fail("cycle-count-above-bound:agenda", format!("step {}: cycle_count {} > max_cycles {}", si, res.cycle_count, c.max_cycles));
                }
                if res.rules_fired != got.len() {
                    return Verdict::fail("fired-count:agenda", format!("step {}: rules_fired {} but {} firings ran their actions", si, res.rules_fired, got.len()));
                }
                if got.is_empty() && res.cycle_count > 1 {
                    return Verdict::fail("no-early-stop:agenda", format!("step {}: nothing fired but cycle_count = {}", si, res.cycle_count));
                }
                // rebuild the eligibility state from the reported firings
                for name in &got {
                    let r = match rules.iter().find(|r| &r.name == name) {
                        Some(r) => r.clone(),
                        None => return Verdict::fail("unknown-rule-fired:agenda", name.clone()),
                    };
                    let grp = r.agenda.unwrap_or(0);
                    if r.no_loop {
                        no_loop_fired.insert(r.name.clone());
                    }
                    if r.lock {
                        lock_fired.entry(grp).or_default().insert(r.name.clone());
                    }
                    for a in &r.acts {
                        if let Act::Activate(g) = a {
                            if lock_fired.get(g).map(|x| !x.is_empty()).unwrap_or(false) {
                                reactivated_lock = true;
                            }
                            lock_fired.insert(*g, BTreeSet::new());
                        }
                    }
                }
                if got.len() > rules.iter().filter(|r| r.enabled).count() {
                    multi_pass = true;
                }
                if res.cycle_count < c.max_cycles {
                    // stopped before the bound: its last pass fired nothing, so no eligible rule may be true on the
                    // engine's own final facts under the engine's own focus
                    early_stops += 1;
                    let focus = engine.get_active_agenda_group().to_string();
                    for r in &rules {
                        let grp = r.agenda.unwrap_or(0);
                        let cond_true = match r.cond {
                            Some((k, v)) => facts.get_nested(&format!("F.k{}", k)) == Some(Value::Boolean(v)),
                            None => true,
                        };
                        let eligible = r.enabled
                            && gname(grp) == focus
                            && active_at(r, *slot)
                            && !(r.no_loop && no_loop_fired.contains(&r.name))
                            && !(r.lock && lock_fired.get(&grp).map(|x| x.contains(&r.name)).unwrap_or(false));
                        if eligible && cond_true {
                            return Verdict::fail(
                                "not-a-fixpoint:agenda",
                                format!(
                                    "step {}: execute stopped after {} of {} cycles (firings {:?}) although rule {} is eligible (enabled, group {} focused, not no-loop-flagged, not locked in the current activation of its group) and its condition is true on the final facts",
                                    si, res.cycle_count, c.max_cycles, got, r.name, focus
                                ),
                            );
                        }
                    }
                }
            }
            Step::Focus(g) => {
                engine.set_agenda_focus(gname(*g));
                lock_fired.insert(*g, BTreeSet::new());
            }
            Step::ResetNoLoop => {
                engine.reset_no_loop_tracking();
                no_loop_fired.clear();
            }
            Step::Enable(i, b) => {
                if let Some(r) = rules.get_mut(*i) {
                    let _ = engine.knowledge_base().set_rule_enabled(&r.name, *b);
                    r.enabled = *b;
                }
            }
            Step::Flip(k) => {
                let cur = facts.get_nested(&format!("F.k{}", k)) == Some(Value::Boolean(true));
                let _ = facts.set_nested(&format!("F.k{}", k), Value::Boolean(!cur));
            }
            Step::Pop | Step::Clear | Step::ActivateApi(_) => {}
        }
    }
    if early_stops > 0 {
        ctx.label("stopped-before-bound");
    }
    if reactivated_lock {
        ctx.label("group-with-fired-lock-rule-reactivated-by-action");
    }
    if multi_pass {
        ctx.label("more-firings-than-rules");
    }
    if early_stops > 0 && (reactivated_lock || multi_pass) {
        ctx.nontrivial(hash_of(&c));
    }
    Verdict::Pass
}

/// name the mechanism: which attribute explains the first difference
fn classify_trace_diff(c: &Case, got: &[String], expected: &[String]) -> String {
    let i = got.iter().zip(expected.iter()).take_while(|(a, b)| a == b).count();
    let extra = got.get(i);
    let missing = expected.get(i);
    let attr = |n: Option<&String>| -> String {
        n.and_then(|n| c.rules.iter().find(|r| &r.name == n))
            .map(|r| {
                let mut v = vec![];
                if r.lock {
                    v.push("lock");
                }
                if r.no_loop {
                    v.push("noloop");
                }
                if r.activation.is_some() {
                    v.push("actgroup");
                }
                if r.agenda.is_some() {
                    v.push("agenda");
                }
                if r.eff.is_some() || r.exp.is_some() {
                    v.push("dates");
                }
                v.join("+")
            })
            .unwrap_or_default()
    };
    match (extra, missing) {
        (Some(e), None) => format!("trace:extra-firing[{}]", attr(Some(e))),
        (None, Some(m)) => format!("trace:missing-firing[{}]", attr(Some(m))),
        (Some(e), Some(_)) => {
            if expected.contains(e) && got.iter().collect::<BTreeSet<_>>() == expected.iter().collect::<BTreeSet<_>>() && got.len() == expected.len() {
                "trace:order".to_string()
            } else if !expected[i..].contains(e) {
                format!("trace:extra-firing[{}]", attr(Some(e)))
            } else {
                format!("trace:missing-firing[{}]", attr(missing))
            }
        }
        _ => "trace:?".into(),
    }
}

/// Large rule sets with many salience ties: insertion order among equals must survive sorting
/// (small slices hide an unstable sort, so this part uses 21-60 rules).
/// Part `timeout`: a call that is cut short by the wall-clock timeout is still a call of the history. 2..5 always-true
/// rules in MAIN, generated salience and no-loop flags, `timeout = 10 ms`; one rule has an action that sleeps 30 ms the
/// first time it runs (before or after the rule's recording action), so the first `execute` runs out of time somewhere
/// behind it and returns whatever it returns. The second `execute` on the same engine (nothing sleeps any more) is then
/// judged by the one clause that holds however the first call ended and however slow the machine is: a no-loop rule
/// whose actions ran in the first call does not run again, and no no-loop rule runs twice within a call.
pub fn run_timeout(s: &mut Src, ctx: &mut Ctx) -> Verdict {
    let n = 2 + s.below(4);
    let rules: Vec<(i32, bool)> = (0..n).map(|_| ([0, 0, 5, 10, -3][s.below(5)], s.chance(2, 3))).collect();
    let slow = s.below(n);
    let sleep_first = s.bool();
    let entry = s.below(2);
    let max_cycles = 1 + s.below(3);
    if probe_only() {
        return Verdict::Pass;
    }
    ctx.describe(|| {
        format!(
            "timeout 10 ms, max_cycles {}, {}: rules (salience, no-loop) {:?}, all always true; rule t{} sleeps 30 ms {} its recording action the first time it fires; then a second call",
            max_cycles,
            if entry == 0 { "execute" } else { "execute_at_time" },
            rules,
            slow,
            if sleep_first { "before" } else { "after" }
        )
    });
    let kb = KnowledgeBase::new("kb");
    for (i, (sal, nl)) in rules.iter().enumerate() {
        let mut params = HashMap::new();
        params.insert("0".to_string(), Value::String(format!("t{}", i)));
        let trace = ActionType::Custom { action_type: "trace".into(), params };
        let nap = ActionType::Custom { action_type: "nap".into(), params: HashMap::new() };
        let actions = if i != slow {
            vec![trace]
        } else if sleep_first {
            vec![nap, trace]
        } else {
            vec![trace, nap]
        };
        let cond = ConditionGroup::single(Condition::new("F.one".to_string(), Operator::Equal, Value::Boolean(true)));
        if kb.add_rule(Rule::new(format!("t{}", i), cond, actions).with_salience(*sal).with_no_loop(*nl)).is_err() {
            return Verdict::fail("add-rule-error", "add_rule failed for a fresh name");
        }
    }
    let mut engine = RustRuleEngine::with_config(kb, EngineConfig { max_cycles, timeout: Some(std::time::Duration::from_millis(10)), enable_stats: false, debug_mode: false });
    let log: Arc<Mutex<Vec<String>>> = Arc::new(Mutex::new(Vec::new()));
    let l2 = log.clone();
    engine.register_action_handler("trace", move |params, _f| {
        if let Some(Value::String(n)) = params.get("0") {
            l2.lock().unwrap().push(n.clone());
        }
        Ok(())
    });
    let napped = Arc::new(std::sync::atomic::AtomicBool::new(false));
    let n2 = napped.clone();
    engine.register_action_handler("nap", move |_p, _f| {
        if !n2.swap(true, std::sync::atomic::Ordering::SeqCst) {
            std::thread::sleep(std::time::Duration::from_millis(30));
        }
        Ok(())
    });
    let facts = Facts::new();
    let mut obj = HashMap::new();
    obj.insert("one".to_string(), Value::Boolean(true));
    let _ = facts.add_value("F", Value::Object(obj));
    let mut traces: Vec<Vec<String>> = Vec::new();
    let mut ended: Vec<&'static str> = Vec::new();
    for _call in 0..2 {
        log.lock().unwrap().clear();
        let r = match catch(|| if entry == 0 { engine.execute(&facts) } else { engine.execute_at_time(&facts, Utc::now()) }) {
            Ok(r) => r,
            Err(p) => return Verdict::fail(format!("panic@{}", p.split(": ").next().unwrap_or("?")), p),
        };
        ended.push(if r.is_ok() { "Ok" } else { "Err" });
        traces.push(log.lock().unwrap().clone());
    }
    for (c, t) in traces.iter().enumerate() {
        for (i, (_, nl)) in rules.iter().enumerate() {
            let name = format!("t{}", i);
            if *nl && t.iter().filter(|x| **x == name).count() > 1 {
                return Verdict::fail("timeout:no-loop-rule-ran-twice-in-one-call", format!("call {} ({}): actions ran for {:?}; {} is no-loop", c + 1, ended[c], t, name));
            }
        }
    }
    for (i, (_, nl)) in rules.iter().enumerate() {
        let name = format!("t{}", i);
        // "ran" = its recording action ran; for the sleeping rule with the nap first that is after the nap
        if *nl && traces[0].contains(&name) && traces[1].contains(&name) {
            return Verdict::fail(
                "timeout:no-loop-rule-refired-after-a-call-that-ran-out-of-time",
                format!(
                    "first call returned {} after running the actions of {:?}; the second call on the same engine (no reset in between) ran {:?}: no-loop rule {} ran in both",
                    ended[0], traces[0], traces[1], name
                ),
            );
        }
    }
    ctx.label(if ended[0] == "Err" { "first-call-ran-out-of-time" } else { "first-call-returned-ok" });
    if ended[0] == "Err" && rules[slow].1 && traces[0].contains(&format!("t{}", slow)) {
        ctx.label("the-sleeping-rule-is-no-loop-and-ran");
        ctx.nontrivial(hash_of(&(format!("{:?}", rules), slow, sleep_first, entry, max_cycles)));
    }
    Verdict::Pass
}

pub fn run_many(s: &mut Src, ctx: &mut Ctx) -> Verdict {
    GROUP_STYLE.with(|g| g.set(0));
    let n = 21 + s.below(40);
    let nsal = 1 + s.below(4);
    let rules: Vec<R> = (0..n)
        .map(|i| {
            let salience = s.below(nsal) as i32 * 5 - 5;
            let cond = if s.chance(1, 4) { Some((s.below(NFLAGS), true)) } else { None };
            let acts = if s.chance(1, 10) { vec![Act::SetFlag(s.below(NFLAGS), s.bool())] } else { vec![] };
            R { name: format!("r{}", i), salience, enabled: !s.chance(1, 12), no_loop: s.chance(1, 4), lock: false, agenda: None, activation: None, eff: None, exp: None, cond, acts }
        })
        .collect();
    let mut flags = [true; NFLAGS];
    for f in flags.iter_mut() {
        *f = !s.chance(1, 4);
    }
    let mut steps = vec![Step::Exec(0)];
    if s.bool() {
        steps.push(Step::Enable(s.below(n), s.bool()));
        steps.push(Step::Exec(0));
    }
    let c = Case { rules, flags, max_cycles: 1 + s.below(2), steps };
    if probe_only() {
        return Verdict::Pass;
    }
    ctx.describe(|| render(&c));
    ctx.label("many-rules");
    let v = judge(&c, ctx);
    if matches!(v, Verdict::Pass) {
        ctx.nontrivial(hash_of(&c));
    }
    v
}

pub fn property() -> Property {
    Property {
        id: "C02",
        level: "exploration",
        rule: "generated: 2-7 API-built rules with salience from {i32::MIN,-5,0,0,3,3,7,i32::MAX} (ties on purpose), enabled flag, no-loop, lock-on-active, agenda group in {MAIN,g1,g2}, activation group in {none,a1,a2}, date window on a 5-instant lattice; conditions flag==bool or constant true; actions trace(name) + flag assignments + ActivateAgendaGroup; histories of 3-8 steps from {execute_at_time(t strictly inside a lattice interval), execute() and execute_with_callback() at the real clock (which lies before the whole lattice), set_agenda_focus, activate_agenda_group (API), pop, clear, reset_no_loop_tracking, set_rule_enabled, flip a flag}; max_cycles 1..4; plus rule sets of 21-60 rules with 1-4 salience levels (an unstable sort only shows on slices > 20); plus exhaustive enumeration of a reduced attribute space for 3 rules x (execute, focus/reset step, execute). Oracle: model interpreter of the eligibility gate written from the statement (exact trace of every execute, rules_fired, active agenda group after every step). Returning to a group by pop/clear is not an activation (a lock-on-active rule that fired stays locked). Non-trivial: >= 2 executes and (salience tie with both firing, or activation-group contention with two true conditions, or a lock-on-active rule whose group was activated >= 2 times, or a rule suppressed by focus/date/enabled although its condition was true); distinct by structural hash of the case. Part timeout: 2-5 always-true MAIN rules (generated salience, no-loop 2/3), EngineConfig.timeout = 10 ms, one rule's action sleeps 30 ms the first time it runs (before or after the recording action), execute or execute_at_time, max_cycles 1..3, then a second call on the same engine; judged without any timing: no no-loop rule runs twice within a call, and a no-loop rule whose recording action ran in call 1 does not run in call 2. Non-trivial there: the first call returned Err, and the sleeping rule is no-loop and ran. Half of the random cases take their three agenda group names from look-alike tables (orders / orders::priority, a.b / a, MAIN::x / main).",
        assumptions: vec!["date boundaries are excluded by construction (evaluation instants lie strictly inside lattice intervals)".into(), "rules_evaluated is not compared".into()],
        parts: vec![
            Part { name: "random", run, quick: Budget::Random { cases: 1_000_000, bytes: 300 }, thorough: Budget::Random { cases: 20_000_000, bytes: 300 }, min_nontrivial_pct: 30 },
            Part { name: "many-rules", run: run_many, quick: Budget::Random { cases: 60_000, bytes: 400 }, thorough: Budget::Random { cases: 1_000_000, bytes: 400 }, min_nontrivial_pct: 30 },
            Part { name: "timeout", run: run_timeout, quick: Budget::Random { cases: 1_500, bytes: 32 }, thorough: Budget::Random { cases: 15_000, bytes: 32 }, min_nontrivial_pct: 10 },
            Part { name: "exh3", run, quick: Budget::Skip, thorough: Budget::Exhaustive { param: 1 }, min_nontrivial_pct: 0 },
        ],
        watchdog: true,
        replay_reps: 3,
    }
}
