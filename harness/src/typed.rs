//! The "typed core" of GRL shared by C01, C03, C06, C19: AST, generator,
//! pretty-printer, fact-store model and the tri-state reference evaluator
//! (REF, DESIGN.md §4.1). REF is written from the documentation and the
//! property statements, never by calling the engine.

use crate::core::*;
use rust_rule_engine::types::Value;
use std::collections::{BTreeMap, HashMap};

// ---------------------------------------------------------------- values

#[derive(Clone, Debug, PartialEq)]
pub enum V {
    Null,
    Bool(bool),
    Int(i64),
    Float(f64),
    Str(String),
    Arr(Vec<V>),
    Obj(BTreeMap<String, V>),
}

impl V {
    pub fn to_engine(&self) -> Value {
        match self {
            V::Null => Value::Null,
            V::Bool(b) => Value::Boolean(*b),
            V::Int(i) => Value::Integer(*i),
            V::Float(f) => Value::Number(*f),
            V::Str(s) => Value::String(s.clone()),
            V::Arr(a) => Value::Array(a.iter().map(|x| x.to_engine()).collect()),
            V::Obj(o) => Value::Object(o.iter().map(|(k, v)| (k.clone(), v.to_engine())).collect::<HashMap<_, _>>()),
        }
    }
    pub fn from_engine(v: &Value) -> V {
        match v {
            Value::Null => V::Null,
            Value::Boolean(b) => V::Bool(*b),
            Value::Integer(i) => V::Int(*i),
            Value::Number(f) => V::Float(*f),
            Value::String(s) => V::Str(s.clone()),
            Value::Array(a) => V::Arr(a.iter().map(V::from_engine).collect()),
            Value::Object(o) => V::Obj(o.iter().map(|(k, v)| (k.clone(), V::from_engine(v))).collect()),
            Value::Expression(e) => V::Str(format!("<unevaluated:{}>", e)),
        }
    }
    /// GRL literal text
    pub fn grl(&self) -> String {
        match self {
            V::Null => "null".into(),
            V::Bool(b) => b.to_string(),
            V::Int(i) => i.to_string(),
            V::Float(f) => format!("{:?}", f),
            V::Str(s) => format!("\"{}\"", s),
            V::Arr(a) => format!("[{}]", a.iter().map(|x| x.grl()).collect::<Vec<_>>().join(", ")),
            V::Obj(_) => "null".into(),
        }
    }
    pub fn kind(&self) -> &'static str {
        match self {
            V::Null => "null",
            V::Bool(_) => "bool",
            V::Int(_) => "int",
            V::Float(_) => "float",
            V::Str(_) => "string",
            V::Arr(_) => "array",
            V::Obj(_) => "object",
        }
    }
    fn num(&self) -> Option<f64> {
        match self {
            V::Int(i) => Some(*i as f64),
            V::Float(f) => Some(*f),
            _ => None,
        }
    }
}

fn numeric_looking(s: &str) -> bool {
    s.trim().parse::<f64>().is_ok()
}

const BIG: i64 = 1 << 53;

// ---------------------------------------------------------------- store model

/// Top-level map; a key is either an object name or a flat dotted key.
#[derive(Clone, Debug, PartialEq, Default)]
pub struct Store {
    pub top: BTreeMap<String, V>,
}

pub type Undef = &'static str;

impl Store {
    fn nested(&self, path: &str) -> Option<&V> {
        let mut parts = path.split('.');
        let mut cur = self.top.get(parts.next()?)?;
        for p in parts {
            match cur {
                V::Obj(o) => cur = o.get(p)?,
                _ => return None,
            }
        }
        Some(cur)
    }
    /// Read a path. `Err` when a flat key and a nested path both exist with
    /// different values (the engine resolves that differently in conditions
    /// and in expressions — outside the defined domain).
    pub fn read(&self, path: &str) -> Result<Option<V>, Undef> {
        let n = self.nested(path);
        let f = if path.contains('.') { self.top.get(path) } else { None };
        match (n, f) {
            (Some(a), Some(b)) if a != b => Err("flat-nested-conflict"),
            (Some(a), _) => Ok(Some(a.clone())),
            (None, Some(b)) => Ok(Some(b.clone())),
            (None, None) => Ok(None),
        }
    }
    /// Assignment: into the nested object when the parent path exists, else as a flat key.
    pub fn write(&mut self, path: &str, v: V) {
        let parts: Vec<&str> = path.split('.').collect();
        if parts.len() == 1 {
            self.top.insert(path.to_string(), v);
            return;
        }
        fn go(cur: &mut V, rest: &[&str], v: V) -> Result<(), V> {
            match cur {
                V::Obj(o) => {
                    if rest.len() == 1 {
                        o.insert(rest[0].to_string(), v);
                        Ok(())
                    } else {
                        match o.get_mut(rest[0]) {
                            Some(n) => go(n, &rest[1..], v),
                            None => Err(v),
                        }
                    }
                }
                _ => Err(v),
            }
        }
        let r = match self.top.get_mut(parts[0]) {
            Some(root) => go(root, &parts[1..], v),
            None => Err(v),
        };
        if let Err(v) = r {
            self.top.insert(path.to_string(), v);
        }
    }
    pub fn to_facts(&self) -> rust_rule_engine::Facts {
        let f = rust_rule_engine::Facts::new();
        for (k, v) in &self.top {
            let _ = f.add_value(k, v.to_engine());
        }
        f
    }
    pub fn render(&self) -> String {
        fn r(v: &V) -> String {
            match v {
                V::Obj(o) => format!("{{{}}}", o.iter().map(|(k, v)| format!("{}: {}", k, r(v))).collect::<Vec<_>>().join(", ")),
                other => other.grl(),
            }
        }
        self.top.iter().map(|(k, v)| format!("{} = {}", k, r(v))).collect::<Vec<_>>().join("; ")
    }
}

/// engine-side read with the same resolution order the condition evaluator uses
pub fn engine_read(f: &rust_rule_engine::Facts, path: &str) -> Option<V> {
    f.get_nested(path).or_else(|| f.get(path)).map(|v| V::from_engine(&v))
}

// ---------------------------------------------------------------- AST

#[derive(Clone, Copy, Debug, PartialEq, Eq, Hash)]
pub enum Op {
    Eq,
    Ne,
    Lt,
    Le,
    Gt,
    Ge,
    Contains,
    StartsWith,
    EndsWith,
    In,
}

impl Op {
    pub fn text(self) -> &'static str {
        match self {
            Op::Eq => "==",
            Op::Ne => "!=",
            Op::Lt => "<",
            Op::Le => "<=",
            Op::Gt => ">",
            Op::Ge => ">=",
            Op::Contains => "contains",
            Op::StartsWith => "startsWith",
            Op::EndsWith => "endsWith",
            Op::In => "in",
        }
    }
    pub fn is_order(self) -> bool {
        matches!(self, Op::Lt | Op::Le | Op::Gt | Op::Ge)
    }
    pub fn is_symbolic(self) -> bool {
        !matches!(self, Op::Contains | Op::StartsWith | Op::EndsWith | Op::In)
    }
}

#[derive(Clone, Debug, PartialEq)]
pub enum Operand {
    Field(String),
    Lit(V), // non-negative number or string
}

#[derive(Clone, Debug, PartialEq)]
pub struct Arith {
    pub first: Operand,
    pub rest: Vec<(char, Operand)>,
}

#[derive(Clone, Debug, PartialEq)]
pub enum Term {
    Lit(V),
    Field(String),
    Arith(Arith),
}

#[derive(Clone, Debug, PartialEq)]
pub enum Lhs {
    Field(String),
    Arith(Arith),
}

#[derive(Clone, Debug, PartialEq)]
pub struct Atom {
    pub lhs: Lhs,
    pub op: Op,
    pub rhs: Term,
    pub tight: bool, // print a symbolic operator without surrounding spaces
}

#[derive(Clone, Debug, PartialEq)]
pub enum Cond {
    Atom(Atom),
    And(Box<Cond>, Box<Cond>),
    Or(Box<Cond>, Box<Cond>),
    /// bool: print as `!(..)` (true) or, for an atom, `!atom` (false)
    Not(Box<Cond>, bool),
}

#[derive(Clone, Debug, PartialEq)]
pub struct Assign {
    pub target: String,
    pub rhs: Term,
}

#[derive(Clone, Debug, PartialEq)]
pub struct RuleAst {
    pub name: String,
    pub salience: i32,
    pub no_loop: bool,
    pub cond: Cond,
    pub actions: Vec<Assign>,
}

// ---------------------------------------------------------------- printing

impl Operand {
    fn grl(&self) -> String {
        match self {
            Operand::Field(p) => p.clone(),
            Operand::Lit(v) => v.grl(),
        }
    }
}
thread_local! {
    /// Spelling of the case being run (set by the part that draws it, reset at the start of every case):
    /// .0 = field names: 0 as generated; 1, 2 = numeric fields are called by names that end like the exponent part of a
    /// number or in a digit (`xe`, `yE`, `e`, `E`, `x1e`, `n0`) -- see `styled_component`;
    /// .1 = arithmetic is written without blanks around its operators (`A.xe+1`, `B.e-2*A.yE`)
    pub static SPELLING: std::cell::Cell<(u8, bool)> = const { std::cell::Cell::new((0, false)) };
}

/// The name a path component goes by under a spelling style.
pub fn styled_component(style: u8, c: &str) -> &str {
    match (style, c) {
        (1, "x") => "xe",
        (1, "y") => "yE",
        (1, "n") => "n0",
        (1, "k") => "k2e",
        (2, "x") => "e",
        (2, "y") => "E",
        (2, "n") => "x1e",
        (2, "k") => "e5",
        (_, c) => c,
    }
}

pub fn styled_path(style: u8, p: &str) -> String {
    p.split('.').enumerate().map(|(i, c)| if i == 0 { c } else { styled_component(style, c) }).collect::<Vec<_>>().join(".")
}

fn restyle_v(style: u8, v: &mut V) {
    match v {
        V::Obj(o) => {
            let old = std::mem::take(o);
            for (k, mut x) in old {
                restyle_v(style, &mut x);
                o.insert(styled_component(style, &k).to_string(), x);
            }
        }
        V::Arr(a) => a.iter_mut().for_each(|x| restyle_v(style, x)),
        _ => {}
    }
}

/// Rename every field of the case (rules and store alike) to its name under `style`. Values are data: untouched.
pub fn restyle_case(style: u8, rules: &mut [RuleAst], st: &mut Store) {
    if style == 0 {
        return;
    }
    let old = std::mem::take(&mut st.top);
    for (k, mut v) in old {
        restyle_v(style, &mut v);
        st.top.insert(styled_path(style, &k), v);
    }
    fn operand(style: u8, o: &mut Operand) {
        if let Operand::Field(p) = o {
            *p = styled_path(style, p);
        }
    }
    fn arith(style: u8, a: &mut Arith) {
        operand(style, &mut a.first);
        for (_, o) in a.rest.iter_mut() {
            operand(style, o);
        }
    }
    fn term(style: u8, t: &mut Term) {
        match t {
            Term::Field(p) => *p = styled_path(style, p),
            Term::Arith(a) => arith(style, a),
            Term::Lit(_) => {}
        }
    }
    fn cond(style: u8, c: &mut Cond) {
        match c {
            Cond::Atom(a) => {
                match &mut a.lhs {
                    Lhs::Field(p) => *p = styled_path(style, p),
                    Lhs::Arith(x) => arith(style, x),
                }
                term(style, &mut a.rhs);
            }
            Cond::And(a, b) | Cond::Or(a, b) => {
                cond(style, a);
                cond(style, b);
            }
            Cond::Not(x, _) => cond(style, x),
        }
    }
    for r in rules.iter_mut() {
        cond(style, &mut r.cond);
        for a in r.actions.iter_mut() {
            a.target = styled_path(style, &a.target);
            term(style, &mut a.rhs);
        }
    }
}

impl Arith {
    pub fn grl(&self) -> String {
        // (without blanks only when a field is among the operands: the parser documents that it takes operator-bearing
        // text for arithmetic when it "has a field reference or has spaces" -- `6+4` alone is a bare word to it)
        let has_field = matches!(self.first, Operand::Field(_)) || self.rest.iter().any(|(_, o)| matches!(o, Operand::Field(_)));
        let compact = SPELLING.with(|c| c.get().1) && has_field;
        let mut s = self.first.grl();
        for (op, o) in &self.rest {
            if compact {
                s.push_str(&format!("{}{}", op, o.grl()));
            } else {
                s.push_str(&format!(" {} {}", op, o.grl()));
            }
        }
        s
    }
}
impl Term {
    pub fn grl(&self) -> String {
        match self {
            Term::Lit(v) => v.grl(),
            Term::Field(p) => p.clone(),
            Term::Arith(a) => a.grl(),
        }
    }
}
impl Atom {
    pub fn grl(&self) -> String {
        let l = match &self.lhs {
            Lhs::Field(p) => p.clone(),
            Lhs::Arith(a) => a.grl(),
        };
        if self.tight && self.op.is_symbolic() {
            format!("{}{}{}", l, self.op.text(), self.rhs.grl())
        } else {
            format!("{} {} {}", l, self.op.text(), self.rhs.grl())
        }
    }
}
impl Cond {
    /// prec: 0 = or-context, 1 = and-context, 2 = not-context
    pub fn grl(&self, prec: u8) -> String {
        match self {
            Cond::Atom(a) => {
                if prec >= 2 {
                    a.grl()
                } else {
                    a.grl()
                }
            }
            Cond::Or(a, b) => {
                let s = format!("{} || {}", a.grl(0), b.grl(0));
                if prec > 0 {
                    format!("({})", s)
                } else {
                    s
                }
            }
            Cond::And(a, b) => {
                let s = format!("{} && {}", a.grl(1), b.grl(1));
                if prec > 1 {
                    format!("({})", s)
                } else {
                    s
                }
            }
            Cond::Not(c, paren) => match (&**c, paren) {
                (Cond::Atom(a), false) => format!("!{}", a.grl()),
                (Cond::Atom(a), true) => format!("!({})", a.grl()),
                (Cond::Not(..), _) => format!("!({})", c.grl(0)),
                _ => format!("!({})", c.grl(0)),
            },
        }
    }
    pub fn atoms(&self) -> usize {
        match self {
            Cond::Atom(_) => 1,
            Cond::And(a, b) | Cond::Or(a, b) => a.atoms() + b.atoms(),
            Cond::Not(c, _) => c.atoms(),
        }
    }
    pub fn depth(&self) -> usize {
        match self {
            Cond::Atom(_) => 1,
            Cond::And(a, b) | Cond::Or(a, b) => 1 + a.depth().max(b.depth()),
            Cond::Not(c, _) => 1 + c.depth(),
        }
    }
    pub fn for_each_atom<F: FnMut(&Atom)>(&self, f: &mut F) {
        match self {
            Cond::Atom(a) => f(a),
            Cond::And(a, b) | Cond::Or(a, b) => {
                a.for_each_atom(f);
                b.for_each_atom(f);
            }
            Cond::Not(c, _) => c.for_each_atom(f),
        }
    }
}
impl RuleAst {
    pub fn grl(&self) -> String {
        let mut s = format!("rule \"{}\" salience {} {}{{\n  when\n    {}\n  then\n", self.name, self.salience, if self.no_loop { "no-loop " } else { "" }, self.cond.grl(0));
        for a in &self.actions {
            s.push_str(&format!("    {} = {};\n", a.target, a.rhs.grl()));
        }
        s.push_str("}\n");
        s
    }
}

// ---------------------------------------------------------------- REF

#[derive(Clone, Copy, Debug, PartialEq, Eq)]
pub enum T3 {
    True,
    False,
    Undef(Undef),
}

impl T3 {
    pub fn from(b: bool) -> T3 {
        if b {
            T3::True
        } else {
            T3::False
        }
    }
    pub fn not(self) -> T3 {
        match self {
            T3::True => T3::False,
            T3::False => T3::True,
            u => u,
        }
    }
    pub fn and(self, o: T3) -> T3 {
        match (self, o) {
            (T3::False, _) | (_, T3::False) => T3::False,
            (T3::Undef(u), _) | (_, T3::Undef(u)) => T3::Undef(u),
            _ => T3::True,
        }
    }
    pub fn or(self, o: T3) -> T3 {
        match (self, o) {
            (T3::True, _) | (_, T3::True) => T3::True,
            (T3::Undef(u), _) | (_, T3::Undef(u)) => T3::Undef(u),
            _ => T3::False,
        }
    }
}

/// equality under the documented meaning: Some(b) when defined, None when a
/// documented-but-optional coercion would change the answer
fn loose_eq(a: &V, b: &V) -> Option<bool> {
    if matches!(a, V::Str(s) if s == "null") || matches!(b, V::Str(s) if s == "null") {
        return None;
    }
    match (a, b) {
        (V::Null, V::Null) => Some(true),
        (V::Null, _) | (_, V::Null) => Some(false),
        (V::Bool(x), V::Bool(y)) => Some(x == y),
        (V::Int(x), V::Int(y)) => Some(x == y),
        (V::Float(x), V::Float(y)) => {
            if x.is_nan() || y.is_nan() {
                None
            } else {
                Some(x == y)
            }
        }
        (V::Str(x), V::Str(y)) => Some(x == y),
        (V::Arr(x), V::Arr(y)) => {
            if x.len() != y.len() {
                return Some(false);
            }
            let mut undef = false;
            for (p, q) in x.iter().zip(y.iter()) {
                match loose_eq(p, q) {
                    Some(false) => return Some(false),
                    None => undef = true,
                    Some(true) => {}
                }
            }
            if undef {
                None
            } else {
                Some(true)
            }
        }
        (V::Obj(x), V::Obj(y)) => {
            if x == y {
                Some(true)
            } else {
                None
            }
        }
        // different kinds
        (V::Int(_), V::Float(_)) | (V::Float(_), V::Int(_)) => {
            if a.num() == b.num() {
                None
            } else {
                Some(false)
            }
        }
        (V::Str(s), n @ (V::Int(_) | V::Float(_))) | (n @ (V::Int(_) | V::Float(_)), V::Str(s)) => match s.trim().parse::<f64>() {
            Ok(x) if Some(x) == n.num() => None,
            _ => Some(false),
        },
        (V::Bool(t), n @ (V::Int(_) | V::Float(_))) | (n @ (V::Int(_) | V::Float(_)), V::Bool(t)) => {
            let x = n.num().unwrap();
            if (x == 1.0 && *t) || (x == 0.0 && !*t) {
                None
            } else {
                Some(false)
            }
        }
        (V::Bool(t), V::Str(s)) | (V::Str(s), V::Bool(t)) => {
            let l = s.to_ascii_lowercase();
            if (l == "true" && *t) || (l == "false" && !*t) || (l == "1" && *t) || (l == "0" && !*t) {
                None
            } else {
                Some(false)
            }
        }
        _ => Some(false),
    }
}

pub fn compare(op: Op, l: &V, r: &V) -> T3 {
    match op {
        Op::Eq => match loose_eq(l, r) {
            Some(b) => T3::from(b),
            None => T3::Undef("eq-coercible"),
        },
        Op::Ne => match loose_eq(l, r) {
            Some(b) => T3::from(!b),
            None => T3::Undef("eq-coercible"),
        },
        Op::Lt | Op::Le | Op::Gt | Op::Ge => {
            for v in [l, r] {
                if let V::Str(s) = v {
                    if numeric_looking(s) {
                        return T3::Undef("order-numeric-string");
                    }
                }
                if let V::Int(i) = v {
                    if i.unsigned_abs() > BIG as u64 {
                        return T3::Undef("order-int-precision");
                    }
                }
            }
            match (l.num(), r.num()) {
                (Some(a), Some(b)) => {
                    if a.is_nan() || b.is_nan() {
                        return T3::Undef("nan");
                    }
                    T3::from(match op {
                        Op::Lt => a < b,
                        Op::Le => a <= b,
                        Op::Gt => a > b,
                        _ => a >= b,
                    })
                }
                _ => T3::False,
            }
        }
        Op::Contains | Op::StartsWith | Op::EndsWith => match (l, r) {
            (V::Str(a), V::Str(b)) => T3::from(match op {
                Op::Contains => a.contains(b.as_str()),
                Op::StartsWith => a.starts_with(b.as_str()),
                _ => a.ends_with(b.as_str()),
            }),
            (V::Arr(_), _) if op == Op::Contains => T3::Undef("array-contains"),
            _ => T3::False,
        },
        Op::In => match r {
            V::Arr(items) => {
                let mut undef = false;
                for it in items {
                    match loose_eq(l, it) {
                        Some(true) => return T3::True,
                        None => undef = true,
                        Some(false) => {}
                    }
                }
                if undef {
                    T3::Undef("eq-coercible")
                } else {
                    T3::False
                }
            }
            _ => T3::Undef("in-non-array"),
        },
    }
}

fn arith_op(op: char, a: &V, b: &V) -> Result<V, Undef> {
    if op == '+' {
        if let (V::Str(x), V::Str(y)) = (a, b) {
            if numeric_looking(x) || numeric_looking(y) {
                return Err("concat-numeric-string");
            }
            return Ok(V::Str(format!("{}{}", x, y)));
        }
    }
    let (x, y) = match (a.num(), b.num()) {
        (Some(x), Some(y)) => (x, y),
        _ => return Err("arith-non-number"),
    };
    for v in [a, b] {
        if let V::Int(i) = v {
            if i.unsigned_abs() > BIG as u64 {
                return Err("arith-int-precision");
            }
        }
    }
    let both_int = matches!((a, b), (V::Int(_), V::Int(_)));
    let r = match op {
        '+' => x + y,
        '-' => x - y,
        '*' => x * y,
        '/' => {
            if y == 0.0 {
                return Err("div-by-zero");
            }
            x / y
        }
        '%' => {
            if y == 0.0 {
                return Err("mod-by-zero");
            }
            if x < 0.0 || y < 0.0 {
                return Err("mod-negative");
            }
            x % y
        }
        _ => return Err("bad-op"),
    };
    if !r.is_finite() {
        return Err("non-finite");
    }
    if both_int {
        if r.fract() == 0.0 {
            if r.abs() > BIG as f64 {
                return Err("arith-int-precision");
            }
            Ok(V::Int(r as i64))
        } else {
            // int / int with an inexact quotient: the documentation does not say
            // whether this is integer or real division
            Err("int-division-inexact")
        }
    } else {
        Ok(V::Float(r))
    }
}

fn operand_value(o: &Operand, st: &Store) -> Result<V, Undef> {
    match o {
        Operand::Lit(v) => Ok(v.clone()),
        Operand::Field(p) => match st.read(p)? {
            Some(v) => Ok(v),
            None => Err("arith-absent-operand"),
        },
    }
}

/// usual precedence (* / % over + -) and left associativity
pub fn eval_arith(a: &Arith, st: &Store) -> Result<V, Undef> {
    // split into additive terms
    let mut terms: Vec<(char, V)> = Vec::new();
    let mut cur = operand_value(&a.first, st)?;
    let mut cur_sign = '+';
    for (op, o) in &a.rest {
        let v = operand_value(o, st)?;
        match op {
            '*' | '/' | '%' => cur = arith_op(*op, &cur, &v)?,
            _ => {
                terms.push((cur_sign, cur));
                cur_sign = *op;
                cur = v;
            }
        }
    }
    terms.push((cur_sign, cur));
    let mut it = terms.into_iter();
    let (_, mut acc) = it.next().unwrap();
    for (op, v) in it {
        acc = arith_op(op, &acc, &v)?;
    }
    Ok(acc)
}

pub fn eval_term_rhs(t: &Term, st: &Store) -> Result<V, Undef> {
    match t {
        Term::Lit(v) => Ok(v.clone()),
        Term::Field(p) => match st.read(p)? {
            Some(v) => Ok(v),
            None => Err("rhs-field-absent"),
        },
        Term::Arith(a) => eval_arith(a, st),
    }
}

pub fn eval_atom(a: &Atom, st: &Store) -> T3 {
    let l = match &a.lhs {
        Lhs::Field(p) => match st.read(p) {
            Ok(Some(v)) => v,
            Ok(None) => V::Null,
            Err(u) => return T3::Undef(u),
        },
        Lhs::Arith(x) => match eval_arith(x, st) {
            Ok(v) => v,
            Err(u) => return T3::Undef(u),
        },
    };
    let r = match eval_term_rhs(&a.rhs, st) {
        Ok(v) => v,
        Err(u) => return T3::Undef(u),
    };
    if let V::Obj(_) = l {
        return T3::Undef("object-operand");
    }
    if let V::Obj(_) = r {
        return T3::Undef("object-operand");
    }
    compare(a.op, &l, &r)
}

pub fn eval_cond(c: &Cond, st: &Store) -> T3 {
    match c {
        Cond::Atom(a) => eval_atom(a, st),
        Cond::And(a, b) => eval_cond(a, st).and(eval_cond(b, st)),
        Cond::Or(a, b) => eval_cond(a, st).or(eval_cond(b, st)),
        Cond::Not(x, _) => eval_cond(x, st).not(),
    }
}

// ---------------------------------------------------------------- generators

pub const OBJS: [&str; 3] = ["A", "B", "C"];
/// candidate paths below an object (p is a nested object, p.q one level deeper)
/// (`n.k` and `p.x.k` descend THROUGH a scalar: such a path is a missing field)
pub const SUBPATHS: [&str; 11] = ["x", "y", "n", "s", "t", "b", "a", "p.x", "p.q.s", "n.k", "p.x.k"];

pub struct GenCfg {
    /// allow absent fields / nulls in the store
    pub absent: bool,
    pub arrays: bool,
    pub floats: bool,
    pub strings: bool,
    pub extremes: bool,
    pub nested: bool,
    pub max_depth: usize,
}

impl GenCfg {
    pub fn full() -> GenCfg {
        GenCfg { absent: true, arrays: true, floats: true, strings: true, extremes: true, nested: true, max_depth: 6 }
    }
}

pub fn gen_small_int(s: &mut Src) -> i64 {
    match s.weighted(&[10, 4, 1]) {
        0 => s.range(0, 6),
        1 => s.range(-20, 20),
        _ => *s.pick_ref(&[0i64, 1, -1, i64::MAX, i64::MIN, (1 << 53) + 1]),
    }
}

pub fn gen_str(s: &mut Src) -> String {
    let n = s.below(4);
    (0..n).map(|_| *s.pick_ref(&['a', 'b', 'c'])).collect()
}

/// a string VALUE held by the store: now and then it spells the name of a stored object, field or flat key. Such a
/// value is data like any other: a condition or assignment that reads it through a field reference gets the text,
/// not the fact it happens to name. (String LITERALS in rules stay over {a,b,c}: for a literal that names a fact
/// the engine documents the opposite reading, see DESIGN 4.1.)
pub fn gen_store_str(s: &mut Src) -> String {
    if s.chance(1, 8) {
        s.pick_ref(&["A", "B", "A.x", "B.s", "C.n", "F.x", "A.p.x", "B.t", "A.s"]).to_string()
    } else {
        gen_str(s)
    }
}

pub fn gen_scalar(s: &mut Src, cfg: &GenCfg) -> V {
    let mut kinds: Vec<u8> = vec![0, 0, 0, 3]; // int ×3, bool
    if cfg.floats {
        kinds.push(1);
        kinds.push(1);
    }
    if cfg.strings {
        kinds.push(2);
        kinds.push(2);
    }
    match *s.pick_ref(&kinds) {
        0 => {
            let i = gen_small_int(s);
            if !cfg.extremes && i.unsigned_abs() > 1000 {
                V::Int(7)
            } else {
                V::Int(i)
            }
        }
        1 => V::Float(s.range(-20, 20) as f64 / 4.0),
        2 => V::Str(gen_str(s)),
        _ => V::Bool(s.bool()),
    }
}

pub fn gen_value(s: &mut Src, cfg: &GenCfg) -> V {
    if cfg.arrays && s.chance(1, 8) {
        let n = s.below(4);
        V::Arr((0..n).map(|_| gen_scalar(s, cfg)).collect())
    } else {
        gen_scalar(s, cfg)
    }
}

/// all candidate paths
pub fn universe() -> Vec<String> {
    let style = SPELLING.with(|c| c.get().0);
    let mut u = Vec::new();
    for o in OBJS {
        for p in SUBPATHS {
            u.push(styled_path(style, &format!("{}.{}", o, p)));
        }
    }
    u.push("F.x".into());
    u.push("F.s".into());
    u
}

pub fn gen_store(s: &mut Src, cfg: &GenCfg) -> Store {
    let mut st = Store::default();
    let nobj = 2 + s.below(2);
    for o in OBJS.iter().take(nobj) {
        let mut obj: BTreeMap<String, V> = BTreeMap::new();
        for f in ["x", "y", "n", "s", "t", "b", "a"] {
            if cfg.absent && s.chance(1, 5) {
                continue;
            }
            let v = match f {
                // a mild type bias per field so comparisons are often well-typed
                "x" | "y" | "n" if !s.chance(1, 5) => {
                    if cfg.floats && s.chance(1, 4) {
                        V::Float(s.range(-20, 20) as f64 / 4.0)
                    } else {
                        V::Int(s.range(-3, 8))
                    }
                }
                "s" | "t" if cfg.strings && !s.chance(1, 5) => V::Str(gen_store_str(s)),
                "b" if !s.chance(1, 5) => V::Bool(s.bool()),
                "a" if cfg.arrays && !s.chance(1, 4) => {
                    let n = s.below(4);
                    V::Arr((0..n).map(|_| gen_scalar(s, cfg)).collect())
                }
                _ => {
                    if cfg.absent && s.chance(1, 10) {
                        V::Null
                    } else {
                        gen_value(s, cfg)
                    }
                }
            };
            obj.insert(f.to_string(), v);
        }
        if cfg.nested && !s.chance(1, 4) {
            let mut p: BTreeMap<String, V> = BTreeMap::new();
            if !s.chance(1, 4) {
                p.insert("x".into(), gen_scalar(s, cfg));
            }
            if !s.chance(1, 3) {
                let mut q: BTreeMap<String, V> = BTreeMap::new();
                if !s.chance(1, 4) {
                    q.insert("s".into(), if cfg.strings { V::Str(gen_str(s)) } else { V::Int(s.range(0, 5)) });
                }
                p.insert("q".into(), V::Obj(q));
            }
            obj.insert("p".into(), V::Obj(p));
        }
        st.top.insert(o.to_string(), V::Obj(obj));
    }
    // flat keys of a pseudo object F (no object F exists, so nothing is shadowed)
    if s.chance(1, 3) {
        st.top.insert("F.x".into(), V::Int(s.range(-3, 8)));
    }
    if cfg.strings && s.chance(1, 4) {
        st.top.insert("F.s".into(), V::Str(gen_store_str(s)));
    }
    st
}

thread_local! {
    /// present paths of the store the rules are generated for: (numeric, string, all)
    static PRESENT: std::cell::RefCell<(Vec<String>, Vec<String>, Vec<String>)> = const { std::cell::RefCell::new((Vec::new(), Vec::new(), Vec::new())) };
}

/// tell the rule generator which paths exist (so that most references hit a present field of the wanted kind)
pub fn set_store_context(st: &Store) {
    let mut num = Vec::new();
    let mut strs = Vec::new();
    let mut all = Vec::new();
    for p in universe() {
        if let Ok(Some(v)) = st.read(&p) {
            match v {
                V::Int(_) | V::Float(_) => num.push(p.clone()),
                V::Str(_) => strs.push(p.clone()),
                _ => {}
            }
            all.push(p);
        }
    }
    PRESENT.with(|c| *c.borrow_mut() = (num, strs, all));
}

pub fn gen_path(s: &mut Src, numeric_bias: bool, stringy: bool) -> String {
    // 5 in 6: a present path of the wanted kind (when the store has one)
    let pick = s.below(6);
    let idx = s.below(64);
    if pick != 5 {
        let hit = PRESENT.with(|c| {
            let c = c.borrow();
            let pool = if numeric_bias { &c.0 } else if stringy { &c.1 } else { &c.2 };
            if pool.is_empty() {
                None
            } else {
                Some(pool[idx * pool.len() / 64].clone())
            }
        });
        if let Some(h) = hit {
            return h;
        }
    }
    let o = if s.chance(1, 10) { "F" } else { *s.pick_ref(&OBJS) };
    if o == "F" {
        return if stringy { "F.s".into() } else { "F.x".into() };
    }
    let sub = if numeric_bias && !s.chance(1, 4) {
        *s.pick_ref(&["x", "y", "n", "p.x"])
    } else if stringy && !s.chance(1, 4) {
        *s.pick_ref(&["s", "t", "p.q.s"])
    } else {
        *s.pick_ref(&SUBPATHS)
    };
    format!("{}.{}", o, sub)
}

fn gen_operand(s: &mut Src, cfg: &GenCfg, stringy: bool) -> Operand {
    if stringy {
        if s.chance(1, 2) {
            Operand::Field(gen_path(s, false, true))
        } else {
            let mut t = gen_str(s);
            if t.is_empty() {
                t.push('a');
            }
            Operand::Lit(V::Str(t))
        }
    } else if s.chance(2, 5) {
        if cfg.floats && s.chance(1, 4) {
            Operand::Lit(V::Float(s.range(0, 12) as f64 / 4.0))
        } else {
            Operand::Lit(V::Int(s.range(0, 7)))
        }
    } else {
        Operand::Field(gen_path(s, true, false))
    }
}

pub fn gen_arith(s: &mut Src, cfg: &GenCfg, allow_concat: bool) -> Arith {
    gen_arith2(s, cfg, allow_concat, false)
}

/// `field_first`: the documented left-hand-side form starts with a field reference
pub fn gen_arith2(s: &mut Src, cfg: &GenCfg, allow_concat: bool, field_first: bool) -> Arith {
    if allow_concat && cfg.strings && s.chance(1, 6) {
        let first = gen_operand(s, cfg, true);
        let n = 1 + s.below(2);
        let rest = (0..n).map(|_| ('+', gen_operand(s, cfg, true))).collect();
        return Arith { first, rest };
    }
    let first = if field_first { Operand::Field(gen_path(s, true, false)) } else { gen_operand(s, cfg, false) };
    let n = 1 + s.below(3);
    let rest = (0..n)
        .map(|_| {
            let op = *s.pick_ref(&['+', '-', '*', '+', '-', '*', '/', '%']);
            let o = if op == '/' || op == '%' {
                // mostly a positive literal divisor so the result is defined
                if s.chance(1, 4) {
                    gen_operand(s, cfg, false)
                } else {
                    Operand::Lit(V::Int(s.range(1, 5)))
                }
            } else {
                gen_operand(s, cfg, false)
            };
            (op, o)
        })
        .collect();
    Arith { first, rest }
}

pub fn gen_atom(s: &mut Src, cfg: &GenCfg) -> Atom {
    let shape = s.weighted(&[6, 3, 2, 2, 2]);
    let tight = s.chance(1, 6);
    match shape {
        // numeric comparison field vs literal / field / arithmetic
        0 => {
            let lhs = Lhs::Field(gen_path(s, true, false));
            let op = *s.pick_ref(&[Op::Eq, Op::Ne, Op::Lt, Op::Le, Op::Gt, Op::Ge]);
            let rhs = match s.weighted(&[5, 3, 2]) {
                0 => Term::Lit(if cfg.floats && s.chance(1, 4) { V::Float(s.range(-20, 20) as f64 / 4.0) } else { V::Int(gen_lit_int(s, cfg)) }),
                1 => Term::Field(gen_path(s, true, false)),
                _ => Term::Arith(gen_arith(s, cfg, false)),
            };
            Atom { lhs, op, rhs, tight }
        }
        // string operators
        1 if cfg.strings => {
            let lhs = Lhs::Field(gen_path(s, false, true));
            let op = *s.pick_ref(&[Op::Contains, Op::StartsWith, Op::EndsWith, Op::Eq, Op::Ne]);
            let rhs = if s.chance(1, 4) { Term::Field(gen_path(s, false, true)) } else { Term::Lit(V::Str(gen_str(s))) };
            Atom { lhs, op, rhs, tight }
        }
        // membership
        2 if cfg.arrays => {
            let nb = s.bool();
            let lhs = Lhs::Field(gen_path(s, nb, true));
            let n = s.below(4);
            let rhs = if s.chance(1, 6) { Term::Field(format!("{}.a", s.pick_ref(&OBJS))) } else { Term::Lit(V::Arr((0..n).map(|_| gen_scalar(s, cfg)).collect())) };
            Atom { lhs, op: Op::In, rhs, tight }
        }
        // arithmetic on the left (documented Test-CE form): numeric comparisons only
        3 => {
            let lhs = Lhs::Arith(gen_arith2(s, cfg, false, true));
            let op = *s.pick_ref(&[Op::Eq, Op::Ne, Op::Lt, Op::Le, Op::Gt, Op::Ge]);
            let rhs = match s.weighted(&[5, 2, 2]) {
                0 => Term::Lit(V::Int(s.range(-3, 12))),
                1 => Term::Field(gen_path(s, true, false)),
                _ => Term::Arith(gen_arith(s, cfg, false)),
            };
            Atom { lhs, op, rhs, tight: false }
        }
        // anything vs anything (type mixes, null, bool)
        _ => {
            let lhs = Lhs::Field(gen_path(s, false, false));
            let op = *s.pick_ref(&[Op::Eq, Op::Ne, Op::Lt, Op::Ge, Op::Contains, Op::Eq, Op::Ne]);
            let rhs = match s.weighted(&[4, 2, 2]) {
                0 => Term::Lit(gen_value(s, cfg)),
                1 => Term::Lit(if cfg.absent { V::Null } else { V::Bool(s.bool()) }),
                _ => Term::Field(gen_path(s, false, false)),
            };
            Atom { lhs, op, rhs, tight }
        }
    }
}

fn gen_lit_int(s: &mut Src, cfg: &GenCfg) -> i64 {
    let i = gen_small_int(s);
    if !cfg.extremes && i.unsigned_abs() > 1000 {
        3
    } else {
        i
    }
}

pub fn gen_cond(s: &mut Src, cfg: &GenCfg, depth: usize) -> Cond {
    if depth >= cfg.max_depth || s.chance(2, 5) {
        return Cond::Atom(gen_atom(s, cfg));
    }
    match s.weighted(&[3, 3, 2]) {
        0 => Cond::And(Box::new(gen_cond(s, cfg, depth + 1)), Box::new(gen_cond(s, cfg, depth + 1))),
        1 => Cond::Or(Box::new(gen_cond(s, cfg, depth + 1)), Box::new(gen_cond(s, cfg, depth + 1))),
        _ => {
            let inner = gen_cond(s, cfg, depth + 1);
            let paren = s.bool();
            Cond::Not(Box::new(inner), paren)
        }
    }
}

pub fn gen_assign(s: &mut Src, cfg: &GenCfg) -> Assign {
    // targets: existing leaves, new leaves, and paths whose parent may be missing
    let o = *s.pick_ref(&OBJS);
    let sub = *s.pick_ref(&["x", "y", "n", "s", "b", "r", "p.x", "p.q.s", "p.r"]);
    let target = if s.chance(1, 12) { "F.x".to_string() } else { format!("{}.{}", o, sub) };
    let rhs = match s.weighted(&[4, 2, 3]) {
        0 => Term::Lit(gen_value(s, cfg)),
        1 => Term::Field(gen_path(s, false, false)),
        _ => Term::Arith(gen_arith(s, cfg, true)),
    };
    Assign { target, rhs }
}

pub fn hash_rules(rules: &[RuleAst], st: &Store) -> u64 {
    let mut t = String::new();
    for r in rules {
        t.push_str(&r.grl());
    }
    t.push_str(&st.render());
    hash_str(&t)
}
