//! C03 — execute always returns, within max_cycles, at a fixpoint or at the bound.
//!
//! Generator: looping rule sets (self-triggering counters, always-true
//! increments, mutually triggering toggles, chains, plus random typed-core
//! rules) × max_cycles 0..=64, timeout disabled. Oracle: (a) returns (monitor
//! watchdog), (b) cycle_count ≤ max_cycles, (c) rules_fired = callbacks,
//! (d) REF multi-pass interpreter with no-loop: passes, firing sequence, store
//! after every firing, final store, (e) fixpoint re-evaluation on the
//! engine's own final facts when it stopped before the bound.

use crate::c01::*;
use crate::core::*;
use crate::runner::*;
use crate::typed::*;
use std::collections::BTreeMap;

fn fld(p: &str) -> Operand {
    Operand::Field(p.to_string())
}
fn atom(path: &str, op: Op, v: V) -> Cond {
    Cond::Atom(Atom { lhs: Lhs::Field(path.into()), op, rhs: Term::Lit(v), tight: false })
}
fn incr(path: &str, by: i64) -> Assign {
    Assign { target: path.into(), rhs: Term::Arith(Arith { first: fld(path), rest: vec![('+', Operand::Lit(V::Int(by)))] }) }
}
fn set(path: &str, v: V) -> Assign {
    Assign { target: path.into(), rhs: Term::Lit(v) }
}

const INTS: [&str; 4] = ["A.x", "A.y", "B.x", "B.n"];
const FLAGS: [&str; 3] = ["A.b", "B.b", "C.b"];

fn gen_loop_rule(s: &mut Src, cfg: &GenCfg, i: usize, salience: i32) -> RuleAst {
    let name = format!("R{}", i);
    let no_loop = s.chance(1, 4);
    let (cond, actions) = match s.weighted(&[3, 2, 3, 2, 3]) {
        // bounded counter
        0 => {
            let p = *s.pick_ref(&INTS);
            let k = s.range(1, 40);
            let by = s.range(1, 3);
            (atom(p, Op::Lt, V::Int(k)), vec![incr(p, by)])
        }
        // always true: never quiesces
        1 => {
            let p = *s.pick_ref(&INTS);
            let c = if s.bool() { atom(p, Op::Ge, V::Int(-5)) } else { Cond::Atom(Atom { lhs: Lhs::Field(p.into()), op: Op::Eq, rhs: Term::Field(p.into()), tight: false }) };
            (c, vec![incr(p, 1)])
        }
        // toggle: needs a partner to re-enable it
        2 => {
            let a = *s.pick_ref(&FLAGS);
            let b = *s.pick_ref(&FLAGS);
            let va = s.bool();
            {
                let vb = s.bool();
                (atom(a, Op::Eq, V::Bool(va)), vec![set(a, V::Bool(!va)), set(b, V::Bool(vb))])
            }
        }
        // chain step
        3 => {
            let p = *s.pick_ref(&INTS);
            let k = s.range(0, 6);
            let q = *s.pick_ref(&INTS);
            (atom(p, Op::Eq, V::Int(k)), vec![set(p, V::Int(k + 1)), incr(q, 1)])
        }
        // random typed-core rule over the same fields
        _ => {
            let c = gen_cond(s, cfg, cfg.max_depth.saturating_sub(2));
            let n = 1 + s.below(2);
            let acts = (0..n)
                .map(|_| {
                    if s.bool() {
                        let p = *s.pick_ref(&INTS);
                        if s.bool() {
                            incr(p, s.range(1, 2))
                        } else {
                            set(p, V::Int(s.range(0, 5)))
                        }
                    } else {
                        {
                        let fl = *s.pick_ref(&FLAGS);
                        let bv = s.bool();
                        set(fl, V::Bool(bv))
                    }
                    }
                })
                .collect();
            (c, acts)
        }
    };
    // a rule without actions still fires (counted, reported to the callback, keeps the loop going); the GRL grammar
    // has no empty `then`, so only the directly built rules of part `api` get one (no draw on the parser path:
    // byte-encoded cases of the other parts keep their meaning)
    let mut actions = actions;
    if !VIA_PARSER.with(|v| v.get()) && s.chance(1, 6) {
        actions.clear();
    }
    RuleAst { name, salience, no_loop, cond, actions }
}

pub struct Case {
    pub rules: Vec<RuleAst>,
    pub store: Store,
    pub max_cycles: usize,
}

pub fn gen_case(s: &mut Src) -> Case {
    let cfg = GenCfg { absent: false, arrays: false, floats: false, strings: false, extremes: false, nested: false, max_depth: 3 };
    let mut store = Store::default();
    for o in ["A", "B", "C"] {
        let mut m = BTreeMap::new();
        for f in ["x", "y", "n"] {
            m.insert(f.to_string(), V::Int(s.range(0, 5)));
        }
        m.insert("b".to_string(), V::Bool(s.bool()));
        store.top.insert(o.to_string(), V::Obj(m));
    }
    set_store_context(&store);
    let max_cycles = match s.weighted(&[2, 1, 1, 6]) {
        0 => s.below(4),
        1 => 64,
        2 => 1,
        _ => s.below(65),
    };
    let n = 1 + s.below(6);
    let mut sal = vec![60, 50, 40, 30, 20, 10];
    let rules = (0..n)
        .map(|i| {
            let k = s.below(sal.len());
            let sl = sal.remove(k);
            gen_loop_rule(s, &cfg, i, sl)
        })
        .collect();
    Case { rules, store, max_cycles }
}

pub struct ModelRun {
    pub seq: Vec<Firing>,
    pub passes: usize,
    pub final_store: Store,
    pub cut: Option<&'static str>,
    /// the last pass fired nothing (stopped at a fixpoint rather than at the bound)
    pub quiesced: bool,
    pub fired_no_loop: Vec<String>,
}

pub fn model_run(rules: &[RuleAst], store: &Store, max_cycles: usize, uni: &[String]) -> ModelRun {
    let mut order: Vec<&RuleAst> = rules.iter().collect();
    order.sort_by_key(|r| std::cmp::Reverse(r.salience));
    let mut m = store.clone();
    let mut seq = Vec::new();
    let mut fired_global: Vec<String> = Vec::new();
    let mut passes = 0;
    let mut quiesced = false;
    for _ in 0..max_cycles {
        passes += 1;
        let mut any = false;
        for r in &order {
            if r.no_loop && fired_global.contains(&r.name) {
                continue;
            }
            match eval_cond(&r.cond, &m) {
                T3::Undef(u) => return ModelRun { seq, passes, final_store: m, cut: Some(u), quiesced: false, fired_no_loop: fired_global },
                T3::False => {}
                T3::True => {
                    for a in &r.actions {
                        match eval_term_rhs(&a.rhs, &m) {
                            Ok(v) => m.write(&a.target, v),
                            Err(u) => return ModelRun { seq, passes, final_store: m, cut: Some(u), quiesced: false, fired_no_loop: fired_global },
                        }
                    }
                    any = true;
                    if r.no_loop {
                        fired_global.push(r.name.clone());
                    }
                    seq.push(Firing { rule: r.name.clone(), reads: snapshot_model(&m, uni) });
                }
            }
        }
        if !any {
            quiesced = true;
            break;
        }
    }
    ModelRun { seq, passes, final_store: m, cut: None, quiesced, fired_no_loop: fired_global }
}

fn store_from_engine(f: &rust_rule_engine::Facts) -> Store {
    let mut st = Store::default();
    for (k, v) in f.get_all_facts() {
        st.top.insert(k, V::from_engine(&v));
    }
    st
}

pub fn run(s: &mut Src, ctx: &mut Ctx) -> Verdict {
    let c = gen_case(s);
    if probe_only() {
        return Verdict::Pass;
    }
    ctx.describe(|| format!("max_cycles={}\n{}", c.max_cycles, describe(&c.rules, &c.store)));
    let uni = paths_for(&c.rules);
    let m = model_run(&c.rules, &c.store, c.max_cycles, &uni);
    let mut engine = match load(&c.rules, c.max_cycles) {
        Ok(e) => e,
        Err(why) => return Verdict::Discard(why),
    };
    let facts = c.store.to_facts();
    let mut e_seq: Vec<Firing> = Vec::new();
    let res = catch(|| {
        engine.execute_with_callback(&facts, |name, f| {
            e_seq.push(Firing { rule: name.to_string(), reads: snapshot_engine(f, &uni) });
        })
    });
    let res = match res {
        Ok(r) => r,
        Err(p) => {
            if let Some(u) = m.cut {
                return Verdict::Discard(undef_reason(u));
            }
            return Verdict::fail(format!("panic@{}", p.split(": ").next().unwrap_or("?")), p);
        }
    };
    // (b),(c) hold for every case that returned Ok, defined or not
    if let Ok(r) = &res {
        if r.cycle_count > c.max_cycles {
            return Verdict::fail("cycle-count-exceeds-bound", format!("cycle_count={} > max_cycles={}", r.cycle_count, c.max_cycles));
        }
        if r.rules_fired != e_seq.len() {
            return Verdict::fail("rules-fired-vs-callbacks", format!("rules_fired={} callbacks={}", r.rules_fired, e_seq.len()));
        }
    }
    // judged prefix of the firing sequence
    for (i, mf) in m.seq.iter().enumerate() {
        match e_seq.get(i) {
            None => return Verdict::fail("missing-firing", format!("firing #{} ({}) expected by REF did not happen; engine fired {} rules", i, mf.rule, e_seq.len())),
            Some(ef) if ef.rule != mf.rule => return Verdict::fail("firing-sequence", format!("firing #{}: engine {} but REF {}", i, ef.rule, mf.rule)),
            Some(ef) if ef.reads != mf.reads => {
                let d = uni.iter().enumerate().find(|(j, _)| ef.reads[*j] != mf.reads[*j]).map(|(j, p)| format!("{}: engine {:?}, expected {:?}", p, ef.reads[j], mf.reads[j])).unwrap_or_default();
                return Verdict::fail("assignment-value", format!("after firing #{} ({}): {}", i, mf.rule, d));
            }
            _ => {}
        }
    }
    if let Some(u) = m.cut {
        ctx.label("cut-at-undefined");
        return Verdict::Discard(undef_reason(u));
    }
    let r = match res {
        Ok(r) => r,
        Err(e) => return Verdict::fail("execute-error", format!("execute returned Err({}) on a fully defined case", e)),
    };
    if e_seq.len() != m.seq.len() {
        return Verdict::fail("extra-firing", format!("engine fired {} rules, REF {}; first extra: {}", e_seq.len(), m.seq.len(), e_seq[m.seq.len()].rule));
    }
    if r.cycle_count != m.passes {
        return Verdict::fail("pass-count", format!("cycle_count={} but REF makes {} passes (max_cycles={}, quiesced={})", r.cycle_count, m.passes, c.max_cycles, m.quiesced));
    }
    let fin = snapshot_engine(&facts, &uni);
    if fin != snapshot_model(&m.final_store, &uni) {
        return Verdict::fail("final-store", "final facts differ from REF");
    }
    // the other entry point (execute -> execute_at_time) must agree: counters and final facts
    {
        let mut engine2 = match load(&c.rules, c.max_cycles) {
            Ok(e) => e,
            Err(why) => return Verdict::Discard(why),
        };
        let facts2 = c.store.to_facts();
        match catch(|| engine2.execute(&facts2)) {
            Err(p) => return Verdict::fail(format!("panic@{}", p.split(": ").next().unwrap_or("?")), p),
            Ok(Err(e)) => return Verdict::fail("execute-error", format!("execute() returned Err({}) on a fully defined case", e)),
            Ok(Ok(r2)) => {
                if r2.cycle_count != m.passes {
                    return Verdict::fail("pass-count", format!("execute(): cycle_count={} but REF makes {} passes (max_cycles={})", r2.cycle_count, m.passes, c.max_cycles));
                }
                if r2.rules_fired != m.seq.len() {
                    return Verdict::fail("rules-fired-count", format!("execute(): rules_fired={} but REF fires {}", r2.rules_fired, m.seq.len()));
                }
                if snapshot_engine(&facts2, &uni) != snapshot_model(&m.final_store, &uni) {
                    return Verdict::fail("final-store", "execute(): final facts differ from REF");
                }
            }
        }
    }
    // (e) fixpoint on the engine's own final facts
    if r.cycle_count < c.max_cycles || m.quiesced {
        let st = store_from_engine(&facts);
        for rule in &c.rules {
            if rule.no_loop && m.fired_no_loop.contains(&rule.name) {
                continue;
            }
            if eval_cond(&rule.cond, &st) == T3::True {
                return Verdict::fail("not-a-fixpoint", format!("stopped after {} of {} cycles but rule {} is still true on the final facts", r.cycle_count, c.max_cycles, rule.name));
            }
        }
    }
    if !m.quiesced && c.max_cycles > 0 {
        ctx.label("hit-bound-while-firing");
    }
    if m.quiesced {
        ctx.label("quiesced");
    }
    if m.passes >= 3 {
        ctx.label("passes>=3");
    }
    if c.rules.iter().any(|r| r.no_loop) {
        ctx.label("has-no-loop");
    }
    if m.seq.iter().any(|f| c.rules.iter().any(|r| r.name == f.rule && r.actions.is_empty())) {
        ctx.label("fired-a-rule-without-actions");
    }
    if c.max_cycles <= 1 && !m.seq.is_empty() {
        ctx.label("max_cycles<=1-firing");
    }
    if (!m.quiesced && c.max_cycles > 0 && !m.seq.is_empty()) || m.passes >= 3 || (c.max_cycles <= 1 && c.rules.iter().any(|r| eval_cond(&r.cond, &c.store) == T3::True)) {
        ctx.nontrivial(hash_of(&(hash_rules(&c.rules, &c.store), c.max_cycles)));
    }
    Verdict::Pass
}

/// Several execute calls on ONE engine and ONE fact store, with activation groups and with rules whose
/// action fails (execute returns Err in the middle of a pass). "Every call to execute ..." — the clauses that
/// need no model of the error semantics are judged on every call: it returns, cycle_count <= max_cycles,
/// rules_fired = callbacks, and when it stopped before the bound no rule that is still eligible is true on
/// the final facts (in a pass that fired nothing every enabled rule was evaluated, whatever happened before).
pub fn run_reuse(s: &mut Src, ctx: &mut Ctx) -> Verdict {
    let mut c = gen_case(s);
    let n = c.rules.len();
    let groups: Vec<Option<usize>> = (0..n).map(|_| if s.chance(1, 2) { Some(s.below(2)) } else { None }).collect();
    // one rule may carry an assignment that cannot be evaluated (reads a field that does not exist)
    let failing = if s.chance(2, 3) { Some(s.below(n)) } else { None };
    if let Some(i) = failing {
        let pos = s.below(c.rules[i].actions.len() + 1);
        c.rules[i].actions.insert(pos, Assign { target: "A.tmp".into(), rhs: Term::Arith(Arith { first: Operand::Field("Z.missing".into()), rest: vec![('+', Operand::Lit(V::Int(1)))] }) });
    }
    let ncalls = 2 + s.below(2);
    let tweaks: Vec<(usize, i64)> = (0..ncalls).map(|_| (s.below(INTS.len() + 1), s.range(0, 5))).collect();
    c.max_cycles = c.max_cycles.max(1);
    // drawn last: in one case in four (with >= 2 rules) the engine starts on a knowledge base that holds all rules but
    // the last, with the first one switched off (n - 1 adds + 1 toggle = n changes), and before call `swap` the caller
    // replaces it -- `*engine.knowledge_base_mut() = other` -- by another object that holds ALL rules, built from
    // scratch (n adds = n changes: same name, same version number). From then on the rule set is the new one.
    let swap: Option<usize> = if n >= 2 && s.chance(1, 4) { Some(1 + s.below(ncalls - 1)) } else { None };
    if probe_only() {
        return Verdict::Pass;
    }
    ctx.describe(|| {
        format!(
            "max_cycles={} activation groups {:?} calls={} tweaks before each call {:?}{}\n{}",
            c.max_cycles,
            groups,
            ncalls,
            tweaks,
            match swap {
                Some(k) => format!("; the engine starts on a knowledge base without the last rule and with {} disabled, replaced through knowledge_base_mut() before call {} by a fresh one holding all rules", c.rules[0].name, k),
                None => String::new(),
            },
            describe(&c.rules, &c.store)
        )
    });
    let build = |upto: usize| -> Option<rust_rule_engine::KnowledgeBase> {
        let kb = rust_rule_engine::KnowledgeBase::new("kb");
        for (r, g) in c.rules.iter().zip(groups.iter()).take(upto) {
            let mut rule = rule_to_engine(r);
            if let Some(g) = g {
                rule = rule.with_activation_group(format!("g{}", g));
            }
            if kb.add_rule(rule).is_err() {
                return None;
            }
        }
        Some(kb)
    };
    let kb = match build(if swap.is_some() { n - 1 } else { n }) {
        Some(k) => k,
        None => return Verdict::fail("add-rule-error", ""),
    };
    if swap.is_some() {
        let _ = kb.set_rule_enabled(&c.rules[0].name, false);
        ctx.label("knowledge-base-replaced-between-calls");
    }
    let mut engine = rust_rule_engine::RustRuleEngine::with_config(kb, rust_rule_engine::EngineConfig { max_cycles: c.max_cycles, timeout: None, enable_stats: false, debug_mode: false });
    let facts = c.store.to_facts();
    let mut ever_fired: Vec<String> = Vec::new();
    let mut errs = 0;
    let mut judged_fixpoints = 0;
    let mut fixpoint_after_err = false;
    for call in 0..ncalls {
        if swap == Some(call) {
            match build(n) {
                Some(k) => *engine.knowledge_base_mut() = k,
                None => return Verdict::fail("add-rule-error", ""),
            }
        }
        // the rules the engine holds during this call
        let before_swap = swap.map(|k| call < k).unwrap_or(false);
        let held = |i: usize| -> bool { !before_swap || (i != 0 && i != n - 1) };
        let (k, v) = tweaks[call];
        if k < INTS.len() {
            let _ = facts.set_nested(INTS[k], rust_rule_engine::Value::Integer(v));
        }
        let mut cb: Vec<String> = Vec::new();
        // the two entry points alternate; which one goes first depends on the case (so that a swap of the knowledge
        // base can lie between two calls of the SAME entry point)
        let use_cb = (call + crate::core::case_bit(11) as usize) % 2 == 0;
        let res = catch(|| if use_cb { engine.execute_with_callback(&facts, |n, _| cb.push(n.to_string())) } else { engine.execute(&facts) });
        let res = match res {
            Ok(r) => r,
            Err(p) => return Verdict::fail(format!("panic@{}", p.split(": ").next().unwrap_or("?")), p),
        };
        match res {
            Err(_) => {
                errs += 1;
                // fired no-loop rules of this call are unknown without the callback list being complete; be conservative
                ever_fired.extend(cb);
                if !use_cb {
                    // unknown which rules fired before the error: every no-loop rule may have
                    ever_fired.extend(c.rules.iter().filter(|r| r.no_loop).map(|r| r.name.clone()));
                }
            }
            Ok(r) => {
                if r.cycle_count > c.max_cycles {
                    return Verdict::fail("cycle-count-exceeds-bound", format!("call {}: cycle_count={} > max_cycles={}", call, r.cycle_count, c.max_cycles));
                }
                if use_cb && r.rules_fired != cb.len() {
                    return Verdict::fail("rules-fired-vs-callbacks", format!("call {}: rules_fired={} callbacks={}", call, r.rules_fired, cb.len()));
                }
                if use_cb {
                    ever_fired.extend(cb);
                } else if r.rules_fired > 0 {
                    ever_fired.extend(c.rules.iter().filter(|r| r.no_loop).map(|r| r.name.clone()));
                }
                if r.cycle_count < c.max_cycles {
                    // stopped before the bound: fixpoint on the engine's own final facts
                    let st = store_from_engine(&facts);
                    for (ri, rule) in c.rules.iter().enumerate() {
                        if !held(ri) || (rule.no_loop && ever_fired.contains(&rule.name)) {
                            continue;
                        }
                        if eval_cond(&rule.cond, &st) == T3::True {
                            return Verdict::fail(
                                if swap.map(|k| call >= k).unwrap_or(false) { "not-a-fixpoint:after-the-knowledge-base-was-replaced" } else { "not-a-fixpoint:reused-engine" },
                                format!("call {} on a reused engine stopped after {} of {} cycles (fired {}) but rule {} is still true on the final facts ({} earlier calls returned Err)", call, r.cycle_count, c.max_cycles, r.rules_fired, rule.name, errs),
                            );
                        }
                    }
                    judged_fixpoints += 1;
                    if errs > 0 {
                        fixpoint_after_err = true;
                    }
                }
            }
        }
    }
    if errs > 0 {
        ctx.label("some-call-returned-Err");
    }
    if fixpoint_after_err {
        ctx.label("fixpoint-judged-after-an-Err-call");
    }
    if groups.iter().any(|g| g.is_some()) {
        ctx.label("has-activation-groups");
    }
    if judged_fixpoints > 0 && (errs > 0 || groups.iter().filter(|g| g.is_some()).count() >= 2) {
        ctx.nontrivial(hash_of(&(hash_rules(&c.rules, &c.store), c.max_cycles, format!("{:?}{:?}", groups, tweaks))));
    }
    Verdict::Pass
}

pub fn run_api(s: &mut Src, ctx: &mut Ctx) -> Verdict {
    VIA_PARSER.with(|v| v.set(false));
    let r = run(s, ctx);
    VIA_PARSER.with(|v| v.set(true));
    r
}

pub fn property() -> Property {
    Property {
        id: "C03",
        level: "exploration",
        rule: "generated: 1-6 rules biased to loops (bounded counters, always-true increments, flag toggles that re-enable each other, chains, random typed-core rules over the same int/flag fields), each no-loop with probability 1/4, distinct saliences, x stores of 3 objects x max_cycles in 0..=64 (mass on 0..3, 1, 64), timeout None; loaded through GRLParser (part parser) or as identical Rule values (part api). Oracle: returns (monitor watchdog 120 s); cycle_count <= max_cycles; rules_fired = callbacks; REF multi-pass interpreter with no-loop: exact firing sequence, store after every firing, number of passes, final store; when stopped before the bound, REF re-evaluates every still-eligible rule on the engine's own final facts (fixpoint). Part `reuse`: 2-3 execute calls (alternating execute_with_callback / execute) on ONE engine and fact store, rules with activation groups and possibly one rule whose action fails (execute returns Err mid-pass), a fact tweaked before each call; judged per call: returns, cycle_count <= max_cycles, rules_fired = callbacks, and fixpoint on the final facts whenever the call stopped before the bound. Non-trivial: reaches the bound while still firing, or >= 3 passes, or max_cycles in {0,1} with a rule whose condition is true; distinct by (program, store, max_cycles). Part `agenda`: C02's rule generator (2-7 API-built rules with salience, enabled, no-loop, lock-on-active, agenda group, activation group, dates, flag conditions, SetFlag / ActivateAgendaGroup actions), max_cycles in {1,2,3,4,6,8,12}, histories of 3-8 steps (execute in three entry points, set_agenda_focus, reset_no_loop_tracking, enable/disable, flag flips); no trace is predicted: the eligibility state (no-loop flags, rules locked in the current activation of their group) is rebuilt from the firings the engine itself reports and judged on the engine's own final facts and focus: cycle_count <= max_cycles, rules_fired = firings, nothing fired => at most one cycle, and a call that stops before the bound leaves no eligible rule with a true condition. Non-trivial there: stopped before the bound after more firings than rules, or after an action re-activated a group in which a lock-on-active rule had fired. Part reuse, knowledge-base replacement (1 case in 4 with >= 2 rules, drawn last): the engine starts on a knowledge base without the last rule and with the first rule disabled (n changes) and before a later call the caller assigns a freshly built knowledge base holding all n rules (n changes: same name, same version number) through knowledge_base_mut(); the fixpoint clause is judged against the rules the engine holds during each call. In part reuse the two entry points alternate from a case-dependent start, so a replacement of the knowledge base can lie between two calls of the same entry point.",
        assumptions: vec!["REF (typed.rs) is the trusted reference".into(), "termination judged by the 120 s watchdog of the monitor process".into()],
        parts: vec![
            Part { name: "parser", run, quick: Budget::Random { cases: 20_000, bytes: 400 }, thorough: Budget::Random { cases: 200_000, bytes: 400 }, min_nontrivial_pct: 30 },
            Part { name: "reuse", run: run_reuse, quick: Budget::Random { cases: 400_000, bytes: 450 }, thorough: Budget::Random { cases: 2_000_000, bytes: 450 }, min_nontrivial_pct: 5 },
            Part { name: "agenda", run: crate::c02::run_c03_agenda, quick: Budget::Random { cases: 500_000, bytes: 300 }, thorough: Budget::Random { cases: 10_000_000, bytes: 300 }, min_nontrivial_pct: 5 },
            Part { name: "api", run: run_api, quick: Budget::Random { cases: 300_000, bytes: 400 }, thorough: Budget::Random { cases: 2_000_000, bytes: 400 }, min_nontrivial_pct: 30 },
        ],
        watchdog: true,
        replay_reps: 2,
    }
}
