//! C18 — module imports stay acyclic and visibility matches the declarations.
//!
//! Generator: histories of ≤ 7 operations (create, delete, set-exports,
//! add-rule, import with/without re-export) over the module names
//! {A, B, C, MAIN} and the rule names {r1, r12, qr1}; random (state-aware bias
//! towards existing modules and towards delete / re-create / import-back
//! histories) and exhaustive over small alphabets (every history, and every
//! history of operations that address existing modules).
//!
//! Oracle: a model written from the statement. The *import declarations* are
//! taken from `get_module(..).get_imports()` after every operation and
//! validated against the allowed transitions (accepted import ⇒ exactly one
//! declaration appended; refused import ⇒ nothing changes; successful delete ⇒
//! importers either keep or lose their declarations from the deleted module —
//! the statement does not say which; anything else ⇒ unchanged). On the
//! validated declarations the state oracle demands: acyclic among existing
//! modules, equal to `get_import_graph` restricted to existing modules, every
//! visibility query answers, and visibility equals "owns, or rule-import with
//! matching pattern from an existing module that owns and exports it".

use crate::core::*;
use crate::runner::*;
use rust_rule_engine::engine::module::{
    ExportItem, ExportList, ImportDecl, ImportType, ItemType, ModuleManager, ReExport,
};
use std::collections::{BTreeMap, BTreeSet};
use std::sync::OnceLock;

/// Known finding C18-F1: `delete_module` leaves the import declarations of the
/// importers behind. While the tree shows the defect (see `f1_present`) the
/// generator turns every delete of a module that another existing module
/// imports into a no-op, so that the search continues behind the defect. On a
/// tree where deleting a module also removes the importers' declarations the
/// switch is inactive and those histories are generated and judged. Set the
/// constant to `false` to switch the exclusion off unconditionally.
const F1_EXCLUDED: bool = false;

/// One fixed probe, evaluated once per process: does an import declaration
/// outlive the deletion of its source module? (Generator side only — the oracle
/// never consults it.)
fn f1_present() -> bool {
    static P: OnceLock<bool> = OnceLock::new();
    *P.get_or_init(|| {
        let mut m = crate::core::new_or_default(ModuleManager::new);
        let _ = m.create_module("X");
        let _ = m.import_from("MAIN", "X", ImportType::AllRules, "*");
        let _ = m.delete_module("X");
        m.get_module("MAIN").map(|x| !x.get_imports().is_empty()).unwrap_or(false)
    })
}

const MODS: [&str; 4] = ["A", "B", "C", "MAIN"];
const MAIN: u8 = 3;
const RULES: [&str; 3] = ["r1", "r12", "qr1"];

#[derive(Clone, Copy, Debug, PartialEq, Eq, Hash, PartialOrd, Ord)]
enum Ty {
    AllRules,
    Rules,
    All,
    AllTemplates,
    Templates,
}
const TYS: [Ty; 5] = [Ty::AllRules, Ty::Rules, Ty::All, Ty::AllTemplates, Ty::Templates];

impl Ty {
    fn engine(self) -> ImportType {
        match self {
            Ty::AllRules => ImportType::AllRules,
            Ty::Rules => ImportType::Rules,
            Ty::All => ImportType::All,
            Ty::AllTemplates => ImportType::AllTemplates,
            Ty::Templates => ImportType::Templates,
        }
    }
    fn of(t: &ImportType) -> Ty {
        match t {
            ImportType::AllRules => Ty::AllRules,
            ImportType::Rules => Ty::Rules,
            ImportType::All => Ty::All,
            ImportType::AllTemplates => Ty::AllTemplates,
            ImportType::Templates => Ty::Templates,
        }
    }
    /// does an import of this type import rules?
    fn rules(self) -> bool {
        matches!(self, Ty::AllRules | Ty::Rules | Ty::All)
    }
}

/// the four pattern shapes of the design: `*`, `r*`, `*1`, exact name
#[derive(Clone, Copy, Debug, PartialEq, Eq, Hash)]
enum Pat {
    Star,
    PrefixR,
    Suffix1,
    Exact(u8),
}
const PATS: [Pat; 6] = [Pat::Star, Pat::PrefixR, Pat::Suffix1, Pat::Exact(0), Pat::Exact(1), Pat::Exact(2)];

impl Pat {
    fn text(self) -> &'static str {
        match self {
            Pat::Star => "*",
            Pat::PrefixR => "r*",
            Pat::Suffix1 => "*1",
            Pat::Exact(i) => RULES[i as usize],
        }
    }
}

#[derive(Clone, Copy, Debug, PartialEq, Eq, Hash)]
enum Item {
    Rule,
    All,
    Template,
}

#[derive(Clone, Debug, PartialEq, Eq, Hash)]
enum Exp {
    All,
    None,
    Specific(Vec<(Item, Pat)>),
}

impl Exp {
    fn engine(&self) -> ExportList {
        match self {
            Exp::All => ExportList::All,
            Exp::None => ExportList::None,
            Exp::Specific(v) => ExportList::Specific(
                v.iter()
                    .map(|(it, p)| ExportItem {
                        item_type: match it {
                            Item::Rule => ItemType::Rule,
                            Item::All => ItemType::All,
                            Item::Template => ItemType::Template,
                        },
                        pattern: p.text().to_string(),
                    })
                    .collect(),
            ),
        }
    }
}

#[derive(Clone, Debug, PartialEq, Eq, Hash)]
enum Op {
    Create(u8),
    Delete(u8),
    Exports(u8, Exp),
    AddRule(u8, u8),
    Import { to: u8, from: u8, ty: Ty, pat: Pat, re: Option<(Pat, bool)> },
    /// an operation removed by a known-finding exclusion (what it was is kept for the description)
    Excluded(Box<Op>),
}

fn show(op: &Op) -> String {
    let m = |i: &u8| MODS[*i as usize];
    match op {
        Op::Create(x) => format!("create {}", m(x)),
        Op::Delete(x) => format!("delete {}", m(x)),
        Op::Exports(x, e) => match e {
            Exp::All => format!("exports {}=All", m(x)),
            Exp::None => format!("exports {}=None", m(x)),
            Exp::Specific(v) => format!(
                "exports {}=Specific[{}]",
                m(x),
                v.iter().map(|(i, p)| format!("{:?} \"{}\"", i, p.text())).collect::<Vec<_>>().join(", ")
            ),
        },
        Op::AddRule(x, r) => format!("add_rule {} {}", m(x), RULES[*r as usize]),
        Op::Import { to, from, ty, pat, re } => format!(
            "import {}<-{} {:?} \"{}\"{}",
            m(to),
            m(from),
            ty,
            pat.text(),
            match re {
                None => String::new(),
                Some((p, t)) => format!(" re-export[\"{}\"{}]", p.text(), if *t { ", transitive" } else { "" }),
            }
        ),
        Op::Excluded(o) => format!("<{} — removed, known finding F1>", show(o)),
    }
}

// ---------------------------------------------------------------------------
// generator
// ---------------------------------------------------------------------------

/// Light simulation used by the generator only: which modules exist and which
/// import edges were accepted. It biases the random choices towards existing
/// modules, prunes the exhaustive trees and decides the known-finding
/// exclusion. It is not the oracle.
struct Sim {
    exists: [bool; 4],
    gone: [bool; 4],       // deleted and not re-created
    edges: Vec<(u8, u8)>,  // (to, from)
    former: Vec<(u8, u8)>, // (importer, module that was deleted while imported by it)
}

impl Sim {
    fn new() -> Sim {
        Sim { exists: [false, false, false, true], gone: [false; 4], edges: Vec::new(), former: Vec::new() }
    }
    fn reach(&self, a: u8, b: u8) -> bool {
        // is there a path a -> ... -> b along edges between existing modules
        let mut seen = [false; 4];
        let mut stack = vec![a];
        while let Some(x) = stack.pop() {
            for &(t, f) in &self.edges {
                if t == x && self.exists[f as usize] && !seen[f as usize] {
                    if f == b {
                        return true;
                    }
                    seen[f as usize] = true;
                    stack.push(f);
                }
            }
        }
        false
    }
    fn imported_by_other(&self, x: u8) -> bool {
        self.edges.iter().any(|&(t, f)| f == x && t != x && self.exists[t as usize])
    }
    /// does the operation address existing modules only (and, for create, a missing one)?
    fn enabled(&self, op: &Op) -> bool {
        let e = |x: &u8| self.exists[*x as usize];
        match op {
            Op::Create(x) => !e(x),
            Op::Delete(x) => e(x) && *x != MAIN,
            Op::Exports(x, _) | Op::AddRule(x, _) => e(x),
            Op::Import { to, from, .. } => e(to) && e(from),
            Op::Excluded(_) => false,
        }
    }
    /// apply the operation; returns the operation to execute (possibly rewritten)
    fn apply(&mut self, op: Op, excl: bool, ctx: &mut Ctx) -> Op {
        match &op {
            Op::Create(x) => {
                self.exists[*x as usize] = true;
                self.gone[*x as usize] = false;
            }
            Op::Delete(x) => {
                if *x != MAIN && self.exists[*x as usize] {
                    if excl && self.imported_by_other(*x) {
                        ctx.exclude("F1-delete-of-imported-module");
                        return Op::Excluded(Box::new(op));
                    }
                    self.exists[*x as usize] = false;
                    self.gone[*x as usize] = true;
                    let x = *x;
                    for &(t, f) in &self.edges {
                        if f == x && t != x && !self.former.contains(&(t, x)) {
                            self.former.push((t, x));
                        }
                    }
                    self.edges.retain(|&(t, f)| t != x && f != x);
                }
            }
            Op::Import { to, from, .. } => {
                let (t, f) = (*to, *from);
                if self.exists[t as usize] && self.exists[f as usize] && t != f && !self.reach(f, t) {
                    self.edges.push((t, f));
                }
            }
            _ => {}
        }
        op
    }
}

/// index chosen by integer weights from one raw byte (first alternative = simplest)
fn wsel(raw: usize, w: &[usize]) -> usize {
    let total: usize = w.iter().sum();
    let mut v = (raw * total) >> 8;
    for (i, x) in w.iter().enumerate() {
        if v < *x {
            return i;
        }
        v -= *x;
    }
    w.len() - 1
}

/// module index from one raw byte: 7 times out of 8 from `pool` (the modules
/// that make the operation effective), otherwise any of the four names
fn sel_mod(raw: usize, pool: &[u8]) -> u8 {
    let v = raw >> 5; // 0..8
    if v == 7 || pool.is_empty() {
        (raw & 3) as u8
    } else {
        pool[v % pool.len()]
    }
}

fn sel_pat(raw: usize) -> Pat {
    PATS[(raw * PATS.len()) >> 8]
}

/// Random histories. Every operation consumes exactly nine bytes (kind + eight
/// fields, unused ones ignored) so that the byte shrinker can delete one
/// operation without re-interpreting the others.
fn gen_random(s: &mut Src, excl: bool, ctx: &mut Ctx) -> Vec<Op> {
    // length 0..=7, long histories preferred; 0 is the simplest
    let n = s.weighted(&[1, 1, 1, 1, 2, 3, 5, 18]);
    let mut sim = Sim::new();
    let mut ops = Vec::with_capacity(n);
    for _ in 0..n {
        let k = s.below(256);
        let mut f = [0usize; 8];
        for x in f.iter_mut() {
            *x = s.below(256);
        }
        let existing: Vec<u8> = (0..4u8).filter(|i| sim.exists[*i as usize]).collect();
        let missing: Vec<u8> = (0..4u8).filter(|i| !sim.exists[*i as usize]).collect();
        let deletable: Vec<u8> = existing.iter().copied().filter(|m| *m != MAIN).collect();
        let imported: Vec<u8> = deletable.iter().copied().filter(|m| sim.imported_by_other(*m)).collect();
        // modules deleted while imported whose importer is still there, and such modules after re-creation
        let orphaned: Vec<u8> = missing.iter().copied().filter(|x| sim.former.iter().any(|&(a, y)| y == *x && sim.exists[a as usize])).collect();
        let live: Vec<(u8, u8)> = sim.former.iter().copied().filter(|&(a, x)| sim.exists[a as usize] && sim.exists[x as usize]).collect();
        // the weights steer towards the histories the property names: delete of an imported
        // module, its re-creation, imports through the re-created module; otherwise create
        // modules first and then mostly import
        let weights: [usize; 5] = if !live.is_empty() {
            [1, 12, 2, 2, 2]
        } else if !orphaned.is_empty() {
            [10, 5, 1, 2, 2]
        } else if !imported.is_empty() {
            if existing.len() < 3 {
                [6, 5, 5, 3, 2]
            } else {
                [1, 8, 6, 3, 3]
            }
        } else if existing.len() < 3 {
            [10, 5, 1, 3, 2]
        } else {
            [1, 10, 3, 3, 3]
        };
        let op = match wsel(k, &weights) {
            0 => Op::Create(sel_mod(f[0], if orphaned.is_empty() { &missing } else { &orphaned })),
            1 => {
                let mut to = sel_mod(f[0], &existing);
                let others: Vec<u8> = existing.iter().copied().filter(|m| *m != to).collect();
                let mut from = sel_mod(f[1], &others);
                // sometimes: a re-created module imports from a module that imported its predecessor
                if !live.is_empty() && f[7] >= 128 {
                    let (a, x) = live[f[7] % live.len()];
                    to = x;
                    from = a;
                }
                Op::Import {
                    to,
                    from,
                    ty: TYS[wsel(f[2], &[4, 2, 2, 2, 1])],
                    pat: sel_pat(f[3]),
                    re: if f[4] >= 205 { Some((sel_pat(f[5]), f[6] >= 128)) } else { None },
                }
            }
            2 => {
                // half of the time a module that another one imports, when there is one
                Op::Delete(sel_mod(f[0], if f[1] >= 128 && !imported.is_empty() { &imported } else { &deletable }))
            }
            3 => Op::AddRule(sel_mod(f[0], &existing), ((f[1] * 3) >> 8) as u8),
            _ => {
                let m = sel_mod(f[0], &existing);
                let item = |a: usize, b: usize| ([Item::Rule, Item::All, Item::Template][wsel(a, &[4, 1, 1])], sel_pat(b));
                let e = match wsel(f[1], &[3, 1, 4]) {
                    0 => Exp::All,
                    1 => Exp::None,
                    _ => {
                        if f[2] < 128 {
                            Exp::Specific(vec![item(f[3], f[4])])
                        } else {
                            Exp::Specific(vec![item(f[3], f[4]), item(f[5], f[6])])
                        }
                    }
                };
                Op::Exports(m, e)
            }
        };
        ops.push(sim.apply(op, excl, ctx));
    }
    ops
}

/// Exhaustive alphabets. `kind` 0/1: modules {A, B, MAIN}, 45 operations
/// (creation, deletion, exports, rule assignment, four import variants);
/// `kind` 2: modules {A, B, C, MAIN}, 35 operations (creation, deletion, every
/// rule import incl. self-imports, every template import).
fn alphabet(kind: u32) -> &'static [Op] {
    static A0: OnceLock<Vec<Op>> = OnceLock::new();
    static A2: OnceLock<Vec<Op>> = OnceLock::new();
    if kind < 2 {
        A0.get_or_init(|| {
            let ms = [0u8, 1, MAIN];
            let mut v = vec![Op::Create(0), Op::Create(1)];
            for &to in &ms {
                for &from in &ms {
                    if to == from {
                        v.push(Op::Import { to, from, ty: Ty::AllRules, pat: Pat::Star, re: None });
                        continue;
                    }
                    v.push(Op::Import { to, from, ty: Ty::AllRules, pat: Pat::Star, re: None });
                    v.push(Op::Import { to, from, ty: Ty::Rules, pat: Pat::Suffix1, re: None });
                    v.push(Op::Import { to, from, ty: Ty::AllTemplates, pat: Pat::Star, re: None });
                    v.push(Op::Import { to, from, ty: Ty::AllRules, pat: Pat::Star, re: Some((Pat::Star, true)) });
                }
            }
            v.push(Op::Delete(0));
            v.push(Op::Delete(1));
            // r12 matches the export pattern r* but not the import pattern *1; qr1 the other way round
            for &m in &ms {
                v.push(Op::AddRule(m, 1));
                v.push(Op::AddRule(m, 2));
            }
            for &m in &ms {
                v.push(Op::Exports(m, Exp::All));
                v.push(Op::Exports(m, Exp::Specific(vec![(Item::Rule, Pat::PrefixR)])));
            }
            v.push(Op::Exports(MAIN, Exp::None));
            v.push(Op::Exports(0, Exp::Specific(vec![(Item::Template, Pat::Star)])));
            v
        })
    } else {
        A2.get_or_init(|| {
            let mut v = vec![Op::Create(0), Op::Create(1), Op::Create(2)];
            for to in 0..4u8 {
                for from in 0..4u8 {
                    v.push(Op::Import { to, from, ty: Ty::AllRules, pat: Pat::Star, re: None });
                    if to != from {
                        v.push(Op::Import { to, from, ty: Ty::AllTemplates, pat: Pat::Star, re: None });
                    }
                }
            }
            for m in 0..4u8 {
                v.push(Op::Delete(m));
            }
            v
        })
    }
}

/// `exh` = 100·pruned + 10·kind + length. kind 0: from the fresh manager;
/// kind 1: after `create A; create B`; kind 2 (the 4-module alphabet): after
/// `create A; create B; create C`. Unpruned: every step branches over the
/// whole alphabet. Pruned: every step branches over the operations of the
/// alphabet that address existing modules (create: a missing one) in the
/// generator's simulation — the others are refused by the engine and leave the
/// state unchanged, which the unpruned part and the random part verify.
/// Returns the operations and the index of the first step after which all
/// remaining choices are 0 (see `run`).
fn gen_exhaustive(s: &mut Src, exh: u32, excl: bool, ctx: &mut Ctx) -> (Vec<Op>, usize) {
    let (pruned, kind, len) = (exh / 100 == 1, (exh / 10) % 10, (exh % 10) as usize);
    let alpha = alphabet(kind);
    let prefix: &[Op] = match kind {
        0 => &[],
        1 => &[Op::Create(0), Op::Create(1)],
        _ => &[Op::Create(0), Op::Create(1), Op::Create(2)],
    };
    let mut sim = Sim::new();
    let mut ops = Vec::with_capacity(prefix.len() + len);
    for op in prefix {
        ops.push(sim.apply(op.clone(), excl, ctx));
    }
    let mut last_nonzero = 0; // number of leading steps up to the last non-zero choice
    for _ in 0..len {
        let (c, op) = if pruned {
            let enabled: Vec<&Op> = alpha.iter().filter(|o| sim.enabled(o)).collect();
            let c = s.below(enabled.len());
            (c, enabled[c].clone())
        } else {
            let c = s.below(alpha.len());
            (c, alpha[c].clone())
        };
        ops.push(sim.apply(op, excl, ctx));
        if c != 0 {
            last_nonzero = ops.len();
        }
    }
    (ops, last_nonzero)
}

// ---------------------------------------------------------------------------
// model
// ---------------------------------------------------------------------------

/// an import declaration as observed through `get_imports()`
#[derive(Clone, Debug, PartialEq, Eq, PartialOrd, Ord)]
struct Decl {
    from: String,
    ty: Ty,
    pat: String,
    re: Option<(Vec<String>, bool)>,
}

fn decl_of(d: &ImportDecl) -> Decl {
    Decl {
        from: d.from_module.clone(),
        ty: Ty::of(&d.import_type),
        pat: d.pattern.clone(),
        re: d.re_export.as_ref().map(|r| (r.patterns.clone(), r.transitive)),
    }
}

#[derive(Clone, Debug)]
struct MMod {
    rules: BTreeSet<&'static str>,
    exports: Exp,
    /// validated declarations, kept sorted (the order is not part of the statement)
    decls: Vec<Decl>,
}

type Model = [Option<MMod>; 4];

/// wildcard matching as documented: `*` everything, `p*` prefix, `*s` suffix, otherwise equality
fn pat_matches(p: &str, name: &str) -> bool {
    if p == "*" {
        true
    } else if let Some(pre) = p.strip_suffix('*') {
        name.starts_with(pre)
    } else if let Some(suf) = p.strip_prefix('*') {
        name.ends_with(suf)
    } else {
        p == name
    }
}

fn mod_index(name: &str) -> Option<usize> {
    MODS.iter().position(|m| *m == name)
}

fn m_exports_own(m: &MMod, r: &str) -> bool {
    m.rules.contains(r)
        && match &m.exports {
            Exp::All => true,
            Exp::None => false,
            Exp::Specific(v) => v.iter().any(|(it, p)| matches!(it, Item::Rule | Item::All) && pat_matches(p.text(), r)),
        }
}

/// owns, or a rule import with matching pattern from an existing module that owns and exports it
fn m_visible(model: &Model, m: usize, r: &str) -> bool {
    let mm = model[m].as_ref().unwrap();
    mm.rules.contains(r)
        || mm.decls.iter().any(|d| {
            d.ty.rules()
                && pat_matches(&d.pat, r)
                && mod_index(&d.from).and_then(|i| model[i].as_ref()).map(|src| m_exports_own(src, r)).unwrap_or(false)
        })
}

/// A legitimate one-step re-export chain, which every reading of "re-export" makes visible:
/// m imports (rule import, matching pattern) from an existing hub H; H declares a rule import with a
/// matching pattern from an existing source S *with a re-export clause one of whose patterns matches r*;
/// S owns r and exports it through its own export list.
fn m_visible_by_reexport_chain(model: &Model, m: usize, r: &str) -> bool {
    let mm = model[m].as_ref().unwrap();
    mm.decls.iter().any(|d| {
        d.ty.rules()
            && pat_matches(&d.pat, r)
            && mod_index(&d.from).and_then(|h| model[h].as_ref()).map(|hub| {
                hub.decls.iter().any(|e| {
                    e.ty.rules()
                        && pat_matches(&e.pat, r)
                        && e.re.as_ref().map(|(pats, _)| pats.iter().any(|p| pat_matches(p, r))).unwrap_or(false)
                        && mod_index(&e.from).and_then(|si| model[si].as_ref()).map(|src| m_exports_own(src, r)).unwrap_or(false)
                })
            }).unwrap_or(false)
    })
}

/// necessary condition that also holds with re-exports: owns, or some rule import
/// from an existing module has a matching pattern
fn m_visible_upper(model: &Model, m: usize, r: &str) -> bool {
    let mm = model[m].as_ref().unwrap();
    mm.rules.contains(r)
        || mm.decls.iter().any(|d| {
            d.ty.rules() && pat_matches(&d.pat, r) && mod_index(&d.from).map(|i| model[i].is_some()).unwrap_or(false)
        })
}

/// the relation "m has an import declaration from n, both exist"
fn relation(model: &Model) -> BTreeSet<(usize, usize)> {
    let mut r = BTreeSet::new();
    for (i, m) in model.iter().enumerate() {
        if let Some(m) = m {
            for d in &m.decls {
                if let Some(j) = mod_index(&d.from) {
                    if model[j].is_some() {
                        r.insert((i, j));
                    }
                }
            }
        }
    }
    r
}

/// path a -> ... -> b of length ≥ 1
fn reach(rel: &BTreeSet<(usize, usize)>, a: usize, b: usize) -> bool {
    let mut seen = [false; 4];
    let mut stack = vec![a];
    while let Some(x) = stack.pop() {
        for &(t, f) in rel {
            if t == x && !seen[f] {
                if f == b {
                    return true;
                }
                seen[f] = true;
                stack.push(f);
            }
        }
    }
    false
}

fn observed_decls(mgr: &ModuleManager, name: &str) -> Option<Vec<Decl>> {
    mgr.get_module(name).ok().map(|m| {
        let mut v: Vec<Decl> = m.get_imports().iter().map(decl_of).collect();
        v.sort();
        v
    })
}

type Graph = BTreeMap<String, BTreeSet<String>>;

fn observed_graph(mgr: &ModuleManager) -> Graph {
    mgr.get_import_graph().iter().map(|(k, v)| (k.clone(), v.iter().cloned().collect())).collect()
}

/// everything an import operation could conceivably touch
#[derive(PartialEq, Debug)]
struct Snapshot {
    decls: Vec<Option<Vec<Decl>>>,
    graph: Graph,
}

fn snapshot(mgr: &ModuleManager) -> Snapshot {
    Snapshot { decls: MODS.iter().map(|m| observed_decls(mgr, m)).collect(), graph: observed_graph(mgr) }
}

// ---------------------------------------------------------------------------
// the check
// ---------------------------------------------------------------------------

/// Signature prefix for failures that the oracle can attribute to an import declaration
/// which outlived the deletion of its source module (known finding C18-F1).
const STALE: &str = "stale-decl-after-delete:";

/// `kept`: (importer, source) pairs whose declaration survived `delete_module(source)`.
fn state_check(mgr: &ModuleManager, model: &Model, kept: &[(usize, usize)], step: usize, ctx: &mut Ctx) -> Result<(), Verdict> {
    let at = |s: String| format!("after step {}: {}", step, s);
    let sig = |stale: bool, s: &str| if stale { format!("{}{}", STALE, s) } else { s.to_string() };
    // existence and declarations as the model has them
    for (i, name) in MODS.iter().enumerate() {
        let obs = observed_decls(mgr, name);
        match (&obs, &model[i]) {
            (None, None) => {}
            (Some(o), Some(m)) => {
                if *o != m.decls {
                    return Err(Verdict::fail(
                        "decls-changed",
                        at(format!("import declarations of {} are {:?}, expected {:?}", name, o, m.decls)),
                    ));
                }
            }
            _ => {
                return Err(Verdict::fail(
                    "module-set",
                    at(format!("get_module({}) is {} but the module should {}exist", name, if obs.is_some() { "Ok" } else { "Err" }, if model[i].is_some() { "" } else { "not " })),
                ));
            }
        }
    }
    // (1) acyclic, and equal to the import graph restricted to existing modules
    let rel = relation(model);
    for i in 0..4 {
        if model[i].is_some() && reach(&rel, i, i) {
            return Err(Verdict::fail("import-cycle", at(format!("the import declarations contain a cycle through {}: {:?}", MODS[i], rel_names(&rel)))));
        }
    }
    let mut grel = BTreeSet::new();
    for (k, v) in mgr.get_import_graph() {
        for f in v {
            if let (Some(i), Some(j)) = (mod_index(k), mod_index(f)) {
                if model[i].is_some() && model[j].is_some() {
                    grel.insert((i, j));
                }
            }
        }
    }
    if let Some(e) = rel.difference(&grel).next() {
        let stale = kept.contains(e);
        return Err(Verdict::fail(
            sig(stale, "graph-lacks-declared-import"),
            at(format!(
                "{} declares an import from {} (both exist) but get_import_graph has no such edge{}; declarations {:?}, graph {:?}",
                MODS[e.0],
                MODS[e.1],
                if stale { format!(" ({} was deleted and re-created, the declaration is older)", MODS[e.1]) } else { String::new() },
                rel_names(&rel),
                rel_names(&grel)
            )),
        ));
    }
    if let Some(e) = grel.difference(&rel).next() {
        return Err(Verdict::fail(
            "graph-has-undeclared-import",
            at(format!("get_import_graph has {} -> {} (both exist) but {} has no such declaration; declarations {:?}, graph {:?}", MODS[e.0], MODS[e.1], MODS[e.0], rel_names(&rel), rel_names(&grel))),
        ));
    }
    // further views of the same relation: the module listing, the transitive import closure of every existing module
    // (everything reachable through declarations between existing modules, never the module itself: the relation is
    // acyclic), and validate_module, which must answer for every existing module and must not find an import from a
    // module that does not exist
    {
        let listed: BTreeSet<String> = mgr.list_modules().into_iter().collect();
        let want: BTreeSet<String> = MODS.iter().enumerate().filter(|(i, _)| model[*i].is_some()).map(|(_, n)| n.to_string()).collect();
        if listed != want {
            return Err(Verdict::fail("module-listing", at(format!("list_modules() = {:?} but the existing modules are {:?}", listed, want))));
        }
        for (i, name) in MODS.iter().enumerate() {
            if model[i].is_none() {
                continue;
            }
            match mgr.get_transitive_dependencies(name) {
                Err(e) => return Err(Verdict::fail("transitive-dependencies-err", at(format!("get_transitive_dependencies({}) returned Err: {}", name, e)))),
                Ok(v) => {
                    let got: BTreeSet<usize> = v.iter().filter_map(|n| mod_index(n)).filter(|j| model[*j].is_some()).collect();
                    let want: BTreeSet<usize> = (0..4).filter(|j| *j != i && model[*j].is_some() && reach(&rel, i, *j)).collect();
                    if got != want || v.iter().any(|n| n == name) {
                        return Err(Verdict::fail(
                            "transitive-dependencies",
                            at(format!(
                                "get_transitive_dependencies({}) = {:?} but through the declarations {:?} it reaches {:?}",
                                name,
                                v,
                                rel_names(&rel),
                                want.iter().map(|j| MODS[*j]).collect::<Vec<_>>()
                            )),
                        ));
                    }
                }
            }
            match mgr.validate_module(name) {
                Err(e) => return Err(Verdict::fail("validate-module-err", at(format!("validate_module({}) returned Err for an existing module: {}", name, e)))),
                Ok(v) => {
                    if let Some(e) = v.errors.iter().find(|e| e.contains("non-existent module")) {
                        let stale = kept.iter().any(|&(a, x)| a == i && model[x].is_none());
                        return Err(Verdict::fail(sig(stale, "import-from-missing-module"), at(format!("validate_module({}) reports: {}", name, e))));
                    }
                }
            }
        }
    }
    // (3), (4) visibility
    let reexports = model.iter().flatten().any(|m| m.decls.iter().any(|d| d.re.is_some()));
    if reexports {
        ctx.label("state-with-re-export");
    }
    for (i, name) in MODS.iter().enumerate() {
        if model[i].is_none() {
            continue;
        }
        // does this module still hold a declaration from a module that was deleted afterwards and is missing now?
        let stale = kept.iter().any(|&(a, x)| a == i && model[x].is_none());
        let why = if stale { " (it still declares an import from a deleted module)" } else { "" };
        let mut vis_model: BTreeSet<&str> = BTreeSet::new();
        let mut vis_upper: BTreeSet<&str> = BTreeSet::new();
        for r in RULES {
            let exact = m_visible(model, i, r);
            let upper = m_visible_upper(model, i, r);
            if exact {
                vis_model.insert(r);
            }
            if upper {
                vis_upper.insert(r);
            }
            match mgr.is_rule_visible(r, name) {
                Err(e) => {
                    return Err(Verdict::fail(
                        sig(stale, "query-err:is_rule_visible"),
                        at(format!("is_rule_visible({}, {}) = Err({}) although {} exists{}", r, name, e, name, why)),
                    ));
                }
                Ok(v) => {
                    if !reexports && v != exact {
                        return Err(Verdict::fail(
                            if v { "visible-but-not-owned-or-imported" } else { "owned-or-imported-but-not-visible" },
                            at(format!("is_rule_visible({}, {}) = {} but the declarations say {}; {}", r, name, v, exact, dump(model))),
                        ));
                    }
                    if reexports && v && !upper {
                        return Err(Verdict::fail(
                            "visible-without-matching-import",
                            at(format!("is_rule_visible({}, {}) = true but {} neither owns it nor has a rule import with a matching pattern; {}", r, name, name, dump(model))),
                        ));
                    }
                    if reexports && !v && !exact && m_visible_by_reexport_chain(model, i, r) {
                        return Err(Verdict::fail(
                            "declared-re-export-not-visible",
                            at(format!("is_rule_visible({}, {}) = false although {} imports it from a hub that declares a re-export of it from its exporting owner; {}", r, name, name, dump(model))),
                        ));
                    }
                    if reexports && v && !exact && m_visible_by_reexport_chain(model, i, r) {
                        ctx.label("sees-re-exported-rule");
                    }
                    if reexports && !v && exact {
                        return Err(Verdict::fail(
                            "owned-or-imported-but-not-visible",
                            at(format!("is_rule_visible({}, {}) = false but {} owns it or imports it from a module that owns and exports it; {}", r, name, name, dump(model))),
                        ));
                    }
                    if v && !model[i].as_ref().unwrap().rules.contains(r) {
                        ctx.label("sees-imported-rule");
                    }
                }
            }
        }
        match mgr.get_visible_rules(name) {
            Err(e) => {
                return Err(Verdict::fail(
                    sig(stale, "query-err:get_visible_rules"),
                    at(format!("get_visible_rules({}) = Err({}) although {} exists{}", name, e, name, why)),
                ));
            }
            Ok(list) => {
                let got: BTreeSet<&str> = list.iter().map(|s| s.as_str()).collect();
                if !reexports {
                    if got != vis_model {
                        return Err(Verdict::fail(
                            "visible-rules-list",
                            at(format!("get_visible_rules({}) = {:?} but the declarations say {:?}; {}", name, got, vis_model, dump(model))),
                        ));
                    }
                } else {
                    if !got.is_subset(&vis_upper) {
                        return Err(Verdict::fail(
                            "visible-rules-list-without-matching-import",
                            at(format!("get_visible_rules({}) = {:?} exceeds owned ∪ pattern-matched {:?}; {}", name, got, vis_upper, dump(model))),
                        ));
                    }
                    if !vis_model.is_subset(&got) {
                        return Err(Verdict::fail(
                            "visible-rules-list",
                            at(format!("get_visible_rules({}) = {:?} lacks rules owned or imported from their exporting owner {:?}; {}", name, got, vis_model, dump(model))),
                        ));
                    }
                }
            }
        }
        for r in RULES {
            if let Err(e) = mgr.is_template_visible(r, name) {
                return Err(Verdict::fail(
                    sig(stale, "query-err:is_template_visible"),
                    at(format!("is_template_visible({}, {}) = Err({}) although {} exists{}", r, name, e, name, why)),
                ));
            }
        }
    }
    Ok(())
}

fn rel_names(r: &BTreeSet<(usize, usize)>) -> Vec<String> {
    r.iter().map(|(a, b)| format!("{}<-{}", MODS[*a], MODS[*b])).collect()
}

fn dump(model: &Model) -> String {
    let mut s = String::from("model:");
    for (i, m) in model.iter().enumerate() {
        if let Some(m) = m {
            s.push_str(&format!(" {}{{rules {:?}, exports {:?}, imports {:?}}}", MODS[i], m.rules, m.exports, m.decls));
        }
    }
    s
}

/// label an event only when it happens in the judged part of the history
fn lab(ctx: &mut Ctx, judged: bool, l: &'static str) {
    if judged {
        ctx.label(l);
    }
}

pub fn run(s: &mut Src, ctx: &mut Ctx) -> Verdict {
    let excl = F1_EXCLUDED && !ctx.no_exclusions && f1_present();
    // `check_from`: first step whose resulting state is judged. Random histories: every step. Exhaustive
    // trees: a leaf judges the states after its last non-zero choice — every shorter prefix is judged by
    // the leaf that continues it with zero choices only, so each reachable state is judged exactly once.
    // Labels and the non-trivial flag likewise count only events inside the judged part.
    let (ops, check_from) = if ctx.exh > 0 { gen_exhaustive(s, ctx.exh, excl, ctx) } else { (gen_random(s, excl, ctx), 0) };
    if probe_only() {
        return Verdict::Pass;
    }
    ctx.describe(|| ops.iter().map(show).collect::<Vec<_>>().join("; "));

    let mut mgr = crate::core::new_or_default(ModuleManager::new);
    let mut model: Model = [None, None, None, Some(MMod { rules: BTreeSet::new(), exports: Exp::All, decls: Vec::new() })];
    let mut ever_deleted = [false; 4];
    // (importer, module) pairs: module was deleted while importer declared an import from it
    let mut former: Vec<(usize, usize)> = Vec::new();
    // the subset whose declaration survived the delete (and whose importer still exists)
    let mut kept: Vec<(usize, usize)> = Vec::new();
    let mut nontrivial = false;
    if check_from == 0 {
        if let Err(v) = state_check(&mgr, &model, &kept, 0, ctx) {
            return v;
        }
    }
    for (k, op) in ops.iter().enumerate() {
        let step = k + 1;
        let judged = step >= check_from;
        match op {
            Op::Excluded(_) => continue,
            Op::Create(x) => {
                let i = *x as usize;
                let existed = model[i].is_some();
                let ok = mgr.create_module(MODS[i]).is_ok();
                match (ok, existed) {
                    (true, false) => {
                        model[i] = Some(MMod { rules: BTreeSet::new(), exports: Exp::None, decls: Vec::new() });
                        if ever_deleted[i] {
                            lab(ctx, judged, "re-create");
                            nontrivial |= judged;
                            if model.iter().flatten().any(|m| m.decls.iter().any(|d| d.from == MODS[i])) {
                                lab(ctx, judged, "re-create-of-still-imported-module");
                            }
                        }
                    }
                    (false, true) => lab(ctx, judged, "create-existing-refused"),
                    (true, true) => return Verdict::Discard("create of an existing module accepted"),
                    (false, false) => return Verdict::Discard("create of a new module refused"),
                }
            }
            Op::Delete(x) => {
                let i = *x as usize;
                let existed = model[i].is_some();
                let ok = mgr.delete_module(MODS[i]).is_ok();
                match (ok, existed) {
                    (true, true) => {
                        model[i] = None;
                        ever_deleted[i] = true;
                        kept.retain(|&(a, _)| a != i);
                        let mut imported = false;
                        // importers may keep or lose their declarations from the deleted module
                        for j in 0..4 {
                            if let Some(m) = model[j].as_mut() {
                                let without: Vec<Decl> = m.decls.iter().filter(|d| d.from != MODS[i]).cloned().collect();
                                if without.len() != m.decls.len() {
                                    imported = true;
                                    former.push((j, i));
                                    let obs = observed_decls(&mgr, MODS[j]);
                                    if obs.as_ref() == Some(&without) {
                                        m.decls = without;
                                        lab(ctx, judged, "delete-drops-importer-declarations");
                                    } else if obs.as_ref() == Some(&m.decls) {
                                        lab(ctx, judged, "delete-keeps-importer-declarations");
                                        kept.push((j, i));
                                    }
                                    // anything else is reported by the state check as decls-changed
                                }
                            }
                        }
                        if imported {
                            lab(ctx, judged, "delete-of-imported-module");
                            nontrivial |= judged;
                        } else {
                            lab(ctx, judged, "delete");
                        }
                    }
                    (false, false) => {}
                    (false, true) => lab(ctx, judged, "delete-refused"), // MAIN, or an engine that protects imported modules
                    (true, false) => return Verdict::Discard("delete of a missing module accepted"),
                }
            }
            Op::Exports(x, e) => {
                let i = *x as usize;
                let ok = mgr.export_all_from(MODS[i], e.engine()).is_ok();
                match (ok, model[i].as_mut()) {
                    (true, Some(m)) => {
                        m.exports = e.clone();
                        if matches!(e, Exp::Specific(_)) {
                            lab(ctx, judged, "exports-specific");
                        }
                    }
                    (false, None) => {}
                    (false, Some(_)) => return Verdict::Discard("set_exports on an existing module refused"),
                    (true, None) => return Verdict::Discard("set_exports on a missing module accepted"),
                }
            }
            Op::AddRule(x, r) => {
                let i = *x as usize;
                let ok = match mgr.get_module_mut(MODS[i]) {
                    Ok(m) => {
                        m.add_rule(RULES[*r as usize]);
                        true
                    }
                    Err(_) => false,
                };
                match (ok, model[i].as_mut()) {
                    (true, Some(m)) => {
                        m.rules.insert(RULES[*r as usize]);
                    }
                    (false, None) => {}
                    (false, Some(_)) => return Verdict::Discard("get_module_mut on an existing module refused"),
                    (true, None) => return Verdict::Discard("get_module_mut on a missing module accepted"),
                }
            }
            Op::Import { to, from, ty, pat, re } => {
                let (t, f) = (*to as usize, *from as usize);
                let before = if judged { Some(snapshot(&mgr)) } else { None };
                let res = match re {
                    // two spellings of one call: an import without a re-export clause, through either entry point
                    None if (t + f) % 2 == 1 => mgr.import_from_with_reexport(MODS[t], MODS[f], ty.engine(), pat.text(), None),
                    None => mgr.import_from(MODS[t], MODS[f], ty.engine(), pat.text()),
                    Some((p, tr)) => mgr.import_from_with_reexport(
                        MODS[t],
                        MODS[f],
                        ty.engine(),
                        pat.text(),
                        Some(ReExport { patterns: vec![p.text().to_string()], transitive: *tr }),
                    ),
                };
                let both = model[t].is_some() && model[f].is_some();
                if both && former.contains(&(f, t)) {
                    // the history of the confirmed suspect: X re-created, X imports from its former importer
                    lab(ctx, judged, "re-created-module-imports-former-importer");
                }
                let rel = relation(&model);
                let closes = both && (t == f || reach(&rel, f, t));
                match res {
                    Ok(()) => {
                        if closes {
                            let via_recreated = (0..4).any(|j| ever_deleted[j] && model[j].is_some());
                            // would the path exist without the declarations that outlived their source?
                            let fresh: BTreeSet<(usize, usize)> = rel.iter().copied().filter(|e| !kept.contains(e)).collect();
                            let stale = t != f && !reach(&fresh, f, t);
                            return Verdict::fail(
                                if t == f { "self-import-accepted".to_string() } else if stale { format!("{}cycle-closing-import-accepted", STALE) } else { "cycle-closing-import-accepted".to_string() },
                                format!(
                                    "step {}: {} returned Ok although {}; declarations before: {:?}{}",
                                    step,
                                    show(op),
                                    if t == f { "a module cannot import from itself".to_string() } else { format!("{} already reaches {} through import declarations", MODS[f], MODS[t]) },
                                    rel_names(&rel),
                                    if via_recreated { " (a module on the path was deleted and re-created)" } else { "" }
                                ),
                            );
                        }
                        if model[t].is_none() {
                            return Verdict::Discard("import into a missing module accepted");
                        }
                        if model[f].is_none() {
                            // the statement does not forbid it; the declaration then dangles
                            lab(ctx, judged, "import-from-missing-accepted");
                        }
                        let m = model[t].as_mut().unwrap();
                        m.decls.push(Decl {
                            from: MODS[f].to_string(),
                            ty: *ty,
                            pat: pat.text().to_string(),
                            re: re.map(|(p, tr)| (vec![p.text().to_string()], tr)),
                        });
                        m.decls.sort();
                        if judged && observed_decls(&mgr, MODS[t]).as_ref() != Some(&m.decls) {
                            return Verdict::fail(
                                "accepted-import-not-declared",
                                format!("step {}: {} returned Ok but get_imports() of {} is {:?}, expected {:?}", step, show(op), MODS[t], observed_decls(&mgr, MODS[t]), m.decls),
                            );
                        }
                        lab(ctx, judged, "import-accepted");
                        match pat {
                            Pat::Star => lab(ctx, judged, "pattern-star"),
                            Pat::PrefixR => lab(ctx, judged, "pattern-prefix"),
                            Pat::Suffix1 => lab(ctx, judged, "pattern-suffix"),
                            Pat::Exact(_) => lab(ctx, judged, "pattern-exact"),
                        }
                        if !ty.rules() {
                            lab(ctx, judged, "template-import");
                        }
                    }
                    Err(_) => {
                        if let Some(before) = before {
                            let after = snapshot(&mgr);
                            if after != before {
                                return Verdict::fail(
                                    "refused-import-changed-state",
                                    format!("step {}: {} returned Err but changed declarations/graph from {:?} to {:?}", step, show(op), before, after),
                                );
                            }
                        }
                        if closes {
                            nontrivial |= judged;
                            if t == f {
                                lab(ctx, judged, "refused-self-import");
                            } else {
                                lab(ctx, judged, "refused-cycle");
                                if rel.len() >= 2 && !rel.contains(&(f, t)) {
                                    lab(ctx, judged, "refused-cycle-longer-than-2");
                                }
                                if (0..4).any(|j| ever_deleted[j] && model[j].is_some()) {
                                    lab(ctx, judged, "refused-cycle-after-re-create");
                                }
                            }
                        } else if both {
                            // not demanded by the statement either way; never seen on the pinned tree
                            lab(ctx, judged, "import-refused-without-cycle");
                        } else {
                            lab(ctx, judged, "refused-missing-module");
                        }
                    }
                }
            }
        }
        if judged {
            if let Err(v) = state_check(&mgr, &model, &kept, step, ctx) {
                return v;
            }
        }
    }
    if nontrivial {
        ctx.nontrivial(hash_of(&ops));
    }
    Verdict::Pass
}

// ---------------------------------------------------------------------------
// part `dags`: every acyclic import graph on n modules, every candidate import
// ---------------------------------------------------------------------------

/// Exhaustive over the SHAPE of the import graph rather than over operation sequences (a diamond with a tail needs eight
/// operations, more than the sequence parts reach). choices: one bit per ordered pair of the n modules (MAIN, A, B, C
/// [, D]); edge sets with a cycle are skipped. The graph is built by accepted imports (every prefix of an acyclic edge set
/// is acyclic, so each must be accepted), then EVERY ordered pair (x, y) is tried as `x imports y`:
/// it must be refused exactly when x == y or y already reaches x through the declarations, a refusal changes nothing,
/// and the relation stays acyclic. Each candidate is tried on a manager of its own (an accepted import cannot be
/// undone), and because the cycle search walks HashSets whose iteration order differs per instance, on `REPS` of them.
const DAG_NAMES: [&str; 5] = ["MAIN", "A", "B", "C", "D"];

fn dag_build(n: usize, edges: &[(usize, usize)]) -> Result<ModuleManager, String> {
    let mut mgr = crate::core::new_or_default(ModuleManager::new);
    for name in DAG_NAMES.iter().take(n).skip(1) {
        mgr.create_module(*name).map_err(|e| format!("create_module({}): {}", name, e))?;
    }
    for (x, y) in edges {
        mgr.import_from(DAG_NAMES[*x], DAG_NAMES[*y], ImportType::AllRules, "*")
            .map_err(|e| format!("{} imports {} was refused although the declared relation stays acyclic: {}", DAG_NAMES[*x], DAG_NAMES[*y], e))?;
    }
    Ok(mgr)
}

fn dag_reaches(n: usize, edges: &[(usize, usize)], from: usize, to: usize) -> bool {
    let mut seen = vec![false; n];
    let mut stack = vec![from];
    while let Some(u) = stack.pop() {
        for (a, b) in edges {
            if *a == u && !seen[*b] {
                if *b == to {
                    return true;
                }
                seen[*b] = true;
                stack.push(*b);
            }
        }
    }
    false
}

pub fn run_dags(s: &mut Src, ctx: &mut Ctx) -> Verdict {
    let n = if ctx.exh >= 5 { 5 } else { 4 };
    let pairs: Vec<(usize, usize)> = (0..n).flat_map(|x| (0..n).filter(move |y| *y != x).map(move |y| (x, y))).collect();
    // one binary choice per ordered pair; a pair whose reverse is already present, or that closes a longer cycle, is
    // not offered (keeps the enumeration on acyclic edge sets only: no wasted leaves)
    let mut edges: Vec<(usize, usize)> = Vec::new();
    for (x, y) in &pairs {
        if dag_reaches(n, &edges, *y, *x) {
            continue;
        }
        if s.below(2) == 1 {
            edges.push((*x, *y));
        }
    }
    if probe_only() {
        return Verdict::Pass;
    }
    let show = |e: &[(usize, usize)]| e.iter().map(|(x, y)| format!("{}->{}", DAG_NAMES[*x], DAG_NAMES[*y])).collect::<Vec<_>>().join(" ");
    ctx.describe(|| format!("import graph on {} modules: {}", n, show(&edges)));
    const REPS: usize = 4;
    let mut refused_cycles = 0;
    for x in 0..n {
        for y in 0..n {
            if edges.contains(&(x, y)) {
                continue;
            }
            let must_refuse = x == y || dag_reaches(n, &edges, y, x);
            for rep in 0..REPS {
                let mut mgr = match dag_build(n, &edges) {
                    Ok(m) => m,
                    Err(e) => return Verdict::fail("legal-import-refused", e),
                };
                let before = snapshot(&mgr);
                let r = mgr.import_from(DAG_NAMES[x], DAG_NAMES[y], ImportType::AllRules, "*");
                match (r.is_ok(), must_refuse) {
                    (true, true) => {
                        return Verdict::fail(
                            if x == y { "self-import-accepted" } else { "cycle-closing-import-accepted" },
                            format!(
                                "with the imports [{}] declared, `{} imports {}` was accepted (attempt {} of {} on fresh managers) although {} already reaches {}: the import relation now has a cycle",
                                show(&edges), DAG_NAMES[x], DAG_NAMES[y], rep + 1, REPS, DAG_NAMES[y], DAG_NAMES[x]
                            ),
                        )
                    }
                    (false, false) => {
                        return Verdict::fail(
                            "legal-import-refused",
                            format!("with the imports [{}] declared, `{} imports {}` was refused although it closes no cycle: {}", show(&edges), DAG_NAMES[x], DAG_NAMES[y], r.err().map(|e| e.to_string()).unwrap_or_default()),
                        )
                    }
                    (false, true) => {
                        if x != y {
                            refused_cycles += 1;
                        }
                        if snapshot(&mgr) != before {
                            return Verdict::fail("refused-import-changed-state", format!("with the imports [{}] declared, the refused `{} imports {}` changed declarations or graph", show(&edges), DAG_NAMES[x], DAG_NAMES[y]));
                        }
                    }
                    (true, false) => {}
                }
            }
        }
    }
    if refused_cycles > 0 && edges.len() >= 3 {
        ctx.label("cycle-through-3+-declared-imports-refused");
        ctx.nontrivial(hash_of(&(n, &edges)));
    }
    Verdict::Pass
}

pub fn property() -> Property {
    Property {
        id: "C18",
        level: "exploration",
        rule: "generated: histories of 0..7 operations {create, delete, set_exports(All|None|Specific[1..2 x (Rule|All|Template, pattern)]), add_rule, import(to, from, 5 import types, pattern in {*, r*, *1, exact name}, optional re-export clause)} over module names {A,B,C,MAIN} and rule names {r1,r12,qr1}. Part random: byte-decoded histories biased towards existing modules and towards delete-of-imported / re-create / import-back. Part all-fresh: EVERY history of length <= 4 (thorough 5) over a 45-operation alphabet on {A,B,MAIN} from the fresh manager. Parts eff-*: every history of operations addressing existing modules (the others are refused no-ops, covered by all-fresh): length <= 5 (thorough 6) from the fresh manager, length <= 4 (thorough 5) after `create A; create B`, and length <= 4 over a 35-operation create/delete/import alphabet on {A,B,C,MAIN} after three creates. Each reachable state of an exhaustive tree is judged once (by the leaf that extends it with first choices only). Oracle: import declarations observed through get_imports() must follow the allowed transitions (accepted import appends exactly that declaration; refused import changes neither declarations nor graph; a self-import or an import whose source already reaches the target through declarations between existing modules must be refused); in every judged state the declared import relation among existing modules is acyclic and equals get_import_graph restricted to existing modules, is_rule_visible/get_visible_rules/is_template_visible return Ok for every existing module, and without re-export clauses is_rule_visible and get_visible_rules equal the model (owns, or rule-type import with matching pattern from an existing module that owns the rule and whose export list matches it); with re-export clauses only the bounds (model-visible => visible => owns or some rule import pattern matches) are judged. Part dags: EVERY acyclic import graph on 4 and on 5 modules is built by accepted imports and every ordered pair is tried as a further import on 4 fresh managers each (the cycle search walks hash sets): refused exactly when it is a self import or closes a cycle through the declarations, a refusal changes nothing. Non-trivial: the judged part of the history (random: all of it; exhaustive leaf: the steps from its last non-first choice on) contains a delete of a module that another existing module imports, an import refused because it would close a cycle (self-import included), or a re-create of a deleted module; distinct by operation sequence. The object under test is built with new() or with default() in turn (by a hash of the case's data, no draw).",
        assumptions: vec![
            format!(
                "known-finding exclusion F1 (deletes of imported modules become no-ops) is {} on this tree",
                if F1_EXCLUDED && f1_present() { "ACTIVE: an import declaration outlives delete_module of its source" } else { "inactive: delete_module removes the importers' declarations" }
            ),
            "import declarations are read from the engine (get_imports) and validated transition by transition; after a successful delete an importer may either keep or lose its declarations from the deleted module (the statement does not say which)".into(),
            "the pattern `?ALL` and patterns with more than one `*` are not generated (their meaning is not stated)".into(),
            "whether an import that closes no cycle must be accepted is not judged (label import-refused-without-cycle counts such refusals)".into(),
            "template visibility values are not judged, only that the query answers".into(),
        ],
        parts: vec![
            Part { name: "random", run, quick: Budget::Random { cases: 3_000_000, bytes: 90 }, thorough: Budget::Random { cases: 15_000_000, bytes: 90 }, min_nontrivial_pct: 15 },
            // every history of length ≤ 4 (thorough: ≤ 5) over the 45-operation alphabet, from the fresh manager
            Part { name: "dags4", run: run_dags, quick: Budget::Exhaustive { param: 4 }, thorough: Budget::Exhaustive { param: 4 }, min_nontrivial_pct: 0 },
            Part { name: "dags5", run: run_dags, quick: Budget::Exhaustive { param: 5 }, thorough: Budget::Exhaustive { param: 5 }, min_nontrivial_pct: 0 },
            Part { name: "all-fresh", run, quick: Budget::Exhaustive { param: 4 }, thorough: Budget::Exhaustive { param: 5 }, min_nontrivial_pct: 0 },
            // every history of effective operations: length ≤ 5 (thorough: ≤ 6) from the fresh manager,
            // length ≤ 4 (thorough: ≤ 5) after `create A; create B`, length ≤ 4 on four modules after three creates
            Part { name: "eff-fresh", run, quick: Budget::Exhaustive { param: 105 }, thorough: Budget::Exhaustive { param: 106 }, min_nontrivial_pct: 0 },
            Part { name: "eff-ab", run, quick: Budget::Exhaustive { param: 114 }, thorough: Budget::Exhaustive { param: 115 }, min_nontrivial_pct: 0 },
            Part { name: "eff-abc", run, quick: Budget::Exhaustive { param: 124 }, thorough: Budget::Exhaustive { param: 124 }, min_nontrivial_pct: 0 },
        ],
        watchdog: true,
        replay_reps: 1,
    }
}
