//! C04 — parsing GRL yields exactly the rules that were written.
//!
//! Generator: rule files drawn from the documented GRL grammar (own AST, wider
//! than the typed core), printed through a token stream whose gaps receive a
//! random *layout* (none, blanks, tabs, LF, CRLF, full-line / trailing / block
//! comments). Oracles, one part each:
//!   roundtrip    parse_rules(text) equals the AST, rule by rule in source order;
//!   metamorphic  every rule of parse_rules(file) equals parse_rules(canonical
//!                one-line print of that rule alone)[0] — no expected AST involved;
//!   entrypoints  parse_with_modules (also with defmodule blocks / `;; MODULE:`
//!                markers added) and parse_rule (on each rule's own text) agree
//!                with parse_rules;
//!   attrs-exh*   every subset of the seven attributes in every order (exhaustive);
//!   tree-exh*    every binary condition tree with n leaves, each node plain /
//!                negated / redundantly parenthesised (exhaustive).
//!
//! Every construct that is a confirmed defect of the unchanged tree is a
//! *feature* with a tag. Each finding owns one exclusion switch that rewrites the
//! feature after all choices are drawn (see `FINDINGS`); a feature that is not
//! rewritten puts its tag into the failure signature, e.g.
//! `rt:salience[neg-salience]`, which is what the `known:` globs match.
//!
//! Comparison happens on a normal form of the parser's output (`PRule`):
//! chains of one associative operator flattened, expression text tokenised,
//! custom-call parameters sorted.

use crate::core::*;
use crate::runner::*;
use chrono::{DateTime, NaiveDate, Utc};
use rust_rule_engine::engine::rule::{ConditionExpression, ConditionGroup, Rule};
use rust_rule_engine::types::{ActionType, LogicalOperator, Operator, Value};
use rust_rule_engine::GRLParser;
use std::collections::BTreeMap;

// =====================================================================
// findings: one exclusion switch each
// =====================================================================

/// One entry per confirmed defect of the unchanged tree: `id` is the name used in `ctx.exclude` (evidence
/// `excluded_by_finding`), its `F<n>` prefix names the KNOWN_FINDINGS.txt entry `id=C04-F<n>`, `tag` is the
/// feature tag that appears in failure signatures (`rt:salience[neg-salience]`).
///
/// The exclusion switch of a finding is active only while KNOWN_FINDINGS.txt lists `id=C04-F<n>` as `known:`
/// (and the case is not a witness replay): after a `fix:` commit the line is removed and the whole space is
/// searched again without touching this file.
pub struct Finding {
    pub id: &'static str,
    pub tag: &'static str,
    /// false: the feature is only tagged (never a finding so far), there is nothing to exclude
    pub finding: bool,
}

pub const F_NEG_SAL: usize = 0;
pub const F_HDR_KW: usize = 1;
pub const F_HDR_BRACE: usize = 2;
pub const F_CMT_RAW: usize = 3;
pub const F_CMT_TRAIL: usize = 4;
pub const F_CMT_BLOCK: usize = 5;
pub const F_STR_BRACE: usize = 6;
pub const F_STR_SEMI: usize = 7;
pub const F_STR_LOGIC: usize = 8;
pub const F_STR_PAREN: usize = 9;
pub const F_STR_THEN: usize = 10;
pub const F_STR_COMMA: usize = 11;
pub const F_STR_EQ: usize = 12;
pub const F_STR_PLUSEQ: usize = 13;
pub const F_TIGHT: usize = 14;
pub const F_DOLLAR: usize = 15;
pub const F_SETWF: usize = 16;
pub const F_LHS_PAREN: usize = 17;
pub const F_DEEP_PAREN: usize = 18;
pub const F_ARG_ARRAY: usize = 19;
pub const F_NONASCII: usize = 20;
pub const F_RETRACT_WS: usize = 21;
pub const F_PAREN_WS: usize = 22;

pub const FINDINGS: [Finding; 23] = [
    Finding { id: "F1-negative-salience", tag: "neg-salience", finding: true },
    Finding { id: "F2-salience-keyword-in-header-string", tag: "hdr-str-salience", finding: true },
    Finding { id: "F3-brace-in-header-string", tag: "hdr-str-brace", finding: true },
    Finding { id: "F4-comment-line-with-rule-or-brace", tag: "cmt-meta", finding: true },
    Finding { id: "F5-trailing-comment", tag: "cmt-trailing", finding: true },
    Finding { id: "F6-block-comment", tag: "cmt-block", finding: true },
    Finding { id: "F7-string-with-closing-brace", tag: "str-brace", finding: true },
    Finding { id: "F8-action-string-with-semicolon", tag: "str-semicolon", finding: true },
    Finding { id: "F9-condition-string-with-logical-operator", tag: "str-logic", finding: true },
    Finding { id: "F10-string-with-parenthesis", tag: "str-paren", finding: true },
    Finding { id: "F11-condition-string-with-then", tag: "str-then", finding: true },
    Finding { id: "F12-call-argument-string-with-comma", tag: "str-comma", finding: true },
    Finding { id: "F13-call-argument-string-with-equals", tag: "str-equals", finding: true },
    Finding { id: "F14-assigned-string-with-plus-equals", tag: "str-pluseq", finding: true },
    Finding { id: "F15-tight-arithmetic-over-bare-identifiers", tag: "tight-bare-arith", finding: true },
    Finding { id: "F16-dollar-forms", tag: "dollar-form", finding: true },
    Finding { id: "F17-set-workflow-data", tag: "set-workflow-data", finding: true },
    Finding { id: "F18-parenthesised-arithmetic-left-side", tag: "lhs-paren-arith", finding: true },
    Finding { id: "F19-three-redundant-parentheses", tag: "deep-redundant-parens", finding: true },
    Finding { id: "F20-array-literal-as-call-argument", tag: "call-arg-array", finding: true },
    Finding { id: "F21-non-ascii", tag: "non-ascii", finding: false },
    Finding { id: "F22-space-before-closing-paren-of-retract", tag: "retract-trailing-space", finding: true },
    Finding { id: "F23-space-inside-parens-around-not-exists-forall", tag: "paren-space-unary", finding: true },
];

/// development aid only: `C04_DEV_ONLY=<tag>` searches with every exclusion switched off and judges only cases whose
/// single suspect feature is `<tag>`, so that the runner shrinks a clean witness for exactly that finding
/// (`C04_DEV_BYTES=<n>` bounds the case size). Never set in a real run.
fn dev_only() -> &'static Option<String> {
    static V: std::sync::OnceLock<Option<String>> = std::sync::OnceLock::new();
    V.get_or_init(|| std::env::var("C04_DEV_ONLY").ok())
}

fn listed(n: &str) -> bool {
    static L: std::sync::OnceLock<Vec<String>> = std::sync::OnceLock::new();
    L.get_or_init(|| {
        crate::findings::load(&verif_root().join("KNOWN_FINDINGS.txt")).into_iter().filter(|f| f.kind == "known" && f.property == "C04").map(|f| f.id).collect()
    })
    .iter()
    .any(|x| x.strip_prefix("C04-") == Some(n))
}

struct Excl<'a> {
    ctx: &'a mut Ctx,
}
impl Excl<'_> {
    /// is the exclusion switch of finding `f` active for this case?
    fn active(&self, f: usize) -> bool {
        if self.ctx.no_exclusions || !FINDINGS[f].finding {
            return false;
        }
        let short = FINDINGS[f].id.split('-').next().unwrap_or("");
        listed(short)
    }
    /// counted once per case
    fn hit(&mut self, f: usize) {
        if !self.ctx.excluded.contains(&FINDINGS[f].id) {
            self.ctx.exclude(FINDINGS[f].id);
        }
    }
}

// =====================================================================
// AST
// =====================================================================

#[derive(Clone, Debug, PartialEq)]
pub struct StrLit {
    pub text: String,
    pub single: bool,
}
impl StrLit {
    fn grl(&self) -> String {
        if self.single {
            format!("'{}'", self.text)
        } else {
            format!("\"{}\"", self.text)
        }
    }
}

#[derive(Clone, Debug, PartialEq)]
pub enum Lit {
    Null,
    Bool(bool),
    Int(i64),
    /// decimal text, e.g. `-12.50`
    Float(String),
    Str(StrLit),
    Arr(Vec<Lit>),
}

#[derive(Clone, Debug, PartialEq)]
pub enum ATok {
    Field(String),
    Num(String),
    Str(StrLit),
    Op(char),
    LP,
    RP,
}
impl ATok {
    fn text(&self) -> String {
        match self {
            ATok::Field(f) => f.clone(),
            ATok::Num(n) => n.clone(),
            ATok::Str(s) => s.grl(),
            ATok::Op(c) => c.to_string(),
            ATok::LP => "(".into(),
            ATok::RP => ")".into(),
        }
    }
}

/// arithmetic / concatenation expression as a well-formed token sequence with at least one operator
#[derive(Clone, Debug, PartialEq)]
pub struct Arith(pub Vec<ATok>);
impl Arith {
    fn has_dot(&self) -> bool {
        self.0.iter().any(|t| match t {
            ATok::Field(f) => f.contains('.'),
            ATok::Num(n) => n.contains('.'),
            ATok::Str(s) => s.text.contains('.'),
            _ => false,
        })
    }
    fn has_paren(&self) -> bool {
        self.0.iter().any(|t| matches!(t, ATok::LP))
    }
}

#[derive(Clone, Debug, PartialEq)]
pub enum Term {
    Lit(Lit),
    Field(String),
    Arith(Arith),
}

#[derive(Clone, Copy, Debug, PartialEq)]
pub enum COp {
    Eq,
    Ne,
    Gt,
    Ge,
    Lt,
    Le,
    Contains,
    StartsWith,
    EndsWith,
    Matches,
    In,
}
impl COp {
    fn text(self) -> &'static str {
        match self {
            COp::Eq => "==",
            COp::Ne => "!=",
            COp::Gt => ">",
            COp::Ge => ">=",
            COp::Lt => "<",
            COp::Le => "<=",
            COp::Contains => "contains",
            COp::StartsWith => "startsWith",
            COp::EndsWith => "endsWith",
            COp::Matches => "matches",
            COp::In => "in",
        }
    }
    fn word(self) -> bool {
        matches!(self, COp::Contains | COp::StartsWith | COp::EndsWith | COp::Matches | COp::In)
    }
    fn engine(self) -> Operator {
        match self {
            COp::Eq => Operator::Equal,
            COp::Ne => Operator::NotEqual,
            COp::Gt => Operator::GreaterThan,
            COp::Ge => Operator::GreaterThanOrEqual,
            COp::Lt => Operator::LessThan,
            COp::Le => Operator::LessThanOrEqual,
            COp::Contains => Operator::Contains,
            COp::StartsWith => Operator::StartsWith,
            COp::EndsWith => Operator::EndsWith,
            COp::Matches => Operator::Matches,
            COp::In => Operator::In,
        }
    }
}

#[derive(Clone, Debug, PartialEq)]
pub enum Multi {
    Count(COp, i64),
    Empty,
    NotEmpty,
    First(Option<String>),
    Last(Option<String>),
    Collect(String),
}

#[derive(Clone, Debug, PartialEq)]
pub enum Atom {
    Cmp { field: String, op: COp, rhs: Term },
    ArithCmp { lhs: Arith, op: COp, rhs: Term },
    Multi { field: String, kind: Multi },
    Func { name: String, args: Vec<Term>, op: COp, rhs: Term },
}

#[derive(Clone, Debug, PartialEq)]
pub enum Cond {
    Atom(Atom),
    And(Vec<Cond>),
    Or(Vec<Cond>),
    Not(Box<Cond>),
    Exists(Box<Cond>),
    Forall(Box<Cond>),
    /// redundant parentheses — transparent for the expected tree
    Paren(Box<Cond>),
}

#[derive(Clone, Debug, PartialEq)]
pub enum Action {
    Set { field: String, rhs: Term },
    Append { field: String, rhs: Term },
    /// `Retract("X")` (dollar=false) or `retract($X)` (dollar=true)
    Retract { obj: String, dollar: bool },
    Log(StrLit),
    Activate(StrLit),
    Schedule(u64, StrLit),
    Complete(StrLit),
    SetWf { key: String, val: String },
    Call { name: String, args: Vec<Term> },
    Method { obj: String, method: String, args: Vec<Term> },
}

#[derive(Clone, Debug, PartialEq)]
pub struct DateLit {
    pub text: String,
    pub utc: DateTime<Utc>,
}

#[derive(Clone, Debug, PartialEq)]
pub enum Attr {
    Salience(i32),
    NoLoop(bool),
    LockOnActive(bool),
    AgendaGroup(String),
    ActivationGroup(String),
    DateEffective(DateLit),
    DateExpires(DateLit),
}

#[derive(Clone, Debug, PartialEq)]
pub struct RuleAst {
    pub name: String,
    pub quoted: bool,
    pub desc: Option<String>,
    pub attrs: Vec<Attr>,
    pub cond: Cond,
    pub actions: Vec<Action>,
}

// =====================================================================
// generator
// =====================================================================

const OBJ: [&str; 9] = ["User", "Order", "X", "Y", "Facts", "customer", "temperature", "A1", "Cart"];
const FLD: [&str; 13] = ["age", "amount", "Price", "status", "is_active", "x", "y", "items", "total", "index", "min_qty", "instock", "name"];
const BARE: [&str; 7] = ["age", "shortage", "moq", "order_qty", "is_active", "winner", "total"];
const NAME_WORDS: [&str; 14] = ["Check", "Age", "VIP", "discount", "rule", "when", "then", "salience", "no-loop", "order", "Process", "x", "A1", "end"];
const DESC_WORDS: [&str; 14] = ["Age", "verification", "rule", "for", "VIP", "customers", "applies", "10%", "discount", "no-loop", "lock-on-active", "when", "then", "x"];
const GROUP_WORDS: [&str; 8] = ["validation", "processing", "discounts", "main", "g1", "phase-2", "no_loop", "when"];
const STR_WORDS: [&str; 12] = ["active", "gold", "US", "admin", "pending", "x", "42", "true", "null", "Hello", "a b", "rule"];
const STR_PUNCT: [&str; 16] = [".", ":", "!", "?", "@", "#", "*", "+", "-", "/", "%", "<", ">", "[x]", "{", "//"];
const STR_META: [&str; 11] = ["}", ";", "&&", "||", "(", ")", " then ", ",", "=", "+=", "=="];
const NONASCII: [&str; 7] = ["é", "ß", "日本", "→", "😀", "Ω", "Việt"];
const CALLS: [&str; 8] = ["apply_discount", "sendEmail", "notify", "set", "println", "Alert", "update", "AnalyzeSession"];
/// look-alikes of the built-in action names, one per entry of CALLS
const LOOKALIKE_CALLS: [&str; 8] = ["log_", "_retract", "Schedule_Rule_", "set_workflowdata", "Log2", "retractAll", "activateAgendaGroups", "complete_work_flow"];
const METHODS: [&str; 4] = ["setSpeed", "setTotalDistance", "update", "add_item"];
const CFUNCS: [&str; 5] = ["regex_match", "aiSentiment", "Length", "IsEmail", "score"];
const CMT_WORDS: [&str; 10] = ["check", "customer", "tier", "TODO", "apply", "discount", "-", "10%", "==", "note:"];
const CMT_META: [&str; 10] = ["rule Foo", "}", "{", "when", "then", "salience 5", ";", "&&", "rule \"x\"", "rule"];

#[derive(Clone, Copy, PartialEq, Debug)]
enum Role {
    CondVal,
    CondArg,
    AssignVal,
    CallArg,
}

fn gen_str(s: &mut Src) -> StrLit {
    let single = s.chance(1, 5);
    let n = s.weighted(&[5, 2, 3, 1]);
    let n = [1, 0, 2, 3][n];
    let mut text = String::new();
    for i in 0..n {
        let piece: String = match s.weighted(&[10, 3, 3, 2, 1]) {
            0 => s.pick(&STR_WORDS).to_string(),
            1 => s.pick(&STR_PUNCT).to_string(),
            2 => s.pick(&STR_META).to_string(),
            3 => s.pick(&NONASCII).to_string(),
            _ => (if single { "\"" } else { "'" }).to_string(),
        };
        if i > 0 && s.bool() {
            text.push(' ');
        }
        text.push_str(&piece);
    }
    StrLit { text, single }
}

fn gen_field(s: &mut Src) -> String {
    match s.weighted(&[6, 2, 1, 1]) {
        0 => format!("{}.{}", s.pick(&OBJ), s.pick(&FLD)),
        1 => format!("{}.{}.{}", s.pick(&OBJ), s.pick(&FLD), s.pick(&FLD)),
        2 => s.pick(&BARE).to_string(),
        _ => format!("{}.{}.{}.{}", s.pick(&OBJ), s.pick(&FLD), s.pick(&FLD), s.pick(&FLD)),
    }
}

fn gen_field2(s: &mut Src) -> String {
    format!("{}.{}", s.pick(&OBJ), s.pick(&FLD))
}

fn gen_int(s: &mut Src) -> i64 {
    match s.weighted(&[6, 3, 1, 1]) {
        0 => s.below(21) as i64,
        1 => -(1 + s.below(100) as i64),
        2 => s.pick(&[i64::MAX, i64::MIN, i32::MAX as i64, i32::MIN as i64, i32::MAX as i64 + 1, 1_000_000, -1, 0]),
        _ => s.below(1 << 31) as i64 - (1 << 30),
    }
}

fn gen_float_text(s: &mut Src, signed: bool) -> String {
    let neg = signed && s.chance(1, 4);
    let ip = s.below(1000);
    let digits = 1 + s.below(3);
    let mut fr = String::new();
    for _ in 0..digits {
        fr.push((b'0' + s.below(10) as u8) as char);
    }
    format!("{}{}.{}", if neg { "-" } else { "" }, ip, fr)
}

fn gen_lit(s: &mut Src, depth: u32) -> Lit {
    match s.weighted(&[5, 5, 2, 2, 1, if depth == 0 { 2 } else { 0 }]) {
        0 => Lit::Int(gen_int(s)),
        1 => Lit::Str(gen_str(s)),
        2 => Lit::Float(gen_float_text(s, true)),
        3 => Lit::Bool(s.bool()),
        4 => Lit::Null,
        _ => {
            let n = s.below(4);
            Lit::Arr((0..n).map(|_| gen_lit(s, 1)).collect())
        }
    }
}

/// `lhs`: condition left side (starts with a field, numbers/fields only, documented operators).
fn gen_arith(s: &mut Src, lhs: bool) -> Arith {
    let concat = !lhs && s.chance(1, 5);
    let n = 2 + s.weighted(&[5, 3, 1]);
    let mut toks: Vec<ATok> = Vec::new();
    let paren_at = if s.chance(1, 5) && n >= 3 { Some(s.below(n - 1)) } else { None };
    for i in 0..n {
        if i > 0 {
            toks.push(ATok::Op(if concat { '+' } else { s.pick(&['+', '-', '*', '/', '%']) }));
        }
        if paren_at == Some(i) {
            toks.push(ATok::LP);
        }
        let operand = if i == 0 && lhs {
            ATok::Field(gen_field(s))
        } else if concat {
            match s.weighted(&[3, 3]) {
                0 => ATok::Str(gen_str(s)),
                _ => ATok::Field(gen_field(s)),
            }
        } else {
            match s.weighted(&[4, 3, 1]) {
                0 => ATok::Field(gen_field(s)),
                1 => ATok::Num(s.below(101).to_string()),
                _ => ATok::Num(gen_float_text(s, false)),
            }
        };
        toks.push(operand);
        if let Some(p) = paren_at {
            if i == p + 1 {
                toks.push(ATok::RP);
            }
        }
    }
    Arith(toks)
}

fn gen_term(s: &mut Src) -> Term {
    match s.weighted(&[6, 2, 2]) {
        0 => Term::Lit(gen_lit(s, 0)),
        1 => Term::Field(gen_field(s)),
        _ => Term::Arith(gen_arith(s, false)),
    }
}

fn gen_cop(s: &mut Src, all: bool) -> COp {
    const OPS: [COp; 11] = [COp::Eq, COp::Ne, COp::Gt, COp::Ge, COp::Lt, COp::Le, COp::Contains, COp::StartsWith, COp::EndsWith, COp::Matches, COp::In];
    if all {
        OPS[s.below(11)]
    } else {
        OPS[s.below(6)]
    }
}

fn gen_var(s: &mut Src) -> String {
    s.pick(&["first_task", "all_items", "t", "x1"]).to_string()
}

fn gen_atom(s: &mut Src) -> Atom {
    match s.weighted(&[10, 3, 2, 2]) {
        0 => {
            let field = gen_field(s);
            let op = gen_cop(s, true);
            let rhs = match op {
                COp::In if s.chance(3, 4) => {
                    let n = s.below(4);
                    Term::Lit(Lit::Arr((0..n).map(|_| gen_lit(s, 1)).collect()))
                }
                COp::Contains | COp::StartsWith | COp::EndsWith | COp::Matches if s.chance(3, 4) => Term::Lit(Lit::Str(gen_str(s))),
                _ => gen_term(s),
            };
            Atom::Cmp { field, op, rhs }
        }
        1 => Atom::ArithCmp { lhs: gen_arith(s, true), op: gen_cop(s, false), rhs: gen_term(s) },
        2 => {
            let field = gen_field2(s);
            let kind = match s.below(8) {
                0 => Multi::Count(gen_cop(s, false), s.below(11) as i64),
                1 => Multi::Empty,
                2 => Multi::NotEmpty,
                3 => Multi::First(None),
                4 => Multi::Last(None),
                5 => Multi::Collect(gen_var(s)),
                6 => Multi::First(Some(gen_var(s))),
                _ => Multi::Last(Some(gen_var(s))),
            };
            Atom::Multi { field, kind }
        }
        _ => {
            let name = s.pick(&CFUNCS).to_string();
            let n = s.below(4);
            let args = (0..n)
                .map(|_| match s.weighted(&[4, 2, 2, 1]) {
                    0 => Term::Field(gen_field(s)),
                    1 => Term::Lit(Lit::Int(s.below(100) as i64)),
                    2 => Term::Lit(Lit::Str(gen_str(s))),
                    _ => Term::Lit(Lit::Float(gen_float_text(s, false))),
                })
                .collect();
            Atom::Func { name, args, op: gen_cop(s, false), rhs: gen_term(s) }
        }
    }
}

fn gen_cond(s: &mut Src, depth: u32, budget: &mut u32) -> Cond {
    if depth == 0 || *budget == 0 {
        *budget = budget.saturating_sub(1);
        return Cond::Atom(gen_atom(s));
    }
    match s.weighted(&[6, 3, 3, 2, 1, 1, 1]) {
        0 => {
            *budget = budget.saturating_sub(1);
            Cond::Atom(gen_atom(s))
        }
        k @ (1 | 2) => {
            let n = 2 + s.weighted(&[3, 1]);
            let kids: Vec<Cond> = (0..n).map(|_| gen_cond(s, depth - 1, budget)).collect();
            if k == 1 {
                Cond::And(kids)
            } else {
                Cond::Or(kids)
            }
        }
        3 => Cond::Not(Box::new(gen_cond(s, depth - 1, budget))),
        4 => Cond::Paren(Box::new(gen_cond(s, depth - 1, budget))),
        5 => Cond::Exists(Box::new(gen_cond(s, depth - 1, budget))),
        _ => Cond::Forall(Box::new(gen_cond(s, depth - 1, budget))),
    }
}

fn gen_call_args(s: &mut Src) -> Vec<Term> {
    let n = s.below(4);
    (0..n).map(|_| gen_term(s)).collect()
}

fn gen_action(s: &mut Src) -> Action {
    match s.weighted(&[6, 2, 2, 2, 3, 1, 1, 1, 1, 2]) {
        0 => Action::Set { field: gen_field(s), rhs: gen_term(s) },
        1 => Action::Append { field: gen_field(s), rhs: gen_term(s) },
        2 => Action::Log(gen_str(s)),
        3 => Action::Retract { obj: s.pick(&OBJ).to_string(), dollar: s.bool() },
        4 => Action::Call { name: s.pick(&CALLS).to_string(), args: gen_call_args(s) },
        5 => Action::Activate(gen_str(s)),
        6 => Action::Schedule(s.pick(&[0u64, 1, 500, 5000, 60000, 86_400_000]), gen_str(s)),
        7 => Action::Complete(gen_str(s)),
        8 => Action::SetWf { key: s.pick(&["status", "k", "order_id", "step2"]).to_string(), val: s.pick(&["done", "v", "42", "approved"]).to_string() },
        _ => Action::Method { obj: s.pick(&OBJ).to_string(), method: s.pick(&METHODS).to_string(), args: gen_call_args(s) },
    }
}

fn gen_words(s: &mut Src, pool: &[&str], max: usize, sep_pool: &[&str]) -> String {
    let n = 1 + s.below(max);
    let mut out = String::new();
    for i in 0..n {
        if i > 0 {
            out.push_str(s.pick(sep_pool));
        }
        out.push_str(s.pick(pool));
    }
    out
}

fn gen_header_string(s: &mut Src, pool: &[&str]) -> String {
    let mut t = gen_words(s, pool, 3, &[" ", "-", "_", " "]);
    match s.weighted(&[12, 2, 1, 1]) {
        0 => {}
        1 => {
            t.push_str(" salience ");
            t.push_str(&s.below(100).to_string());
        }
        2 => t.push_str(s.pick(&[" {", " }", " {x}"])),
        _ => {
            t.push(' ');
            t.push_str(s.pick(&NONASCII));
        }
    }
    t
}

fn gen_date(s: &mut Src) -> DateLit {
    let y = 1990 + s.below(110) as i32;
    let m = 1 + s.below(12) as u32;
    let d = 1 + s.below(28) as u32;
    let nd = NaiveDate::from_ymd_opt(y, m, d).unwrap();
    match s.weighted(&[3, 1, 1]) {
        0 => DateLit { text: format!("{:04}-{:02}-{:02}", y, m, d), utc: nd.and_hms_opt(0, 0, 0).unwrap().and_utc() },
        k => {
            let (h, mi, se) = (s.below(24) as u32, s.below(60) as u32, s.below(60) as u32);
            let base = nd.and_hms_opt(h, mi, se).unwrap().and_utc();
            if k == 1 {
                DateLit { text: format!("{:04}-{:02}-{:02}T{:02}:{:02}:{:02}Z", y, m, d, h, mi, se), utc: base }
            } else {
                let oh = s.below(12) as i64;
                let neg = s.bool();
                let off = chrono::Duration::hours(oh);
                DateLit {
                    text: format!("{:04}-{:02}-{:02}T{:02}:{:02}:{:02}{}{:02}:00", y, m, d, h, mi, se, if neg { "-" } else { "+" }, oh),
                    utc: if neg { base + off } else { base - off },
                }
            }
        }
    }
}

fn gen_salience(s: &mut Src) -> i32 {
    match s.weighted(&[2, 2, 4, 2, 3, 1, 1, 2]) {
        0 => 0,
        1 => 1,
        2 => 1 + s.below(1000) as i32,
        3 => -1,
        4 => -(1 + s.below(1000) as i32),
        5 => i32::MAX,
        6 => i32::MIN,
        _ => (s.bits64() >> 32) as u32 as i32,
    }
}

fn gen_rule(s: &mut Src, idx: usize) -> RuleAst {
    let quoted = !s.chance(1, 3);
    let name = if quoted {
        let base = gen_words(s, &NAME_WORDS, 3, &[" ", "-", "_"]);
        let na = if s.chance(1, 10) { format!(" {}", s.pick(&NONASCII)) } else { String::new() };
        format!("{}{} {}", base, na, idx)
    } else {
        format!("{}{}", s.pick(&["CheckAge", "R", "apply_discount", "_tmp", "Rule", "ruleX", "when_gold"]), idx)
    };
    let desc = if s.chance(1, 3) { Some(gen_header_string(s, &DESC_WORDS)) } else { None };
    let mut attrs = Vec::new();
    for k in 0..7 {
        if s.chance(1, 3) {
            attrs.push(match k {
                0 => Attr::Salience(gen_salience(s)),
                1 => Attr::NoLoop(s.bool()),
                2 => Attr::LockOnActive(s.bool()),
                3 => Attr::AgendaGroup(gen_header_string(s, &GROUP_WORDS)),
                4 => Attr::ActivationGroup(gen_header_string(s, &GROUP_WORDS)),
                5 => Attr::DateEffective(gen_date(s)),
                _ => Attr::DateExpires(gen_date(s)),
            });
        }
    }
    // random permutation (Fisher-Yates; all-zero draws keep the documented order)
    for i in (1..attrs.len()).rev() {
        let j = i - s.below(i + 1);
        attrs.swap(i, j);
    }
    let maxd = s.weighted(&[3, 4, 3, 2, 1, 1]) as u32;
    let mut budget = 12u32;
    let cond = gen_cond(s, maxd, &mut budget);
    let na = 1 + s.weighted(&[5, 3, 2, 1, 1]);
    let actions = (0..na).map(|_| gen_action(s)).collect();
    RuleAst { name, quoted, desc, attrs, cond, actions }
}

pub fn gen_file(s: &mut Src) -> Vec<RuleAst> {
    let n = s.weighted(&[2, 6, 5, 4, 2, 1, 1, 1, 1]);
    (0..n).map(|i| gen_rule(s, i)).collect()
}

// =====================================================================
// suspect features: tagged, or rewritten when the finding's exclusion switch is active
// =====================================================================

fn replace_all(text: &mut String, needles: &[&str], with: &str) {
    for n in needles {
        if text.contains(n) {
            *text = text.replace(n, with);
        }
    }
}

fn string_feature(role: Role, st: &mut StrLit, ex: &mut Excl, tags: &mut Vec<&'static str>) {
    let cond = matches!(role, Role::CondVal | Role::CondArg);
    let action = !cond;
    let call = matches!(role, Role::CondArg | Role::CallArg);
    let checks: [(usize, bool, &[&str], &str); 8] = [
        (F_STR_BRACE, true, &["}"], "_"),
        (F_STR_SEMI, action, &[";"], "_"),
        (F_STR_LOGIC, cond, &["&&", "||"], "_"),
        // since 0b28ef1 only the argument list of a function call in a condition still ends at the first `)`
        (F_STR_PAREN, role == Role::CondArg, &["(", ")"], "_"),
        (F_STR_THEN, cond, &[" then "], " than "),
        (F_STR_COMMA, call, &[","], "_"),
        (F_STR_PLUSEQ, role == Role::AssignVal, &["+="], "_"),
        (F_STR_EQ, role == Role::CallArg, &["="], "_"),
    ];
    for (f, applies, needles, with) in checks {
        if applies && needles.iter().any(|n| st.text.contains(n)) {
            if ex.active(f) {
                replace_all(&mut st.text, needles, with);
                ex.hit(f);
            } else {
                tags.push(FINDINGS[f].tag);
            }
        }
    }
    ascii_feature(&mut st.text, ex, tags);
}

fn ascii_feature(t: &mut String, ex: &mut Excl, tags: &mut Vec<&'static str>) {
    if !t.is_ascii() {
        if ex.active(F_NONASCII) {
            *t = t.chars().map(|c| if c.is_ascii() { c } else { 'u' }).collect();
            ex.hit(F_NONASCII);
        } else {
            tags.push(FINDINGS[F_NONASCII].tag);
        }
    }
}

fn lit_features(l: &mut Lit, role: Role, ex: &mut Excl, tags: &mut Vec<&'static str>) {
    match l {
        Lit::Str(s) => string_feature(role, s, ex, tags),
        Lit::Arr(a) => {
            for x in a {
                lit_features(x, role, ex, tags)
            }
        }
        _ => {}
    }
}

fn term_features(t: &mut Term, role: Role, ex: &mut Excl, tags: &mut Vec<&'static str>) {
    match t {
        Term::Lit(l) => {
            if role == Role::CallArg {
                if let Lit::Arr(a) = l {
                    if a.len() >= 2 {
                        if ex.active(F_ARG_ARRAY) {
                            a.truncate(1);
                            ex.hit(F_ARG_ARRAY);
                        } else {
                            tags.push(FINDINGS[F_ARG_ARRAY].tag);
                        }
                    }
                }
            }
            lit_features(l, role, ex, tags)
        }
        Term::Arith(a) => {
            for tok in a.0.iter_mut() {
                if let ATok::Str(s) = tok {
                    string_feature(role, s, ex, tags)
                }
            }
        }
        Term::Field(_) => {}
    }
}

/// does `text` contain what `([a-zA-Z_]\w*)\s*\(([^)]*)\)\s*(>=|<=|==|!=|>|<|contains|startsWith|endsWith|matches|in)\s*(.+)`
/// matches (the condition parser's unanchored function-call pattern)?
fn looks_like_call_comparison(text: &str) -> bool {
    let b: Vec<char> = text.chars().collect();
    const OPS: [&str; 11] = [">=", "<=", "==", "!=", ">", "<", "contains", "startsWith", "endsWith", "matches", "in"];
    for j in 0..b.len() {
        if b[j] != '(' {
            continue;
        }
        // a word run (with at least one letter or underscore) before the parenthesis, blanks allowed in between
        let mut i = j;
        while i > 0 && b[i - 1].is_whitespace() {
            i -= 1;
        }
        let mut k = i;
        while k > 0 && (b[k - 1].is_ascii_alphanumeric() || b[k - 1] == '_') {
            k -= 1;
        }
        if k == i || !b[k..i].iter().any(|c| c.is_ascii_alphabetic() || *c == '_') {
            continue;
        }
        // the next closing parenthesis, then an operator, then something
        let close = match b[j + 1..].iter().position(|c| *c == ')') {
            Some(p) => j + 1 + p,
            None => continue,
        };
        let mut r = close + 1;
        while r < b.len() && b[r].is_whitespace() {
            r += 1;
        }
        let rest: String = b[r..].iter().collect();
        for op in OPS {
            if let Some(after) = rest.strip_prefix(op) {
                if !after.trim_start().is_empty() {
                    return true;
                }
            }
        }
    }
    false
}

fn max_layers(c: &Cond) -> usize {
    if matches!(c, Cond::Atom(_)) {
        2
    } else {
        1
    }
}

fn needs_parens_in_and(c: &Cond) -> bool {
    matches!(c, Cond::Or(_))
}
fn needs_parens_in_not(c: &Cond) -> bool {
    !matches!(c, Cond::Paren(_) | Cond::Exists(_) | Cond::Forall(_) | Cond::Not(_))
}

/// walks the tree; `wraps` = parenthesis layers printed directly around `c` by its ancestors
fn cond_features(c: Cond, wraps: usize, ex: &mut Excl, tags: &mut Vec<&'static str>) -> Cond {
    match c {
        Cond::Paren(x) => {
            let mut k = 1usize;
            let mut cur = *x;
            while let Cond::Paren(y) = cur {
                k += 1;
                cur = *y;
            }
            let allowed = max_layers(&cur);
            let mut keep = k;
            if wraps + k > allowed {
                if ex.active(F_DEEP_PAREN) {
                    keep = allowed.saturating_sub(wraps);
                    ex.hit(F_DEEP_PAREN);
                } else {
                    tags.push(FINDINGS[F_DEEP_PAREN].tag);
                }
            }
            let mut inner = cond_features(cur, wraps + keep, ex, tags);
            for _ in 0..keep {
                inner = Cond::Paren(Box::new(inner));
            }
            inner
        }
        Cond::Atom(mut a) => {
            let plain_cmp = matches!(a, Atom::Cmp { .. } | Atom::ArithCmp { .. });
            match &mut a {
                Atom::Cmp { rhs, .. } => term_features(rhs, Role::CondVal, ex, tags),
                Atom::ArithCmp { lhs, rhs, .. } => {
                    if lhs.has_paren() {
                        if ex.active(F_LHS_PAREN) {
                            lhs.0.retain(|t| !matches!(t, ATok::LP | ATok::RP));
                            ex.hit(F_LHS_PAREN);
                        } else {
                            tags.push(FINDINGS[F_LHS_PAREN].tag);
                        }
                    }
                    term_features(rhs, Role::CondVal, ex, tags)
                }
                Atom::Multi { kind, .. } => {
                    if let Multi::First(v @ Some(_)) | Multi::Last(v @ Some(_)) = kind {
                        if ex.active(F_DOLLAR) {
                            *v = None;
                            ex.hit(F_DOLLAR);
                        } else {
                            tags.push(FINDINGS[F_DOLLAR].tag);
                        }
                    }
                }
                Atom::Func { args, rhs, .. } => {
                    for x in args.iter_mut() {
                        term_features(x, Role::CondArg, ex, tags)
                    }
                    term_features(rhs, Role::CondVal, ex, tags)
                }
            }
            // What is left of finding F10 on this side: the function-call pattern of the condition parser is unanchored
            // and is tried before the plain comparison, so a comparison whose TEXT - string literals included - contains
            // `name(...)` followed by a comparison operator (`X.s == "f(x) > 1"`, `"a(b" + ")<"`) is read as a call.
            if plain_cmp && looks_like_call_comparison(&atom_text(&a)) {
                if ex.active(F_STR_PAREN) {
                    let fix = |t: &mut Term| match t {
                        Term::Lit(Lit::Str(st)) => replace_all(&mut st.text, &["(", ")"], "_"),
                        Term::Arith(ar) => {
                            for tok in ar.0.iter_mut() {
                                if let ATok::Str(st) = tok {
                                    replace_all(&mut st.text, &["(", ")"], "_")
                                }
                            }
                        }
                        _ => {}
                    };
                    match &mut a {
                        Atom::Cmp { rhs, .. } => fix(rhs),
                        Atom::ArithCmp { lhs, rhs, .. } => {
                            for tok in lhs.0.iter_mut() {
                                if let ATok::Str(st) = tok {
                                    replace_all(&mut st.text, &["(", ")"], "_")
                                }
                            }
                            fix(rhs)
                        }
                        _ => {}
                    }
                    ex.hit(F_STR_PAREN);
                } else {
                    tags.push(FINDINGS[F_STR_PAREN].tag);
                }
            }
            Cond::Atom(a)
        }
        Cond::And(kids) => Cond::And(kids.into_iter().map(|k| { let w = if needs_parens_in_and(&k) { 1 } else { 0 }; cond_features(k, w, ex, tags) }).collect()),
        Cond::Or(kids) => Cond::Or(kids.into_iter().map(|k| cond_features(k, 0, ex, tags)).collect()),
        Cond::Not(x) => {
            let w = if needs_parens_in_not(&x) { 1 } else { 0 };
            Cond::Not(Box::new(cond_features(*x, w, ex, tags)))
        }
        Cond::Exists(x) => Cond::Exists(Box::new(cond_features(*x, 0, ex, tags))),
        Cond::Forall(x) => Cond::Forall(Box::new(cond_features(*x, 0, ex, tags))),
    }
}

fn header_string_feature(t: &mut String, ex: &mut Excl, tags: &mut Vec<&'static str>) {
    if t.contains("salience ") {
        if ex.active(F_HDR_KW) {
            *t = t.replace("salience ", "priority ");
            ex.hit(F_HDR_KW);
        } else {
            tags.push(FINDINGS[F_HDR_KW].tag);
        }
    }
    if t.contains('{') || t.contains('}') {
        if ex.active(F_HDR_BRACE) {
            *t = t.replace(['{', '}'], "_");
            ex.hit(F_HDR_BRACE);
        } else {
            tags.push(FINDINGS[F_HDR_BRACE].tag);
        }
    }
    ascii_feature(t, ex, tags);
}

fn rule_features(r: &mut RuleAst, ex: &mut Excl, tags: &mut Vec<&'static str>) {
    ascii_feature(&mut r.name, ex, tags);
    if let Some(d) = &mut r.desc {
        header_string_feature(d, ex, tags);
    }
    for a in r.attrs.iter_mut() {
        match a {
            Attr::Salience(n) if *n < 0 => {
                if ex.active(F_NEG_SAL) {
                    *n = n.checked_neg().unwrap_or(i32::MAX);
                    ex.hit(F_NEG_SAL);
                } else {
                    tags.push(FINDINGS[F_NEG_SAL].tag);
                }
            }
            Attr::AgendaGroup(g) | Attr::ActivationGroup(g) => header_string_feature(g, ex, tags),
            _ => {}
        }
    }
    let c = std::mem::replace(&mut r.cond, Cond::And(vec![]));
    r.cond = cond_features(c, 0, ex, tags);
    for a in r.actions.iter_mut() {
        match a {
            Action::Method { method, args, .. } => {
                if ex.active(F_DOLLAR) {
                    *a = Action::Call { name: method.clone(), args: std::mem::take(args) };
                    ex.hit(F_DOLLAR);
                } else {
                    tags.push(FINDINGS[F_DOLLAR].tag);
                }
            }
            Action::SetWf { key, .. } => {
                if ex.active(F_SETWF) {
                    *a = Action::Complete(StrLit { text: key.clone(), single: false });
                    ex.hit(F_SETWF);
                } else {
                    tags.push(FINDINGS[F_SETWF].tag);
                }
            }
            _ => {}
        }
        match a {
            Action::Set { rhs, .. } | Action::Append { rhs, .. } => term_features(rhs, Role::AssignVal, ex, tags),
            Action::Log(s) | Action::Activate(s) | Action::Schedule(_, s) | Action::Complete(s) => string_feature(Role::CallArg, s, ex, tags),
            Action::Call { args, .. } | Action::Method { args, .. } => {
                for x in args.iter_mut() {
                    term_features(x, Role::CallArg, ex, tags)
                }
            }
            Action::Retract { .. } | Action::SetWf { .. } => {}
        }
    }
}

// =====================================================================
// printer: token stream + layout
// =====================================================================

#[derive(Clone, Copy, PartialEq, Debug)]
enum Glue {
    /// at least one white-space character
    Must,
    /// white space optional
    May,
}

#[derive(Clone, Debug)]
struct Tok {
    t: String,
    /// relation to the previous token
    glue: Glue,
    /// canonical print puts a space before this token
    sp: bool,
    /// non-zero: id of the "bare" arithmetic expression (no '.', no blank in any token) this token belongs to
    bare: u32,
    /// non-zero: finding index + 1 — any white space before this token triggers that finding
    strict: usize,
    /// non-zero: finding index + 1 — a comment before this token triggers that finding
    nocomment: usize,
}

struct Emit {
    out: Vec<Tok>,
    next_bare: u32,
}

impl Emit {
    fn must(&mut self, t: impl Into<String>) {
        self.out.push(Tok { t: t.into(), glue: Glue::Must, sp: true, bare: 0, strict: 0, nocomment: 0 });
    }
    /// optional white space; canonical: a space
    fn may(&mut self, t: impl Into<String>) {
        self.out.push(Tok { t: t.into(), glue: Glue::May, sp: true, bare: 0, strict: 0, nocomment: 0 });
    }
    /// optional white space; canonical: none
    fn tight(&mut self, t: impl Into<String>) {
        self.out.push(Tok { t: t.into(), glue: Glue::May, sp: false, bare: 0, strict: 0, nocomment: 0 });
    }
    fn push(&mut self, t: impl Into<String>, must: bool, sp: bool) {
        self.out.push(Tok { t: t.into(), glue: if must { Glue::Must } else { Glue::May }, sp: sp || must, bare: 0, strict: 0, nocomment: 0 });
    }

    fn lit(&mut self, l: &Lit, must: bool, sp: bool) {
        match l {
            Lit::Null => self.push("null", must, sp),
            Lit::Bool(b) => self.push(b.to_string(), must, sp),
            Lit::Int(i) => self.push(i.to_string(), must, sp),
            Lit::Float(f) => self.push(f.clone(), must, sp),
            Lit::Str(s) => self.push(s.grl(), must, sp),
            Lit::Arr(a) => {
                self.push("[", must, sp);
                for (i, x) in a.iter().enumerate() {
                    if i > 0 {
                        self.tight(",");
                        self.lit(x, false, true);
                    } else {
                        self.lit(x, false, false);
                    }
                }
                self.tight("]");
            }
        }
    }

    fn arith(&mut self, a: &Arith, must: bool, sp: bool, value_position: bool) {
        let bare = if value_position && !a.has_dot() && !a.0.iter().any(|t| t.text().contains(' ')) {
            self.next_bare += 1;
            self.next_bare
        } else {
            0
        };
        let mut prev_lp = false;
        for (i, t) in a.0.iter().enumerate() {
            if i == 0 {
                self.push(t.text(), must, sp);
            } else if prev_lp || matches!(t, ATok::RP) {
                self.tight(t.text());
            } else {
                self.may(t.text());
            }
            self.out.last_mut().unwrap().bare = bare;
            prev_lp = matches!(t, ATok::LP);
        }
    }

    /// `value_position`: the text is classified by the parser's `parse_value`
    fn term(&mut self, t: &Term, must: bool, sp: bool) {
        match t {
            Term::Lit(l) => self.lit(l, must, sp),
            Term::Field(f) => self.push(f.clone(), must, sp),
            Term::Arith(a) => self.arith(a, must, sp, true),
        }
    }

    fn args(&mut self, args: &[Term]) {
        for (i, x) in args.iter().enumerate() {
            if i > 0 {
                self.tight(",");
                self.term(x, false, true);
            } else {
                self.term(x, false, false);
            }
        }
        self.tight(")");
    }

    fn cmp_tail(&mut self, op: COp, rhs: &Term) {
        if op.word() {
            self.must(op.text());
            self.term(rhs, true, true);
        } else {
            self.may(op.text());
            self.term(rhs, false, true);
        }
    }

    fn atom(&mut self, a: &Atom, must: bool, sp: bool) {
        match a {
            Atom::Cmp { field, op, rhs } => {
                self.push(field.clone(), must, sp);
                self.cmp_tail(*op, rhs);
            }
            Atom::ArithCmp { lhs, op, rhs } => {
                self.arith(lhs, must, sp, false);
                self.cmp_tail(*op, rhs);
            }
            Atom::Multi { field, kind } => {
                self.push(field.clone(), must, sp);
                match kind {
                    Multi::Count(op, n) => {
                        self.must("count");
                        self.may(op.text());
                        self.may(n.to_string());
                    }
                    Multi::Empty => self.must("empty"),
                    Multi::NotEmpty => self.must("not_empty"),
                    Multi::First(v) => {
                        self.must("first");
                        if let Some(v) = v {
                            self.must(format!("${}", v));
                        }
                    }
                    Multi::Last(v) => {
                        self.must("last");
                        if let Some(v) = v {
                            self.must(format!("${}", v));
                        }
                    }
                    Multi::Collect(v) => self.must(format!("$?{}", v)),
                }
            }
            Atom::Func { name, args, op, rhs } => {
                self.push(format!("{}(", name), must, sp);
                self.args(args);
                self.cmp_tail(*op, rhs);
            }
        }
    }

    fn cond(&mut self, c: &Cond, must: bool, sp: bool) {
        match c {
            Cond::Atom(a) => self.atom(a, must, sp),
            Cond::And(kids) => {
                for (i, k) in kids.iter().enumerate() {
                    let (m, s) = if i == 0 {
                        (must, sp)
                    } else {
                        self.may("&&");
                        (false, true)
                    };
                    if needs_parens_in_and(k) {
                        self.push("(", m, s);
                        self.cond(k, false, false);
                        self.tight(")");
                    } else {
                        self.cond(k, m, s);
                    }
                }
            }
            Cond::Or(kids) => {
                for (i, k) in kids.iter().enumerate() {
                    if i == 0 {
                        self.cond(k, must, sp);
                    } else {
                        self.may("||");
                        self.cond(k, false, true);
                    }
                }
            }
            Cond::Not(x) => {
                self.push("!", must, sp);
                if needs_parens_in_not(x) {
                    self.tight("(");
                    self.cond(x, false, false);
                    self.tight(")");
                } else {
                    self.cond(x, false, false);
                }
            }
            Cond::Exists(x) | Cond::Forall(x) => {
                self.push(if matches!(c, Cond::Exists(_)) { "exists(" } else { "forall(" }, must, sp);
                self.cond(x, false, false);
                self.tight(")");
            }
            Cond::Paren(x) => {
                self.push("(", must, sp);
                let at = self.out.len();
                self.cond(x, false, false);
                self.tight(")");
                if matches!(strip_paren(x), Cond::Not(_) | Cond::Exists(_) | Cond::Forall(_)) {
                    self.out[at].strict = F_PAREN_WS + 1;
                    self.out.last_mut().unwrap().strict = F_PAREN_WS + 1;
                }
            }
        }
    }

    fn action(&mut self, a: &Action, first: bool) {
        // first token of the statement
        let (m, s) = (first, true);
        match a {
            Action::Set { field, rhs } => {
                self.push(field.clone(), m, s);
                self.may("=");
                self.term(rhs, false, true);
            }
            Action::Append { field, rhs } => {
                self.push(field.clone(), m, s);
                self.may("+=");
                self.term(rhs, false, true);
            }
            Action::Retract { obj, dollar } => {
                if *dollar {
                    self.push("retract(", m, s);
                    self.tight(format!("${}", obj));
                } else {
                    self.push("Retract(", m, s);
                    self.tight(format!("\"{}\"", obj));
                }
                self.tight(")");
                self.out.last_mut().unwrap().strict = F_RETRACT_WS + 1;
            }
            Action::Log(st) => {
                self.push("Log(", m, s);
                self.tight(st.grl());
                self.tight(")");
            }
            Action::Activate(st) => {
                self.push("ActivateAgendaGroup(", m, s);
                self.tight(st.grl());
                self.tight(")");
            }
            Action::Schedule(d, st) => {
                self.push("ScheduleRule(", m, s);
                self.tight(d.to_string());
                self.tight(",");
                self.may(st.grl());
                self.tight(")");
            }
            Action::Complete(st) => {
                self.push("CompleteWorkflow(", m, s);
                self.tight(st.grl());
                self.tight(")");
            }
            Action::SetWf { key, val } => {
                self.push("SetWorkflowData(", m, s);
                self.tight(format!("\"{}={}\"", key, val));
                self.tight(")");
            }
            Action::Call { name, args } => {
                self.push(format!("{}(", name), m, s);
                self.args(args);
            }
            Action::Method { obj, method, args } => {
                self.push(format!("${}.{}(", obj, method), m, s);
                self.args(args);
            }
        }
        self.tight(";");
    }

    fn rule(&mut self, r: &RuleAst) {
        self.must("rule");
        if r.quoted {
            self.must(format!("\"{}\"", r.name));
        } else {
            self.must(r.name.clone());
        }
        self.out.last_mut().unwrap().nocomment = F_CMT_RAW + 1;
        if let Some(d) = &r.desc {
            self.must(format!("\"{}\"", d));
        }
        for a in &r.attrs {
            match a {
                Attr::Salience(n) => {
                    self.must("salience");
                    self.must(n.to_string());
                }
                Attr::NoLoop(t) => {
                    self.must("no-loop");
                    if *t {
                        self.must("true");
                    }
                }
                Attr::LockOnActive(t) => {
                    self.must("lock-on-active");
                    if *t {
                        self.must("true");
                    }
                }
                Attr::AgendaGroup(g) => {
                    self.must("agenda-group");
                    self.must(format!("\"{}\"", g));
                }
                Attr::ActivationGroup(g) => {
                    self.must("activation-group");
                    self.must(format!("\"{}\"", g));
                }
                Attr::DateEffective(d) => {
                    self.must("date-effective");
                    self.must(format!("\"{}\"", d.text));
                }
                Attr::DateExpires(d) => {
                    self.must("date-expires");
                    self.must(format!("\"{}\"", d.text));
                }
            }
        }
        self.may("{");
        self.may("when");
        self.cond(&r.cond, true, true);
        self.must("then");
        for (i, a) in r.actions.iter().enumerate() {
            self.action(a, i == 0);
        }
        self.may("}");
    }
}

fn rule_tokens(r: &RuleAst) -> Vec<Tok> {
    let mut e = Emit { out: Vec::new(), next_bare: 0 };
    e.rule(r);
    e.out
}

/// canonical one-line print of one rule
pub fn canonical(r: &RuleAst) -> String {
    let toks = rule_tokens(r);
    let mut s = String::new();
    for (i, t) in toks.iter().enumerate() {
        if i > 0 && t.sp {
            s.push(' ');
        }
        s.push_str(&t.t);
    }
    s
}

// ---------------------------------------------------------------- layout

#[derive(Default)]
struct LayoutInfo {
    labels: Vec<&'static str>,
}
impl LayoutInfo {
    fn label(&mut self, l: &'static str) {
        if !self.labels.contains(&l) {
            self.labels.push(l);
        }
    }
}

/// Comment variants are a pure function of the comment's text (no extra draws, so saved byte cases keep their
/// meaning): a quote character inside a comment (`it's`, an unbalanced `"`) and the shapes of block comments.
const CMT_SALT: u64 = 28;

fn cmt_variant(text: &str) -> u64 {
    splitmix(fnv1a(text) ^ CMT_SALT)
}

/// 1 in 3 comments carries a quote character: comments are not string context, so it must change nothing
fn cmt_aug(text: &str, li: &mut LayoutInfo) -> String {
    match cmt_variant(text) % 6 {
        4 => {
            li.label("layout:comment-with-apostrophe");
            format!("{} it's", text)
        }
        5 => {
            li.label("layout:comment-with-double-quote");
            format!("{} \"q", text)
        }
        _ => text.to_string(),
    }
}

/// block comment in one of the shapes people write: padded, tight, doc style, toggle idiom `/*/ … /*/`,
/// commented-out line comment `/*// … */`, several lines, starred end
fn block_comment(text: &str, li: &mut LayoutInfo) -> String {
    let t = cmt_aug(text, li);
    match (cmt_variant(text) >> 8) % 8 {
        2 => {
            li.label("layout:block-comment-tight");
            // leading blank: `/` directly followed by `/*` would read as the line comment `//*…` (maximal munch)
            format!(" /*{}*/", t)
        }
        3 => {
            li.label("layout:block-comment-doc");
            format!(" /** {} */ ", t)
        }
        4 => {
            li.label("layout:block-comment-toggle");
            format!(" /*/ {} /*/ ", t)
        }
        5 => {
            li.label("layout:block-comment-of-line-comment");
            format!(" /*// {} */ ", t)
        }
        6 => {
            li.label("layout:block-comment-multiline");
            let (a, b) = t.split_once(' ').unwrap_or((t.as_str(), ""));
            format!(" /* {}\n * {}\n */ ", a, b)
        }
        7 => {
            li.label("layout:block-comment-starred-end");
            format!(" /* {} **/ ", t)
        }
        _ => format!(" /* {} */ ", t),
    }
}

fn gen_comment_text(s: &mut Src) -> String {
    let n = 1 + s.below(3);
    let mut t = String::new();
    for i in 0..n {
        if i > 0 {
            t.push(' ');
        }
        t.push_str(match s.weighted(&[8, 2, 1]) {
            0 => s.pick(&CMT_WORDS),
            1 => s.pick(&CMT_META),
            _ => s.pick(&NONASCII),
        });
    }
    t
}

fn full_line_comment(mut text: String, indent: &str, ex: &mut Excl, tags: &mut Vec<&'static str>, li: &mut LayoutInfo) -> String {
    let has_rule_word = text.split_whitespace().any(|w| w == "rule");
    if text.contains('}') || has_rule_word {
        if ex.active(F_CMT_RAW) {
            text = text.replace('}', ")");
            text = text.split(' ').map(|w| if w == "rule" { "rules" } else { w }).collect::<Vec<_>>().join(" ");
            ex.hit(F_CMT_RAW);
        } else {
            tags.push(FINDINGS[F_CMT_RAW].tag);
        }
    }
    ascii_feature(&mut text, ex, tags);
    li.label("layout:full-line-comment");
    let text = cmt_aug(&text, li);
    format!("\n{}// {}\n{}", indent, text, indent)
}

const INDENTS: [&str; 4] = ["", "  ", "    ", "\t"];
const RUNS: [&str; 8] = ["  ", "\t", " \t", "   ", "\t\t", "    ", " \t ", "\t "];

fn draw_gap(s: &mut Src, must: bool, canon_sp: bool, ex: &mut Excl, tags: &mut Vec<&'static str>, li: &mut LayoutInfo) -> String {
    match s.weighted(&[10, 3, 2, 4, 2, 1, 1, 1]) {
        0 => (if must || canon_sp { " " } else { "" }).to_string(),
        1 => {
            if must {
                " ".to_string()
            } else {
                li.label("layout:tight");
                String::new()
            }
        }
        2 => {
            li.label("layout:space-tab-run");
            s.pick(&RUNS).to_string()
        }
        3 => {
            li.label("layout:newline");
            format!("\n{}", s.pick(&INDENTS))
        }
        4 => {
            let indent = s.pick(&INDENTS);
            let n = 1 + s.below(2);
            let mut g = String::new();
            for _ in 0..n {
                let t = gen_comment_text(s);
                g.push_str(&full_line_comment(t, indent, ex, tags, li));
            }
            g
        }
        5 => {
            let indent = s.pick(&INDENTS);
            let mut t = gen_comment_text(s);
            if ex.active(F_CMT_TRAIL) {
                ex.hit(F_CMT_TRAIL);
                full_line_comment(t, indent, ex, tags, li)
            } else {
                tags.push(FINDINGS[F_CMT_TRAIL].tag);
                ascii_feature(&mut t, ex, tags);
                li.label("layout:trailing-comment");
                let t = cmt_aug(&t, li);
                format!(" // {}\n{}", t, indent)
            }
        }
        6 => {
            let mut t = gen_comment_text(s);
            if ex.active(F_CMT_BLOCK) {
                ex.hit(F_CMT_BLOCK);
                full_line_comment(t, "", ex, tags, li)
            } else {
                tags.push(FINDINGS[F_CMT_BLOCK].tag);
                ascii_feature(&mut t, ex, tags);
                li.label("layout:block-comment");
                block_comment(&t, li)
            }
        }
        _ => {
            li.label("layout:crlf");
            format!("\r\n{}", s.pick(&INDENTS))
        }
    }
}

fn spaceless(g: &str) -> bool {
    !g.contains(' ') && !g.contains('\n')
}

/// lays one rule out; returns its text (from `rule` to `}`)
fn layout_rule(s: &mut Src, toks: &[Tok], ex: &mut Excl, tags: &mut Vec<&'static str>, li: &mut LayoutInfo) -> String {
    // last inside gap of every bare expression
    let mut last_inside: BTreeMap<u32, usize> = BTreeMap::new();
    for i in 1..toks.len() {
        if toks[i].bare != 0 && toks[i - 1].bare == toks[i].bare {
            last_inside.insert(toks[i].bare, i);
        }
    }
    let mut all_tight: BTreeMap<u32, bool> = BTreeMap::new();
    let mut out = String::new();
    for (i, t) in toks.iter().enumerate() {
        if i > 0 {
            let mut g = draw_gap(s, t.glue == Glue::Must, t.sp, ex, tags, li);
            if t.strict != 0 && !g.is_empty() {
                if ex.active(t.strict - 1) {
                    g = String::new();
                    ex.hit(t.strict - 1);
                } else {
                    tags.push(FINDINGS[t.strict - 1].tag);
                }
            }
            if t.nocomment != 0 && (g.contains("//") || g.contains("/*")) {
                if ex.active(t.nocomment - 1) {
                    g = "\n".to_string();
                    ex.hit(t.nocomment - 1);
                } else {
                    tags.push(FINDINGS[t.nocomment - 1].tag);
                }
            }
            if t.bare != 0 && toks[i - 1].bare == t.bare {
                let e = all_tight.entry(t.bare).or_insert(true);
                *e = *e && spaceless(&g);
                if *e && last_inside.get(&t.bare) == Some(&i) {
                    if ex.active(F_TIGHT) {
                        g = " ".to_string();
                        ex.hit(F_TIGHT);
                    } else {
                        tags.push(FINDINGS[F_TIGHT].tag);
                    }
                }
            }
            out.push_str(&g);
        }
        out.push_str(&t.t);
    }
    out
}

pub struct Printed {
    pub text: String,
    /// byte range of every rule's own text inside `text`
    pub spans: Vec<(usize, usize)>,
}

fn layout_file(s: &mut Src, rules: &[RuleAst], ex: &mut Excl, tags: &mut Vec<&'static str>, li: &mut LayoutInfo) -> Printed {
    let mut text = String::new();
    let mut spans = Vec::new();
    let lead = draw_gap(s, false, false, ex, tags, li);
    text.push_str(&lead);
    for (i, r) in rules.iter().enumerate() {
        if i > 0 {
            let g = draw_gap(s, true, true, ex, tags, li);
            text.push_str(&g);
        }
        let toks = rule_tokens(r);
        let rt = layout_rule(s, &toks, ex, tags, li);
        spans.push((text.len(), text.len() + rt.len()));
        text.push_str(&rt);
    }
    let trail = draw_gap(s, false, false, ex, tags, li);
    text.push_str(&trail);
    Printed { text, spans }
}

// =====================================================================
// normal form of what the parser returned
// =====================================================================

/// tokens of an expression text: layout inside `A.x + 1` is irrelevant
pub fn toks(s: &str) -> Vec<String> {
    let cs: Vec<char> = s.chars().collect();
    let mut out = Vec::new();
    let mut i = 0;
    while i < cs.len() {
        let c = cs[i];
        if c.is_whitespace() {
            i += 1;
        } else if c == '"' || c == '\'' {
            let mut j = i + 1;
            while j < cs.len() && cs[j] != c {
                j += 1;
            }
            let end = (j + 1).min(cs.len());
            out.push(cs[i..end].iter().collect());
            i = end;
        } else if c.is_alphanumeric() || c == '_' || c == '.' || c == '$' {
            let mut j = i;
            while j < cs.len() && (cs[j].is_alphanumeric() || cs[j] == '_' || cs[j] == '.' || cs[j] == '$') {
                j += 1;
            }
            out.push(cs[i..j].iter().collect());
            i = j;
        } else {
            out.push(c.to_string());
            i += 1;
        }
    }
    out
}

#[derive(Clone, Debug, PartialEq)]
pub enum PV {
    Null,
    Bool(bool),
    Int(i64),
    Num(u64),
    Str(String),
    Arr(Vec<PV>),
    Expr(Vec<String>),
    Obj(String),
}

fn pv(v: &Value) -> PV {
    match v {
        Value::Null => PV::Null,
        Value::Boolean(b) => PV::Bool(*b),
        Value::Integer(i) => PV::Int(*i),
        Value::Number(f) => PV::Num(f.to_bits()),
        Value::String(s) => PV::Str(s.clone()),
        Value::Array(a) => PV::Arr(a.iter().map(pv).collect()),
        Value::Expression(e) => PV::Expr(toks(e)),
        Value::Object(o) => {
            let m: BTreeMap<_, _> = o.iter().map(|(k, v)| (k.clone(), pv(v))).collect();
            PV::Obj(format!("{:?}", m))
        }
    }
}

#[derive(Clone, Debug, PartialEq)]
pub enum PE {
    Field(String),
    Func { name: String, args: Vec<String> },
    Test { name: Vec<String>, args: Vec<String> },
    Multi { field: String, operation: String, variable: Option<String> },
}

#[derive(Clone, Debug, PartialEq)]
pub enum PC {
    Single { expr: PE, op: Operator, val: PV },
    And(Vec<PC>),
    Or(Vec<PC>),
    Not(Box<PC>),
    Exists(Box<PC>),
    Forall(Box<PC>),
    Other(String),
}

fn flatten_g(g: &ConditionGroup, and: bool, out: &mut Vec<PC>) {
    match g {
        ConditionGroup::Compound { left, operator, right } if (and && *operator == LogicalOperator::And) || (!and && *operator == LogicalOperator::Or) => {
            flatten_g(left, and, out);
            flatten_g(right, and, out);
        }
        _ => out.push(pc(g)),
    }
}

fn pc(g: &ConditionGroup) -> PC {
    match g {
        ConditionGroup::Single(c) => PC::Single {
            expr: match &c.expression {
                ConditionExpression::Field(f) => PE::Field(f.clone()),
                ConditionExpression::FunctionCall { name, args } => PE::Func { name: name.clone(), args: args.clone() },
                ConditionExpression::Test { name, args } => PE::Test { name: toks(name), args: args.clone() },
                ConditionExpression::MultiField { field, operation, variable } => PE::Multi { field: field.clone(), operation: operation.clone(), variable: variable.clone() },
            },
            op: c.operator.clone(),
            val: pv(&c.value),
        },
        ConditionGroup::Compound { operator, .. } => {
            let and = *operator == LogicalOperator::And;
            if !and && *operator != LogicalOperator::Or {
                return PC::Other(format!("{:?}", g));
            }
            let mut v = Vec::new();
            flatten_g(g, and, &mut v);
            if and {
                PC::And(v)
            } else {
                PC::Or(v)
            }
        }
        ConditionGroup::Not(x) => PC::Not(Box::new(pc(x))),
        ConditionGroup::Exists(x) => PC::Exists(Box::new(pc(x))),
        ConditionGroup::Forall(x) => PC::Forall(Box::new(pc(x))),
        other => PC::Other(format!("{:?}", other)),
    }
}

#[derive(Clone, Debug, PartialEq)]
pub enum PA {
    Set { field: String, val: PV },
    Append { field: String, val: PV },
    Log(String),
    Method { object: String, method: String, args: Vec<PV> },
    Retract(String),
    Custom { name: String, params: BTreeMap<String, PV> },
    Activate(String),
    Schedule { rule: String, delay: u64 },
    Complete(String),
    SetWf { key: String, val: PV },
}

fn pa(a: &ActionType) -> PA {
    match a {
        ActionType::Set { field, value } => PA::Set { field: field.clone(), val: pv(value) },
        ActionType::Append { field, value } => PA::Append { field: field.clone(), val: pv(value) },
        ActionType::Log { message } => PA::Log(message.clone()),
        ActionType::MethodCall { object, method, args } => PA::Method { object: object.clone(), method: method.clone(), args: args.iter().map(pv).collect() },
        ActionType::Retract { object } => PA::Retract(object.clone()),
        ActionType::Custom { action_type, params } => PA::Custom { name: action_type.clone(), params: params.iter().map(|(k, v)| (k.clone(), pv(v))).collect() },
        ActionType::ActivateAgendaGroup { group } => PA::Activate(group.clone()),
        ActionType::ScheduleRule { rule_name, delay_ms } => PA::Schedule { rule: rule_name.clone(), delay: *delay_ms },
        ActionType::CompleteWorkflow { workflow_name } => PA::Complete(workflow_name.clone()),
        ActionType::SetWorkflowData { key, value } => PA::SetWf { key: key.clone(), val: pv(value) },
    }
}

#[derive(Clone, Debug, PartialEq)]
pub struct PRule {
    pub name: String,
    pub salience: i32,
    pub enabled: bool,
    pub no_loop: bool,
    pub lock_on_active: bool,
    pub agenda_group: Option<String>,
    pub activation_group: Option<String>,
    pub date_effective: Option<DateTime<Utc>>,
    pub date_expires: Option<DateTime<Utc>>,
    pub cond: PC,
    pub actions: Vec<PA>,
}

pub fn prule(r: &Rule) -> PRule {
    PRule {
        name: r.name.clone(),
        salience: r.salience,
        enabled: r.enabled,
        no_loop: r.no_loop,
        lock_on_active: r.lock_on_active,
        agenda_group: r.agenda_group.clone(),
        activation_group: r.activation_group.clone(),
        date_effective: r.date_effective,
        date_expires: r.date_expires,
        cond: pc(&r.conditions),
        actions: r.actions.iter().map(pa).collect(),
    }
}

/// first difference between two normalised rules (None = equal)
fn diff_prule(a: &PRule, b: &PRule) -> Option<(&'static str, String)> {
    macro_rules! f {
        ($fld:ident, $name:expr) => {
            if a.$fld != b.$fld {
                return Some(($name, format!("{:?} vs {:?}", a.$fld, b.$fld)));
            }
        };
    }
    f!(name, "name");
    f!(salience, "salience");
    f!(enabled, "enabled");
    f!(no_loop, "no-loop");
    f!(lock_on_active, "lock-on-active");
    f!(agenda_group, "agenda-group");
    f!(activation_group, "activation-group");
    f!(date_effective, "date-effective");
    f!(date_expires, "date-expires");
    f!(cond, "condition");
    if a.actions.len() != b.actions.len() {
        return Some(("action-count", format!("{:?} vs {:?}", a.actions, b.actions)));
    }
    for (i, (x, y)) in a.actions.iter().zip(b.actions.iter()).enumerate() {
        if x != y {
            return Some(("action", format!("action {}: {:?} vs {:?}", i, x, y)));
        }
    }
    None
}

// =====================================================================
// oracle 1: the parsed rule equals the AST
// =====================================================================

fn exp_lit(l: &Lit) -> PV {
    match l {
        Lit::Null => PV::Null,
        Lit::Bool(b) => PV::Bool(*b),
        Lit::Int(i) => PV::Int(*i),
        Lit::Float(t) => PV::Num(t.parse::<f64>().unwrap_or(f64::NAN).to_bits()),
        Lit::Str(s) => PV::Str(s.text.clone()),
        Lit::Arr(a) => PV::Arr(a.iter().map(exp_lit).collect()),
    }
}

fn arith_text(a: &Arith) -> String {
    a.0.iter().map(|t| t.text()).collect::<Vec<_>>().join(" ")
}

fn term_text(t: &Term) -> String {
    let mut e = Emit { out: Vec::new(), next_bare: 0 };
    e.term(t, false, false);
    e.out.iter().map(|t| t.t.clone()).collect::<Vec<_>>().join(" ")
}

fn term_ok(t: &Term, v: &PV) -> bool {
    match t {
        Term::Lit(l) => &exp_lit(l) == v,
        Term::Field(f) => *v == PV::Expr(vec![f.clone()]),
        Term::Arith(a) => *v == PV::Expr(toks(&arith_text(a))),
    }
}

fn strip_paren(c: &Cond) -> &Cond {
    let mut c = c;
    while let Cond::Paren(x) = c {
        c = x;
    }
    c
}

fn flatten_c<'a>(c: &'a Cond, and: bool, out: &mut Vec<&'a Cond>) {
    let c = strip_paren(c);
    match (c, and) {
        (Cond::And(k), true) | (Cond::Or(k), false) => {
            for x in k {
                flatten_c(x, and, out)
            }
        }
        _ => out.push(c),
    }
}

fn atom_text(a: &Atom) -> String {
    let mut e = Emit { out: Vec::new(), next_bare: 0 };
    e.atom(a, false, false);
    e.out.iter().map(|t| t.t.clone()).collect::<Vec<_>>().join(" ")
}

fn cond_ok(c: &Cond, p: &PC) -> Result<(), String> {
    let c = strip_paren(c);
    let bad = |why: &str| Err(format!("{}: written `{}` parsed {:?}", why, cond_text(c), p));
    match c {
        Cond::Paren(_) => unreachable!(),
        Cond::Atom(a) => {
            let (expr, op, val) = match p {
                PC::Single { expr, op, val } => (expr, op, val),
                _ => return bad("atom expected"),
            };
            match a {
                Atom::Cmp { field, op: o, rhs } => {
                    if *expr != PE::Field(field.clone()) || *op != o.engine() || !term_ok(rhs, val) {
                        return bad("comparison");
                    }
                }
                Atom::ArithCmp { .. } => match expr {
                    PE::Test { name, args } if args.is_empty() && *name == toks(&atom_text(a)) => {}
                    _ => return bad("arithmetic comparison"),
                },
                Atom::Multi { field, kind } => {
                    let (operation, variable, cmp): (&str, Option<String>, Option<(COp, i64)>) = match kind {
                        Multi::Count(o, n) => ("count", None, Some((*o, *n))),
                        Multi::Empty => ("empty", None, None),
                        Multi::NotEmpty => ("not_empty", None, None),
                        Multi::First(v) => ("first", v.as_ref().map(|v| format!("${}", v)), None),
                        Multi::Last(v) => ("last", v.as_ref().map(|v| format!("${}", v)), None),
                        Multi::Collect(v) => ("collect", Some(format!("$?{}", v)), None),
                    };
                    if *expr != (PE::Multi { field: field.clone(), operation: operation.to_string(), variable }) {
                        return bad("multifield");
                    }
                    if let Some((o, n)) = cmp {
                        if *op != o.engine() || *val != PV::Int(n) {
                            return bad("multifield count");
                        }
                    }
                }
                Atom::Func { name, args, op: o, rhs } => {
                    let ok = match expr {
                        PE::Func { name: n2, args: a2 } => {
                            n2 == name
                                && a2.len() == args.len()
                                && args.iter().zip(a2.iter()).all(|(x, y)| {
                                    toks(&term_text(x)) == toks(y) || matches!(x, Term::Lit(Lit::Str(s)) if &s.text == y)
                                })
                        }
                        _ => false,
                    };
                    if !ok || *op != o.engine() || !term_ok(rhs, val) {
                        return bad("function call");
                    }
                }
            }
            Ok(())
        }
        Cond::And(_) | Cond::Or(_) => {
            let and = matches!(c, Cond::And(_));
            let mut mine = Vec::new();
            flatten_c(c, and, &mut mine);
            let theirs = match (p, and) {
                (PC::And(v), true) | (PC::Or(v), false) => v,
                _ => return bad(if and { "&& expected at this level" } else { "|| expected at this level" }),
            };
            if mine.len() != theirs.len() {
                return bad("operand count");
            }
            for (x, y) in mine.iter().zip(theirs.iter()) {
                cond_ok(x, y)?;
            }
            Ok(())
        }
        Cond::Not(x) => match p {
            PC::Not(y) => cond_ok(x, y),
            _ => bad("! expected"),
        },
        Cond::Exists(x) => match p {
            PC::Exists(y) => cond_ok(x, y),
            _ => bad("exists expected"),
        },
        Cond::Forall(x) => match p {
            PC::Forall(y) => cond_ok(x, y),
            _ => bad("forall expected"),
        },
    }
}

fn cond_text(c: &Cond) -> String {
    let mut e = Emit { out: Vec::new(), next_bare: 0 };
    e.cond(c, false, false);
    let mut s = String::new();
    for (i, t) in e.out.iter().enumerate() {
        if i > 0 && t.sp {
            s.push(' ');
        }
        s.push_str(&t.t);
    }
    s
}

fn action_kind(a: &Action) -> &'static str {
    match a {
        Action::Set { .. } => "assignment",
        Action::Append { .. } => "append",
        Action::Retract { .. } => "retract",
        Action::Log(_) => "log",
        Action::Activate(_) => "activate-agenda-group",
        Action::Schedule(..) => "schedule-rule",
        Action::Complete(_) => "complete-workflow",
        Action::SetWf { .. } => "set-workflow-data",
        Action::Call { .. } => "custom-call",
        Action::Method { .. } => "method-call",
    }
}

fn action_ok(a: &Action, p: &PA) -> bool {
    match (a, p) {
        (Action::Set { field, rhs }, PA::Set { field: f, val }) => f == field && term_ok(rhs, val),
        (Action::Append { field, rhs }, PA::Append { field: f, val }) => f == field && term_ok(rhs, val),
        // the quoted form may keep its quotes: GrlReteLoader strips them "if present"
        (Action::Retract { obj, .. }, PA::Retract(o)) => o.trim_start_matches('$').trim_matches('"') == obj,
        (Action::Log(s), PA::Log(m)) => m == &s.text,
        (Action::Activate(s), PA::Activate(g)) => g == &s.text,
        (Action::Schedule(d, s), PA::Schedule { rule, delay }) => rule == &s.text && delay == d,
        (Action::Complete(s), PA::Complete(w)) => w == &s.text,
        (Action::SetWf { key, val }, PA::SetWf { key: k, val: v }) => {
            k == key && (*v == PV::Str(val.clone()) || *v == PV::Expr(vec![val.clone()]) || val.parse::<i64>().map(|i| *v == PV::Int(i)).unwrap_or(false))
        }
        (Action::Call { name, args }, PA::Custom { name: n, params }) => {
            n == name && params.len() == args.len() && args.iter().enumerate().all(|(i, x)| params.get(&i.to_string()).map(|v| term_ok(x, v)).unwrap_or(false))
        }
        (Action::Method { obj, method, args }, PA::Method { object, method: m, args: a2 }) => {
            object == obj
                && m == method
                && a2.len() == args.len()
                && args.iter().zip(a2.iter()).all(|(x, v)| {
                    // the engine documents that an arithmetic argument is kept as text and evaluated later
                    term_ok(x, v) || (!matches!(x, Term::Lit(_)) && matches!(v, PV::Str(s) if toks(s) == toks(&term_text(x))))
                })
        }
        _ => false,
    }
}

/// Err((field, detail))
fn rule_ok(r: &RuleAst, p: &PRule) -> Result<(), (String, String)> {
    let e = |w: &str, d: String| Err((w.to_string(), d));
    if p.name != r.name {
        return e("name", format!("written {:?} parsed {:?}", r.name, p.name));
    }
    let mut sal = 0;
    let (mut nl, mut loa) = (false, false);
    let (mut ag, mut acg, mut de, mut dx) = (None, None, None, None);
    for a in &r.attrs {
        match a {
            Attr::Salience(n) => sal = *n,
            Attr::NoLoop(_) => nl = true,
            Attr::LockOnActive(_) => loa = true,
            Attr::AgendaGroup(g) => ag = Some(g.clone()),
            Attr::ActivationGroup(g) => acg = Some(g.clone()),
            Attr::DateEffective(d) => de = Some(d.utc),
            Attr::DateExpires(d) => dx = Some(d.utc),
        }
    }
    if p.salience != sal {
        return e("salience", format!("written {} parsed {}", sal, p.salience));
    }
    if !p.enabled {
        return e("enabled", "parsed rule is disabled".into());
    }
    if p.no_loop != nl {
        return e("no-loop", format!("written {} parsed {}", nl, p.no_loop));
    }
    if p.lock_on_active != loa {
        return e("lock-on-active", format!("written {} parsed {}", loa, p.lock_on_active));
    }
    if p.agenda_group != ag {
        return e("agenda-group", format!("written {:?} parsed {:?}", ag, p.agenda_group));
    }
    if p.activation_group != acg {
        return e("activation-group", format!("written {:?} parsed {:?}", acg, p.activation_group));
    }
    if p.date_effective != de {
        return e("date-effective", format!("written {:?} parsed {:?}", de, p.date_effective));
    }
    if p.date_expires != dx {
        return e("date-expires", format!("written {:?} parsed {:?}", dx, p.date_expires));
    }
    if let Err(d) = cond_ok(&r.cond, &p.cond) {
        return e("condition", d);
    }
    if p.actions.len() != r.actions.len() {
        return e("action-count", format!("written {} actions, parsed {}: {:?}", r.actions.len(), p.actions.len(), p.actions));
    }
    for (i, (a, pa)) in r.actions.iter().zip(p.actions.iter()).enumerate() {
        if !action_ok(a, pa) {
            return e(&format!("action:{}", action_kind(a)), format!("action {} written {:?} parsed {:?}", i, a, pa));
        }
    }
    Ok(())
}

// =====================================================================
// case construction, classification
// =====================================================================

pub struct Case {
    pub rules: Vec<RuleAst>,
    pub printed: Printed,
    pub tags: Vec<&'static str>,
    labels: Vec<&'static str>,
    /// development aid (C04_DEV_ONLY): the case is not the one looked for
    skip: bool,
}

fn build_from(s: &mut Src, ctx: &mut Ctx, mut rules: Vec<RuleAst>) -> Case {
    if dev_only().is_some() {
        ctx.no_exclusions = true;
    }
    // Custom function names that LOOK LIKE built-in actions (an extra or moved underscore, a suffix, another case):
    // they are custom calls all the same. Applied to files of 3, 5 or 7 rules - a pure function of the case, no draw, so
    // byte-encoded cases keep their decoding.
    if rules.len() >= 3 && rules.len() % 2 == 1 {
        for r in rules.iter_mut() {
            for a in r.actions.iter_mut() {
                if let Action::Call { name, .. } = a {
                    if let Some(k) = CALLS.iter().position(|c| c == name) {
                        *name = LOOKALIKE_CALLS[k].to_string();
                    }
                }
            }
        }
    }
    let mut tags = Vec::new();
    let mut li = LayoutInfo::default();
    let printed = {
        let mut ex = Excl { ctx };
        for r in rules.iter_mut() {
            rule_features(r, &mut ex, &mut tags);
        }
        layout_file(s, &rules, &mut ex, &mut tags, &mut li)
    };
    tags.retain(|t| *t != FINDINGS[F_NONASCII].tag); // never failed: not part of a signature
    tags.sort();
    tags.dedup();
    let skip = matches!(dev_only(), Some(t) if tags.len() != 1 || tags[0] != t.as_str());
    Case { rules, printed, tags, labels: li.labels, skip }
}

fn build(s: &mut Src, ctx: &mut Ctx) -> Case {
    let rules = gen_file(s);
    build_from(s, ctx, rules)
}

fn describe(c: &Case) -> String {
    format!("{}\n-- {} rule(s); suspect features: {:?}", c.printed.text, c.rules.len(), c.tags)
}

fn sig(part: &str, what: &str, tags: &[&'static str]) -> String {
    if tags.is_empty() {
        format!("{}:{}", part, what)
    } else {
        format!("{}:{}[{}]", part, what, tags.join(","))
    }
}

fn depth(c: &Cond) -> u32 {
    match strip_paren(c) {
        Cond::Atom(_) => 0,
        Cond::And(k) | Cond::Or(k) => 1 + k.iter().map(depth).max().unwrap_or(0),
        Cond::Not(x) | Cond::Exists(x) | Cond::Forall(x) => 1 + depth(x),
        Cond::Paren(_) => unreachable!(),
    }
}

#[derive(Default)]
struct Seen {
    and: bool,
    or: bool,
    not: bool,
    quant: bool,
    paren: bool,
    neg_num: bool,
    meta_str: bool,
}

fn meta_text(t: &str) -> bool {
    t.chars().any(|c| "{};&|(),=+/!<>'\"".contains(c)) || t.contains("then") || t.contains("rule")
}

fn see_lit(l: &Lit, ctx: &mut Ctx, sn: &mut Seen) {
    match l {
        Lit::Null => ctx.label("lit:null"),
        Lit::Bool(_) => ctx.label("lit:bool"),
        Lit::Int(i) => {
            ctx.label("lit:int");
            if *i < 0 {
                sn.neg_num = true;
                ctx.label("lit:negative");
            }
        }
        Lit::Float(t) => {
            ctx.label("lit:float");
            if t.starts_with('-') {
                sn.neg_num = true;
                ctx.label("lit:negative");
            }
        }
        Lit::Str(s) => {
            ctx.label(if s.single { "lit:string-single-quoted" } else { "lit:string" });
            if meta_text(&s.text) {
                sn.meta_str = true;
                ctx.label("lit:string-with-metachar");
            }
            if !s.text.is_ascii() {
                ctx.label("lit:string-non-ascii");
            }
            if s.text.is_empty() {
                ctx.label("lit:string-empty");
            }
        }
        Lit::Arr(a) => {
            ctx.label("lit:array");
            for x in a {
                see_lit(x, ctx, sn)
            }
        }
    }
}

fn see_term(t: &Term, ctx: &mut Ctx, sn: &mut Seen) {
    match t {
        Term::Lit(l) => see_lit(l, ctx, sn),
        Term::Field(_) => ctx.label("term:field-reference"),
        Term::Arith(a) => {
            ctx.label("term:arithmetic");
            if a.has_paren() {
                ctx.label("term:arithmetic-with-parens");
            }
            for t in &a.0 {
                if let ATok::Str(s) = t {
                    ctx.label("term:string-concatenation");
                    see_lit(&Lit::Str(s.clone()), ctx, sn);
                }
            }
        }
    }
}

fn see_cond(c: &Cond, ctx: &mut Ctx, sn: &mut Seen) {
    match c {
        Cond::Atom(a) => match a {
            Atom::Cmp { op, rhs, .. } => {
                ctx.label(if op.word() { "atom:field-wordop-value" } else { "atom:field-cmp-value" });
                see_term(rhs, ctx, sn)
            }
            Atom::ArithCmp { rhs, .. } => {
                ctx.label("atom:arithmetic-left-side");
                see_term(rhs, ctx, sn)
            }
            Atom::Multi { .. } => ctx.label("atom:multifield"),
            Atom::Func { args, rhs, .. } => {
                ctx.label("atom:function-call");
                for x in args {
                    see_term(x, ctx, sn)
                }
                see_term(rhs, ctx, sn)
            }
        },
        Cond::And(k) => {
            sn.and = true;
            k.iter().for_each(|x| see_cond(x, ctx, sn))
        }
        Cond::Or(k) => {
            sn.or = true;
            k.iter().for_each(|x| see_cond(x, ctx, sn))
        }
        Cond::Not(x) => {
            sn.not = true;
            see_cond(x, ctx, sn)
        }
        Cond::Exists(x) | Cond::Forall(x) => {
            sn.quant = true;
            see_cond(x, ctx, sn)
        }
        Cond::Paren(x) => {
            sn.paren = true;
            see_cond(x, ctx, sn)
        }
    }
}

fn classify(c: &Case, ctx: &mut Ctx) {
    ctx.label(match c.rules.len() {
        0 => "rules:0",
        1 => "rules:1",
        2..=3 => "rules:2-3",
        _ => "rules:4-8",
    });
    for l in &c.labels {
        ctx.label(l);
    }
    let mut nt = c.rules.len() >= 2;
    for r in &c.rules {
        let mut sn = Seen::default();
        ctx.label(if r.quoted { "name:quoted" } else { "name:bare" });
        if r.desc.is_some() {
            ctx.label("header:description");
        }
        ctx.label(match r.attrs.len() {
            0 => "attrs:0",
            1 => "attrs:1",
            2..=3 => "attrs:2-3",
            _ => "attrs:4-7",
        });
        for a in &r.attrs {
            if let Attr::Salience(n) = a {
                if *n < 0 {
                    sn.neg_num = true;
                    ctx.label("salience:negative");
                }
                if *n == i32::MAX || *n == i32::MIN {
                    ctx.label("salience:extreme");
                }
            }
            ctx.label(match a {
                Attr::Salience(_) => "attr:salience",
                Attr::NoLoop(_) => "attr:no-loop",
                Attr::LockOnActive(_) => "attr:lock-on-active",
                Attr::AgendaGroup(_) => "attr:agenda-group",
                Attr::ActivationGroup(_) => "attr:activation-group",
                Attr::DateEffective(_) => "attr:date-effective",
                Attr::DateExpires(_) => "attr:date-expires",
            });
        }
        see_cond(&r.cond, ctx, &mut sn);
        let d = depth(&r.cond);
        ctx.label(match d {
            0 => "cond-depth:0",
            1 => "cond-depth:1",
            2 => "cond-depth:2",
            3 => "cond-depth:3",
            _ => "cond-depth:4-5",
        });
        if sn.and && sn.or {
            ctx.label("cond:mixes-and-or");
        }
        if sn.not {
            ctx.label("cond:not");
        }
        if sn.quant {
            ctx.label("cond:exists-forall");
        }
        if sn.paren {
            ctx.label("cond:redundant-parens");
        }
        for a in &r.actions {
            ctx.label(match a {
                Action::Set { .. } => "action:assignment",
                Action::Append { .. } => "action:append",
                Action::Retract { .. } => "action:retract",
                Action::Log(_) => "action:log",
                Action::Activate(_) => "action:activate-agenda-group",
                Action::Schedule(..) => "action:schedule-rule",
                Action::Complete(_) => "action:complete-workflow",
                Action::SetWf { .. } => "action:set-workflow-data",
                Action::Call { .. } => "action:custom-call",
                Action::Method { .. } => "action:method-call",
            });
            match a {
                Action::Set { rhs, .. } | Action::Append { rhs, .. } => see_term(rhs, ctx, &mut sn),
                Action::Call { args, .. } | Action::Method { args, .. } => args.iter().for_each(|x| see_term(x, ctx, &mut sn)),
                Action::Log(s) | Action::Activate(s) | Action::Schedule(_, s) | Action::Complete(s) => see_lit(&Lit::Str(s.clone()), ctx, &mut sn),
                _ => {}
            }
        }
        if r.attrs.len() >= 2 || (d >= 2 && sn.and && sn.or) || sn.meta_str || sn.neg_num {
            nt = true;
        }
    }
    if nt {
        ctx.nontrivial(hash_str(&c.printed.text));
    }
}

fn parse_file(text: &str) -> Result<Result<Vec<PRule>, String>, String> {
    catch(|| GRLParser::parse_rules(text).map(|v| v.iter().map(prule).collect::<Vec<_>>()).map_err(|e| e.to_string()))
}

fn panic_sig(part: &str, p: &str, tags: &[&'static str]) -> Verdict {
    let loc = p.split(": ").next().unwrap_or("?");
    Verdict::fail(sig(part, &format!("panic@{}", loc), tags), p.to_string())
}

fn short(s: &str) -> String {
    s.chars().take(160).collect()
}

// =====================================================================
// part 1: round trip
// =====================================================================

fn judge_roundtrip(c: &Case, part: &str) -> Verdict {
    let parsed = match parse_file(&c.printed.text) {
        Err(p) => return panic_sig(part, &p, &c.tags),
        Ok(Err(e)) => return Verdict::fail(sig(part, "parse-error", &c.tags), format!("parse_rules returned Err({})", short(&e))),
        Ok(Ok(v)) => v,
    };
    if parsed.len() != c.rules.len() {
        return Verdict::fail(
            sig(part, "rule-count", &c.tags),
            format!("{} rule blocks written, {} rules parsed (names {:?})", c.rules.len(), parsed.len(), parsed.iter().map(|r| &r.name).collect::<Vec<_>>()),
        );
    }
    for (i, (r, p)) in c.rules.iter().zip(parsed.iter()).enumerate() {
        if let Err((what, detail)) = rule_ok(r, p) {
            return Verdict::fail(sig(part, &what, &c.tags), format!("rule #{} ({}): {}", i, r.name, detail));
        }
    }
    Verdict::Pass
}

pub fn run_roundtrip(s: &mut Src, ctx: &mut Ctx) -> Verdict {
    let c = build(s, ctx);
    if probe_only() || c.skip {
        return Verdict::Pass;
    }
    ctx.describe(|| describe(&c));
    classify(&c, ctx);
    judge_roundtrip(&c, "rt")
}

// =====================================================================
// part 2: metamorphic — every rule of the file equals the canonical one-line print of that rule parsed alone
// =====================================================================

pub fn run_meta(s: &mut Src, ctx: &mut Ctx) -> Verdict {
    let c = build(s, ctx);
    if probe_only() || c.skip {
        return Verdict::Pass;
    }
    ctx.describe(|| describe(&c));
    classify(&c, ctx);
    let mut alone: Vec<PRule> = Vec::new();
    let mut canon_err: Option<String> = None;
    for r in &c.rules {
        let t = canonical(r);
        match parse_file(&t) {
            Err(p) => return panic_sig("meta", &p, &c.tags),
            Ok(Ok(mut v)) if v.len() == 1 => alone.push(v.remove(0)),
            Ok(Ok(v)) => canon_err = Some(format!("canonical print `{}` parsed into {} rules", t, v.len())),
            Ok(Err(e)) => canon_err = Some(format!("canonical print `{}` rejected: {}", t, short(&e))),
        }
    }
    let file = match parse_file(&c.printed.text) {
        Err(p) => return panic_sig("meta", &p, &c.tags),
        Ok(x) => x,
    };
    match (file, canon_err) {
        (Err(_), Some(_)) => Verdict::Discard("file and canonical print both rejected (left to the round-trip part)"),
        (Err(e), None) => Verdict::fail(sig("meta", "file-rejected", &c.tags), format!("every rule parses alone in canonical layout, the file is rejected: {}", short(&e))),
        (Ok(_), Some(ce)) => Verdict::fail(sig("meta", "canonical-rejected", &c.tags), format!("the file parses, but {}", ce)),
        (Ok(v), None) => {
            if v.len() != alone.len() {
                return Verdict::fail(sig("meta", "rule-count", &c.tags), format!("{} rules parse alone, the file yields {} (names {:?})", alone.len(), v.len(), v.iter().map(|r| &r.name).collect::<Vec<_>>()));
            }
            for (i, (a, b)) in v.iter().zip(alone.iter()).enumerate() {
                if let Some((what, d)) = diff_prule(a, b) {
                    return Verdict::fail(sig("meta", what, &c.tags), format!("rule #{} ({}): in the file vs alone in canonical layout: {}", i, c.rules[i].name, d));
                }
            }
            Verdict::Pass
        }
    }
}

// =====================================================================
// part 3: parse_rule and parse_with_modules agree with parse_rules
// =====================================================================

fn decorate(s: &mut Src, c: &Case) -> String {
    const MODS: [&str; 3] = ["SENSORS", "CONTROL", "ALERT"];
    let mut out = String::new();
    let nm = 1 + s.below(3);
    for (i, m) in MODS.iter().enumerate().take(nm) {
        out.push_str(&format!("defmodule {} {{\n", m));
        if i > 0 && s.bool() {
            out.push_str(&format!("  import: {} (rules * (templates *))\n", MODS[i - 1]));
        }
        out.push_str(if s.bool() { "  export: all\n}\n" } else { "  export: none\n}\n\n" });
    }
    let t = &c.printed.text;
    let mut pos = 0;
    for (a, b) in &c.printed.spans {
        out.push_str(&t[pos..*a]);
        if s.bool() {
            out.push_str(&format!("\n;; MODULE: {}\n", s.pick(&MODS[..nm])));
        }
        out.push_str(&t[*a..*b]);
        pos = *b;
    }
    out.push_str(&t[pos..]);
    out
}

pub fn run_entry(s: &mut Src, ctx: &mut Ctx) -> Verdict {
    let c = build(s, ctx);
    let deco = if s.chance(1, 2) { Some(decorate(s, &c)) } else { None };
    if probe_only() || c.skip {
        return Verdict::Pass;
    }
    ctx.describe(|| match &deco {
        Some(d) => format!("{}\n-- decorated for parse_with_modules:\n{}", describe(&c), d),
        None => describe(&c),
    });
    classify(&c, ctx);
    if deco.is_some() {
        ctx.label("entry:defmodule-decorated");
    }
    let text = &c.printed.text;
    let base = match parse_file(text) {
        Err(p) => return panic_sig("entry", &p, &c.tags),
        Ok(x) => x,
    };
    let with_modules = |t: &str| catch(|| GRLParser::parse_with_modules(t).map(|p| p.rules.iter().map(prule).collect::<Vec<_>>()).map_err(|e| e.to_string()));
    let cmp = |what: &str, got: Result<Vec<PRule>, String>| -> Option<Verdict> {
        match (&base, got) {
            (Err(_), Err(_)) => None,
            (Ok(a), Ok(b)) => {
                if a.len() != b.len() {
                    return Some(Verdict::fail(sig("entry", &format!("{}:rule-count", what), &c.tags), format!("parse_rules yields {} rules, {} yields {}", a.len(), what, b.len())));
                }
                for (i, (x, y)) in a.iter().zip(b.iter()).enumerate() {
                    if let Some((w, d)) = diff_prule(x, y) {
                        return Some(Verdict::fail(sig("entry", &format!("{}:{}", what, w), &c.tags), format!("rule #{}: parse_rules vs {}: {}", i, what, d)));
                    }
                }
                None
            }
            (Ok(_), Err(e)) => Some(Verdict::fail(sig("entry", &format!("{}:rejected", what), &c.tags), format!("parse_rules accepts the text, {} returns Err({})", what, short(&e)))),
            (Err(e), Ok(_)) => Some(Verdict::fail(sig("entry", &format!("{}:accepted", what), &c.tags), format!("parse_rules returns Err({}), {} accepts the text", short(e), what))),
        }
    };
    match with_modules(text) {
        Err(p) => return panic_sig("entry", &p, &c.tags),
        Ok(got) => {
            if let Some(v) = cmp("parse_with_modules", got) {
                return v;
            }
        }
    }
    if let Some(d) = &deco {
        match with_modules(d) {
            Err(p) => return panic_sig("entry", &p, &c.tags),
            Ok(got) => {
                if let Some(v) = cmp("parse_with_modules+defmodule", got) {
                    return v;
                }
            }
        }
    }
    // parse_rule on the text of each single rule
    for (i, (a, b)) in c.printed.spans.iter().enumerate() {
        let seg = &text[*a..*b];
        let one = match catch(|| GRLParser::parse_rule(seg).map(|r| prule(&r)).map_err(|e| e.to_string())) {
            Err(p) => return panic_sig("entry", &p, &c.tags),
            Ok(x) => x,
        };
        let many = match parse_file(seg) {
            Err(p) => return panic_sig("entry", &p, &c.tags),
            Ok(x) => x,
        };
        match (one, many) {
            (Err(_), Err(_)) => {}
            (Ok(x), Ok(v)) => {
                if v.len() != 1 {
                    return Verdict::fail(sig("entry", "parse_rule:rule-count", &c.tags), format!("rule #{}: parse_rule accepts the block, parse_rules yields {} rules for it", i, v.len()));
                }
                if let Some((w, d)) = diff_prule(&x, &v[0]) {
                    return Verdict::fail(sig("entry", &format!("parse_rule:{}", w), &c.tags), format!("rule #{}: parse_rule vs parse_rules: {}", i, d));
                }
            }
            (Ok(_), Err(e)) => return Verdict::fail(sig("entry", "parse_rule:accepted", &c.tags), format!("rule #{}: parse_rules returns Err({}), parse_rule accepts", i, short(&e))),
            (Err(e), Ok(_)) => return Verdict::fail(sig("entry", "parse_rule:rejected", &c.tags), format!("rule #{}: parse_rule returns Err({}), parse_rules accepts", i, short(&e))),
        }
    }
    Verdict::Pass
}

// =====================================================================
// exhaustive parts (canonical layout; the choice tree is the structure itself)
// =====================================================================

fn build_canonical(ctx: &mut Ctx, mut rules: Vec<RuleAst>) -> Case {
    let mut tags = Vec::new();
    {
        let mut ex = Excl { ctx };
        for r in rules.iter_mut() {
            rule_features(r, &mut ex, &mut tags);
        }
    }
    let mut text = String::new();
    let mut spans = Vec::new();
    for (i, r) in rules.iter().enumerate() {
        if i > 0 {
            text.push('\n');
        }
        let t = canonical(r);
        spans.push((text.len(), text.len() + t.len()));
        text.push_str(&t);
    }
    tags.retain(|t| *t != FINDINGS[F_NONASCII].tag);
    tags.sort();
    tags.dedup();
    Case { rules, printed: Printed { text, spans }, tags, labels: vec!["layout:canonical"], skip: dev_only().is_some() }
}

fn fixed_atom(i: usize) -> Atom {
    match i % 5 {
        0 => Atom::Cmp { field: "A.a".into(), op: COp::Eq, rhs: Term::Lit(Lit::Int(1)) },
        1 => Atom::Cmp { field: "B.b".into(), op: COp::Ne, rhs: Term::Lit(Lit::Str(StrLit { text: "s".into(), single: false })) },
        2 => Atom::Cmp { field: "C.c".into(), op: COp::Gt, rhs: Term::Lit(Lit::Float("2.5".into())) },
        3 => Atom::Cmp { field: "D.d".into(), op: COp::Le, rhs: Term::Field("E.e".into()) },
        _ => Atom::Cmp { field: "F.f".into(), op: COp::Contains, rhs: Term::Lit(Lit::Str(StrLit { text: "x".into(), single: true })) },
    }
}

/// every subset of the seven attributes in every order (13 700 headers); `variant` 2 writes
/// `no-loop true` / `lock-on-active true`, a description and a bare name
pub fn run_attrs_exh(s: &mut Src, ctx: &mut Ctx) -> Verdict {
    let variant = ctx.exh;
    let mut remaining: Vec<usize> = (0..7).collect();
    let mut attrs = Vec::new();
    loop {
        let k = s.below(remaining.len() + 1);
        if k == 0 {
            break;
        }
        let a = remaining.remove(k - 1);
        let d = |y: i32| DateLit { text: format!("{}-03-04", y), utc: NaiveDate::from_ymd_opt(y, 3, 4).unwrap().and_hms_opt(0, 0, 0).unwrap().and_utc() };
        attrs.push(match a {
            0 => Attr::Salience(if variant == 2 { 2147483647 } else { 7 }),
            1 => Attr::NoLoop(variant == 2),
            2 => Attr::LockOnActive(variant == 2),
            3 => Attr::AgendaGroup("ag".into()),
            4 => Attr::ActivationGroup("act grp".into()),
            5 => Attr::DateEffective(d(2024)),
            _ => Attr::DateExpires(d(2031)),
        });
    }
    if probe_only() {
        return Verdict::Pass;
    }
    let n = attrs.len();
    let rule = RuleAst {
        name: if variant == 2 { "R_1".into() } else { "Rule one".into() },
        quoted: variant != 2,
        desc: if variant == 2 { Some("a no-loop rule".into()) } else { None },
        attrs,
        cond: Cond::Atom(fixed_atom(0)),
        actions: vec![Action::Set { field: "X.b".into(), rhs: Term::Lit(Lit::Int(2)) }],
    };
    let c = build_canonical(ctx, vec![rule]);
    if c.skip {
        return Verdict::Pass;
    }
    ctx.describe(|| describe(&c));
    ctx.label("exh:attribute-order");
    if n >= 2 {
        ctx.nontrivial(hash_str(&c.printed.text));
    }
    judge_roundtrip(&c, "attrs")
}

fn gen_tree_exh(s: &mut Src, leaves: usize, next: &mut usize) -> Cond {
    if leaves == 1 {
        let a = Cond::Atom(fixed_atom(*next));
        *next += 1;
        return if s.below(2) == 1 { Cond::Not(Box::new(a)) } else { a };
    }
    let or = s.below(2) == 1;
    let left = 1 + s.below(leaves - 1);
    let wrap = s.below(3);
    let l = gen_tree_exh(s, left, next);
    let r = gen_tree_exh(s, leaves - left, next);
    let node = if or { Cond::Or(vec![l, r]) } else { Cond::And(vec![l, r]) };
    match wrap {
        0 => node,
        1 => Cond::Not(Box::new(node)),
        _ => Cond::Paren(Box::new(node)),
    }
}

/// every binary condition tree with `exh` leaves over && / ||, every node plain, negated or (inner nodes) redundantly parenthesised
pub fn run_cond_exh(s: &mut Src, ctx: &mut Ctx) -> Verdict {
    let mut next = 0;
    let cond = gen_tree_exh(s, ctx.exh.max(1) as usize, &mut next);
    if probe_only() {
        return Verdict::Pass;
    }
    let rule = RuleAst { name: "T".into(), quoted: true, desc: None, attrs: vec![], cond, actions: vec![Action::Set { field: "X.b".into(), rhs: Term::Lit(Lit::Int(2)) }] };
    let c = build_canonical(ctx, vec![rule]);
    if c.skip {
        return Verdict::Pass;
    }
    ctx.describe(|| describe(&c));
    ctx.label("exh:condition-tree");
    let mut sn = Seen::default();
    let mut scratch = Ctx::new(false);
    see_cond(&c.rules[0].cond, &mut scratch, &mut sn);
    if sn.and && sn.or && depth(&c.rules[0].cond) >= 2 {
        ctx.label("cond:mixes-and-or");
        ctx.nontrivial(hash_str(&c.printed.text));
    }
    judge_roundtrip(&c, "tree")
}

fn dev_bytes(default: usize) -> usize {
    std::env::var("C04_DEV_BYTES").ok().and_then(|s| s.parse().ok()).unwrap_or(default)
}

pub fn property() -> Property {
    let b = dev_bytes(2500);
    let health = if dev_only().is_some() { 0 } else { 40 };
    Property {
        id: "C04",
        level: "exploration",
        rule: "generated: GRL files of 0-8 rules from the documented grammar (quoted/bare names, optional description, every subset of the 7 attributes in a random permutation, salience over all of i32 with mass on MIN/-1/0/1/MAX, condition trees to depth 5 over && || ! exists() forall() with needed and redundant parentheses, atoms: field op value for all 11 operators, arithmetic left sides, multifield forms, function calls; literals: null/bool/int incl. i64 extremes/float/double- and single-quoted strings incl. GRL metacharacters and non-ASCII/flat arrays; every action form) printed through a token stream whose every gap draws a layout (none, blanks, tabs, LF, CRLF, full-line // comments; trailing // and /* */ comments behind finding switches). Oracles: part roundtrip = parse_rules(text) equals the AST rule by rule in source order (name, salience, flags, groups, dates, condition tree modulo associativity of equal operators, expression text as token sequences, action list); part metamorphic = every rule of parse_rules(file) equals parse_rules(canonical one-line print of that rule alone)[0] (no expected AST involved); part entrypoints = parse_with_modules (also with defmodule blocks and ;; MODULE markers added) and parse_rule on each rule's own text agree with parse_rules; exhaustive parts: every subset of the 7 attributes in every order (13 700 headers x 2 spellings) and every binary condition tree with 2..5 leaves with each node plain/negated/parenthesised, canonical layout, round-trip oracle. Non-trivial: >= 2 rules, or a rule with >= 2 attributes, or a condition of depth >= 2 mixing && and ||, or a string literal with a metacharacter, or a negative number; distinct by file text.",
        assumptions: vec![
            "the grammar is the documented one (docs/core-features/GRL_SYNTAX.md, README, parser doc comments) minus forms shown only aspirationally: object literals, Math.min-style calls in expressions, the `NOT x` keyword form, `test(<expression>)`, `Order.items[0].price` indexing, `first == value`, nested arrays, numbers with exponents; left sides start with a field (never a literal)".into(),
            "representation conventions taken from the parser, not judged: a field reference or arithmetic value is Value::Expression(text); an arithmetic left side is ConditionExpression::Test{name: \"lhs op rhs\"}; custom call parameters are keyed \"0\",\"1\",..; Retract(\"X\") may keep the quotes (GrlReteLoader strips them); an arithmetic method argument may be String(text); Rule.description is never set by the parser and is not compared".into(),
            "no white space is generated between a callee name and its opening parenthesis (never shown in the documentation), keywords are separated by at least one white-space character".into(),
            "the exclusion switch of finding C04-F<n> is active only while KNOWN_FINDINGS.txt lists id=C04-F<n> as known".into(),
            "C04_DEV_NOEXCL / C04_DEV_BYTES are development aids for producing shrunk witnesses and must be unset in real runs".into(),
        ],
        parts: vec![
            Part { name: "roundtrip", run: run_roundtrip, quick: Budget::Random { cases: 20_000, bytes: b }, thorough: Budget::Random { cases: 200_000, bytes: b }, min_nontrivial_pct: health },
            Part { name: "metamorphic", run: run_meta, quick: Budget::Random { cases: 10_000, bytes: b }, thorough: Budget::Random { cases: 100_000, bytes: b }, min_nontrivial_pct: health },
            Part { name: "entrypoints", run: run_entry, quick: Budget::Random { cases: 5_000, bytes: b }, thorough: Budget::Random { cases: 50_000, bytes: b }, min_nontrivial_pct: health },
            Part { name: "attrs-exh", run: run_attrs_exh, quick: Budget::Exhaustive { param: 1 }, thorough: Budget::Exhaustive { param: 1 }, min_nontrivial_pct: 0 },
            Part { name: "attrs-exh2", run: run_attrs_exh, quick: Budget::Skip, thorough: Budget::Exhaustive { param: 2 }, min_nontrivial_pct: 0 },
            Part { name: "tree-exh3", run: run_cond_exh, quick: Budget::Exhaustive { param: 3 }, thorough: Budget::Exhaustive { param: 3 }, min_nontrivial_pct: 0 },
            Part { name: "tree-exh4", run: run_cond_exh, quick: Budget::Exhaustive { param: 4 }, thorough: Budget::Exhaustive { param: 4 }, min_nontrivial_pct: 0 },
            Part { name: "tree-exh5", run: run_cond_exh, quick: Budget::Skip, thorough: Budget::Exhaustive { param: 5 }, min_nontrivial_pct: 0 },
        ],
        watchdog: true,
        replay_reps: 1,
    }
}
