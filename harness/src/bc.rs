//! Shared generator and reference computations for the backward-chaining
//! properties C09 (soundness / bounded completeness), C10 part A (failed proofs
//! leave the facts untouched) and C11 (independence from query history).
//!
//! Knowledge bases are Horn-style: every rule assigns literals; conditions are
//! And/Or trees over `derived == literal` and comparisons on base facts.

use crate::c01::cond_to_engine;
use crate::core::*;
use crate::typed::*;
use rust_rule_engine::backward::backward_engine::{BackwardConfig, BackwardEngine};
use rust_rule_engine::backward::search::SearchStrategy;
use rust_rule_engine::types::ActionType;
use rust_rule_engine::{Facts, KnowledgeBase, Rule};
use std::collections::{BTreeMap, BTreeSet};

pub const ND: usize = 6; // derived fields G.d0..G.d5
pub const NB: usize = 3; // base numeric B.n*, flags B.f*, strings B.s*

pub fn dname(i: usize) -> String {
    format!("G.d{}", i)
}

#[derive(Clone, Debug, PartialEq)]
pub struct BRule {
    pub name: String,
    pub salience: i32,
    pub cond: Cond,
    /// assignments `field = literal`
    pub heads: Vec<(String, V)>,
    /// `Some(k)`: before the k-th assignment (k = number of assignments: after the last one) stands an action that
    /// fails when it runs -- a method call on an object no fact holds (`Missing.poke()`). Only C10 part A sets it.
    pub fails_at: Option<usize>,
    /// the rule is in the knowledge base but switched off (`enabled = false`). Only C10 part A sets it.
    pub disabled: bool,
}

#[derive(Clone, Debug, PartialEq)]
pub struct Kb {
    pub rules: Vec<BRule>,
    /// kind of each derived field: false = bool (true/false), true = string ("yes"/"no")
    pub str_kind: [bool; ND],
    pub monotone: bool,
    /// 0 = the string-kind derived fields hold "yes"/"no"; k > 0 = the ones that are never asked about directly (d4, d5:
    /// only intermediate conclusions and premises) hold the k-th pair of strings that are awkward to carry through a
    /// textual sub-goal: embedded quote, backslash, line break / tab, combining and zero-width characters, empty / blank
    pub str_style: u8,
}

/// (good, bad) values of string-kind intermediate fields per style
pub const STR_STYLES: [(&str, &str); 6] = [("yes", "no"), ("y\"es", "n\"o"), ("y\\es", "n\\o"), ("y\nes", "n\to"), ("ye\u{301}s", "n\u{200b}o"), ("", " ")];

/// Draw the style (call it LAST in a part's generation, after every other draw, so that byte-encoded cases written
/// before styles existed decode as before) and rewrite the knowledge base and the store accordingly.
pub fn apply_str_style(s: &mut Src, kb: &mut Kb, st: &mut Store) {
    if !s.chance(1, 4) {
        return;
    }
    let k = 1 + s.below(STR_STYLES.len() - 1);
    kb.str_style = k as u8;
    let (g, b) = STR_STYLES[k];
    let map = |v: &mut V| {
        if let V::Str(t) = v {
            if t == "yes" {
                *t = g.to_string();
            } else if t == "no" {
                *t = b.to_string();
            }
        }
    };
    fn walk(c: &mut Cond, f: &dyn Fn(&mut V)) {
        match c {
            Cond::Atom(a) => {
                if let (Lhs::Field(p), Term::Lit(v)) = (&a.lhs, &mut a.rhs) {
                    if p == &dname(4) || p == &dname(5) {
                        f(v);
                    }
                }
            }
            Cond::And(a, b) | Cond::Or(a, b) => {
                walk(a, f);
                walk(b, f);
            }
            Cond::Not(x, _) => walk(x, f),
        }
    }
    for r in kb.rules.iter_mut() {
        walk(&mut r.cond, &map);
        for (f, v) in r.heads.iter_mut() {
            if f == &dname(4) || f == &dname(5) {
                map(v);
            }
        }
    }
    for i in [4usize, 5] {
        if let Some(v) = st.top.get_mut(&dname(i)) {
            map(v);
        }
    }
}

#[derive(Clone, Copy, Debug, PartialEq, Eq, Hash)]
pub enum Strat {
    Dfs,
    Bfs,
    Iter,
}

#[derive(Clone, Debug, PartialEq)]
pub struct Cfg {
    pub strat: Strat,
    pub max_depth: usize,
    pub max_solutions: usize,
    pub memo: bool,
}

impl Cfg {
    pub fn to_engine(&self) -> BackwardConfig {
        BackwardConfig {
            max_depth: self.max_depth,
            strategy: match self.strat {
                Strat::Dfs => SearchStrategy::DepthFirst,
                Strat::Bfs => SearchStrategy::BreadthFirst,
                Strat::Iter => SearchStrategy::Iterative,
            },
            enable_memoization: self.memo,
            max_solutions: self.max_solutions,
        }
    }
}

pub fn good(kb: &Kb, i: usize) -> V {
    if kb.str_kind[i] {
        V::Str(if i >= 4 { STR_STYLES[kb.str_style as usize].0 } else { "yes" }.into())
    } else {
        V::Bool(true)
    }
}
pub fn bad(kb: &Kb, i: usize) -> V {
    if kb.str_kind[i] {
        V::Str(if i >= 4 { STR_STYLES[kb.str_style as usize].1 } else { "no" }.into())
    } else {
        V::Bool(false)
    }
}

fn atom(path: String, op: Op, v: V) -> Cond {
    Cond::Atom(Atom { lhs: Lhs::Field(path), op, rhs: Term::Lit(v), tight: false })
}

pub fn gen_base_atom(s: &mut Src) -> Cond {
    match s.below(3) {
        0 => {
            let op = [Op::Gt, Op::Lt, Op::Ge, Op::Le][s.below(4)];
            atom(format!("B.n{}", s.below(NB)), op, V::Int(s.range(0, 6)))
        }
        1 => atom(format!("B.f{}", s.below(NB)), Op::Eq, V::Bool(s.bool())),
        _ => atom(format!("B.s{}", s.below(NB)), Op::Eq, V::Str(["a", "b"][s.below(2)].to_string())),
    }
}

fn gen_body(s: &mut Src, kb: &Kb, nd: usize, monotone: bool, depth: usize) -> Cond {
    let leaf = |s: &mut Src| -> Cond {
        if s.chance(2, 3) {
            let i = s.below(nd);
            // positive test on the canonical value; sometimes (non-monotone) on the other value
            let v = if !monotone && s.chance(1, 8) { bad(kb, i) } else { good(kb, i) };
            atom(dname(i), Op::Eq, v)
        } else {
            gen_base_atom(s)
        }
    };
    if depth >= 2 || s.chance(1, 2) {
        return leaf(s);
    }
    let l = gen_body(s, kb, nd, monotone, depth + 1);
    let r = gen_body(s, kb, nd, monotone, depth + 1);
    if !monotone && s.chance(1, 4) {
        Cond::Or(Box::new(l), Box::new(r))
    } else {
        Cond::And(Box::new(l), Box::new(r))
    }
}

pub fn gen_kb(s: &mut Src, max_rules: usize, force_monotone: Option<bool>) -> Kb {
    let monotone = force_monotone.unwrap_or_else(|| s.chance(1, 3));
    let mut kb = Kb { rules: vec![], str_kind: [false; ND], monotone, str_style: 0 };
    for k in kb.str_kind.iter_mut() {
        *k = s.chance(1, 4);
    }
    let nd = 2 + s.below(ND - 1);
    let n = 1 + s.below(max_rules);
    for i in 0..n {
        let head = s.below(nd);
        let cond = gen_body(s, &kb, nd, monotone, 0);
        let mut heads = vec![(dname(head), if !monotone && s.chance(1, 5) { bad(&kb, head) } else { good(&kb, head) })];
        if !monotone && s.chance(1, 5) {
            // a second assignment (side effect on another derived field, possibly a wrong value)
            let j = s.below(nd);
            heads.push((dname(j), if s.bool() { good(&kb, j) } else { bad(&kb, j) }));
        }
        let salience = [0, 0, 5, 10][s.below(4)];
        kb.rules.push(BRule { name: format!("r{}", i), salience, cond, heads, fails_at: None, disabled: false });
    }
    kb
}

pub fn gen_store(s: &mut Src, kb: &Kb) -> Store {
    let mut st = Store::default();
    for i in 0..NB {
        if !s.chance(1, 6) {
            st.top.insert(format!("B.n{}", i), V::Int(s.range(0, 6)));
        }
        if !s.chance(1, 6) {
            st.top.insert(format!("B.f{}", i), V::Bool(s.bool()));
        }
        if !s.chance(1, 6) {
            st.top.insert(format!("B.s{}", i), V::Str(["a", "b"][s.below(2)].to_string()));
        }
    }
    // occasionally a derived field is already asserted (true or the wrong value)
    for i in 0..ND {
        if s.chance(1, 10) {
            let v = if kb.monotone || s.bool() { good(kb, i) } else { bad(kb, i) };
            st.top.insert(dname(i), v);
        }
    }
    st
}

/// an atomic goal `field op literal`, rendered for QueryParser and as an Atom for REF
#[derive(Clone, Debug, PartialEq)]
pub struct GoalQ {
    pub atom: Atom,
}

impl GoalQ {
    pub fn text(&self) -> String {
        // the goal parser needs spaces around < and >
        self.atom.grl()
    }
}

pub fn gen_goal(s: &mut Src, kb: &Kb) -> GoalQ {
    let c = if s.chance(5, 6) {
        let i = s.below(ND.min(4));
        let v = if !kb.monotone && s.chance(1, 8) { bad(kb, i) } else { good(kb, i) };
        atom(dname(i), Op::Eq, v)
    } else {
        // base goals: ordering (numbers in goals are parsed as floats, so no numeric equality) or flag/string equality
        match s.below(3) {
            0 => atom(format!("B.n{}", s.below(NB)), [Op::Gt, Op::Lt, Op::Ge, Op::Le][s.below(4)], V::Int(s.range(0, 6))),
            1 => atom(format!("B.f{}", s.below(NB)), Op::Eq, V::Bool(s.bool())),
            _ => atom(format!("B.s{}", s.below(NB)), Op::Eq, V::Str(["a", "b"][s.below(2)].to_string())),
        }
    };
    match c {
        Cond::Atom(a) => GoalQ { atom: a },
        _ => unreachable!(),
    }
}

pub fn gen_cfg(s: &mut Src, memo: bool) -> Cfg {
    let strat = [Strat::Dfs, Strat::Dfs, Strat::Bfs, Strat::Iter][s.below(4)];
    let max_depth = s.below(7);
    let max_solutions = if s.chance(1, 3) { 3 } else { 1 };
    Cfg { strat, max_depth, max_solutions, memo }
}

pub fn build_kb(kb: &Kb) -> KnowledgeBase {
    let k = KnowledgeBase::new("bc");
    for r in &kb.rules {
        let mut actions: Vec<ActionType> = r.heads.iter().map(|(f, v)| ActionType::Set { field: f.clone(), value: v.to_engine() }).collect();
        if let Some(k) = r.fails_at {
            actions.insert(k.min(actions.len()), ActionType::MethodCall { object: "Missing".to_string(), method: "poke".to_string(), args: vec![] });
        }
        let mut rule = Rule::new(r.name.clone(), cond_to_engine(&r.cond), actions).with_salience(r.salience);
        rule.enabled = !r.disabled;
        let _ = k.add_rule(rule);
    }
    k
}

pub fn build_engine(kb: &Kb, cfg: &Cfg) -> BackwardEngine {
    BackwardEngine::with_config(build_kb(kb), cfg.to_engine())
}

pub fn to_facts(st: &Store) -> Facts {
    let f = Facts::new();
    for (k, v) in &st.top {
        f.set(k, v.to_engine());
    }
    f
}

pub fn from_facts(f: &Facts) -> Store {
    let mut st = Store::default();
    for (k, v) in f.get_all_facts() {
        st.top.insert(k, V::from_engine(&v));
    }
    st
}

pub fn render(kb: &Kb, st: &Store) -> String {
    let mut s = String::new();
    for r in &kb.rules {
        s.push_str(&format!(
            "  {}{} salience {}: when {} then {}\n",
            r.name,
            if r.disabled { " [disabled]" } else { "" },
            r.salience,
            r.cond.grl(0),
            {
                let mut a: Vec<String> = r.heads.iter().map(|(f, v)| format!("{} = {}", f, v.grl())).collect();
                if let Some(k) = r.fails_at {
                    a.insert(k.min(a.len()), "Missing.poke() [fails: no such object]".to_string());
                }
                a.join("; ")
            }
        ));
    }
    s.push_str(&format!("  facts: {}", st.render()));
    s
}

// ------------------------------------------------------------------ reference computations

/// Possible values of every field under any order of rule applications (over-approximation of the
/// forward closure). `None` in a set stands for "absent".
pub fn possible_values(kb: &Kb, st: &Store) -> BTreeMap<String, Vec<Option<V>>> {
    let mut fields: BTreeSet<String> = st.top.keys().cloned().collect();
    for r in &kb.rules {
        for (f, _) in &r.heads {
            fields.insert(f.clone());
        }
        r.cond.for_each_atom(&mut |a| {
            if let Lhs::Field(p) = &a.lhs {
                fields.insert(p.clone());
            }
        });
    }
    let mut poss: BTreeMap<String, Vec<Option<V>>> = BTreeMap::new();
    for f in &fields {
        poss.insert(f.clone(), vec![st.top.get(f).cloned()]);
    }
    fn sat(c: &Cond, poss: &BTreeMap<String, Vec<Option<V>>>) -> bool {
        match c {
            Cond::Atom(a) => atom_sat(a, poss),
            Cond::And(x, y) => sat(x, poss) && sat(y, poss),
            Cond::Or(x, y) => sat(x, poss) || sat(y, poss),
            Cond::Not(_, _) => true,
        }
    }
    loop {
        let mut changed = false;
        for r in &kb.rules {
            if sat(&r.cond, &poss) {
                for (f, v) in &r.heads {
                    let e = poss.entry(f.clone()).or_default();
                    if !e.contains(&Some(v.clone())) {
                        e.push(Some(v.clone()));
                        changed = true;
                    }
                }
            }
        }
        if !changed {
            break;
        }
    }
    poss
}

/// can the atom be true for some possible value of its field? (undefined comparisons count as "maybe")
pub fn atom_sat(a: &Atom, poss: &BTreeMap<String, Vec<Option<V>>>) -> bool {
    let p = match &a.lhs {
        Lhs::Field(p) => p,
        _ => return true,
    };
    let rhs = match &a.rhs {
        Term::Lit(v) => v.clone(),
        _ => return true,
    };
    let vals = match poss.get(p) {
        Some(v) => v.clone(),
        None => vec![None],
    };
    vals.iter().any(|v| {
        let l = v.clone().unwrap_or(V::Null);
        compare(a.op, &l, &rhs) != T3::False
    })
}

/// Minimal derivation height of `goal` in a monotone KB (facts have height 0, a rule application
/// 1 + the maximum over its premises). None = not derivable.
pub fn derivation_height(kb: &Kb, st: &Store, goal: &Atom) -> Option<usize> {
    // least fixpoint over "atom true at height <= h"
    let holds0 = |a: &Atom, st: &Store| eval_atom(a, st) == T3::True;
    if holds0(goal, st) {
        return Some(0);
    }
    // derived facts by height: simulate forward chaining in rounds (monotone: only adds good values)
    let mut cur = st.clone();
    for h in 1..=(kb.rules.len() + 1) {
        let mut next = cur.clone();
        for r in &kb.rules {
            if eval_cond(&r.cond, &cur) == T3::True {
                for (f, v) in &r.heads {
                    if next.top.get(f).is_none() {
                        next.top.insert(f.clone(), v.clone());
                    }
                }
            }
        }
        if holds0(goal, &next) {
            return Some(h);
        }
        if next == cur {
            return None;
        }
        cur = next;
    }
    None
}

pub fn hash_case(kb: &Kb, st: &Store, extra: &str) -> u64 {
    hash_str(&format!("{}|{}", render(kb, st), extra))
}
