//! C12 — windows hold exactly the events of their time span; aggregates follow.
//!
//! Generator: event sequences (≤ 12 events, timestamps base + 0..40, in order /
//! reversed / shuffled, payload fields numeric / non-numeric / missing) ×
//! duration 1..25 ms × retention cap 1..12 (× injected clock for
//! `StreamAlphaNode`).
//!
//! Oracles (one `run_*` per sub-oracle):
//! * `run_ws`  — `WindowedStream::new` (tumbling): batch predicate.
//! * `run_wm`  — `WindowManager` (tumbling): checked at the moment of processing,
//!   relative to the windows observed before the step.
//! * `run_tw`  — `TimeWindow::add_event` on one aligned window: half-open span test.
//! * `run_record` — `TimeWindow::record` (continuous sliding): step-relative.
//! * `run_san` — `StreamAlphaNode::process_event` under the injected clock.
//! * `run_agg` — count/sum/average/min/max of `TimeWindow`, `Aggregator` and the
//!   `operators` aggregations against a fold done here over `window.events()`.
//!
//! Every "what must be retained" check is a validity predicate: when the cap
//! forces events out, the missing ones must be the oldest — by arrival *or* by
//! timestamp (the statement does not say which).

use crate::core::*;
use crate::runner::*;
use rust_rule_engine::rete::stream_alpha_node::{StreamAlphaNode, WindowSpec};
use rust_rule_engine::streaming::aggregator::{AggregationResult, AggregationType, Aggregator};
use rust_rule_engine::streaming::event::{EventMetadata, StreamEvent};
use rust_rule_engine::streaming::operators::{self as ops, AggregateResult, Aggregation, DataStream, WindowConfig, WindowedStream};
use rust_rule_engine::streaming::window::{TimeWindow, WindowManager, WindowType};
use rust_rule_engine::types::Value;
use rust_rule_engine::verif_hooks;
use std::collections::{BTreeMap, HashMap, HashSet, VecDeque};
use std::time::Duration;

// ---------------------------------------------------------------------------
// Known findings: one exclusion switch each (see MODULE_GUIDE "Known findings").
// When a finding gets a `fix:` commit, set its switch to false (or delete it).
// ---------------------------------------------------------------------------
/// C12-F1: `TimeWindow::record` evicts stale events only from the front of the deque.
const EXCLUDE_F1: bool = false;
/// C12-F2: `StreamAlphaNode` (sliding) evicts only from the front and applies the cap before eviction.
const EXCLUDE_F2: bool = false;
/// C12-F3: `StreamAlphaNode` (tumbling) clears the buffer *after* adding the first event of a new window.
const EXCLUDE_F3: bool = false;

// ---------------------------------------------------------------------------
// Case
// ---------------------------------------------------------------------------

#[derive(Clone, Debug, PartialEq)]
enum Pay {
    /// `Value::Integer(k)`
    Int(i64),
    /// `Value::Number(k / 4)` — dyadic, so sums are exact
    Quarter(i64),
    Str(&'static str),
    Bool(bool),
    Null,
    Missing,
    /// `Value::Number(+inf)` (true) / `Value::Number(-inf)` (false): numbers like any other for min, max, sum and
    /// average (one case holds infinities of one sign only, so no sum is inf - inf)
    Inf(bool),
}

impl Pay {
    fn value(&self) -> Option<Value> {
        match self {
            Pay::Int(k) => Some(Value::Integer(*k)),
            Pay::Quarter(k) => Some(Value::Number(*k as f64 / 4.0)),
            Pay::Str(s) => Some(Value::String((*s).to_string())),
            Pay::Bool(b) => Some(Value::Boolean(*b)),
            Pay::Null => Some(Value::Null),
            Pay::Missing => None,
            Pay::Inf(pos) => Some(Value::Number(if *pos { f64::INFINITY } else { f64::NEG_INFINITY })),
        }
    }
    fn is_numeric(&self) -> bool {
        matches!(self, Pay::Int(_) | Pay::Quarter(_) | Pay::Inf(_))
    }
}

#[derive(Clone, Debug)]
struct Ev {
    /// arrival index (== position in `Case::evs`, == numeric part of the event id)
    i: usize,
    /// event timestamp (ms)
    t: u64,
    /// injected clock at the moment the event is offered (StreamAlphaNode only)
    clock: u64,
    a: Pay,
    b: Pay,
}

#[derive(Clone, Copy, Debug, PartialEq)]
enum Kind {
    Tumbling,
    Record,
    San,
    Agg,
}

#[derive(Clone, Debug)]
struct Case {
    /// window duration in ms
    d: u64,
    /// retention cap
    cap: usize,
    /// StreamAlphaNode: tumbling (true) or sliding (false) window
    tumbling: bool,
    /// index of the event whose aligned window `run_tw` builds
    pivot: usize,
    evs: Vec<Ev>,
    /// events removed by a known-finding exclusion
    excluded: usize,
}

fn zigzag(k: usize) -> i64 {
    if k % 2 == 1 {
        (k as i64 + 1) / 2
    } else {
        -(k as i64) / 2
    }
}

fn gen_pay(s: &mut Src) -> Pay {
    match s.weighted(&[4, 4, 2, 1, 1, 3]) {
        0 => Pay::Int(zigzag(s.below(17))),
        1 => Pay::Quarter(zigzag(s.below(41))),
        2 => Pay::Str(["x", "3.5", ""][s.below(3)]),
        3 => Pay::Bool(s.bool()),
        4 => Pay::Null,
        _ => Pay::Missing,
    }
}

/// exhaustive alphabets: (durations, caps, gaps, gaps for StreamAlphaNode, first timestamp)
struct ExhSet {
    durations: [u64; 3],
    caps: [usize; 2],
    gaps4: [u64; 4],
    gaps3: [u64; 3],
    first: u64,
}
/// `exh` = number of events (set A) or 10 + number of events (set B)
const EXH_A: ExhSet = ExhSet { durations: [1, 3, 10], caps: [12, 2], gaps4: [0, 1, 3, 7], gaps3: [0, 2, 5], first: 5 };
const EXH_B: ExhSet = ExhSet { durations: [2, 5, 25], caps: [3, 1], gaps4: [0, 2, 4, 11], gaps3: [0, 1, 6], first: 1_000 };

fn gen(s: &mut Src, exh: u32, kind: Kind) -> Case {
    if exh > 0 {
        // exhaustive: every arrival order of n events (Lehmer code first, so the
        // enumerator's worker split sees many distinct leading choices) × 3 durations
        // × 2 caps × every gap pattern over a small alphabet.
        let (n, set) = if exh >= 10 { (exh as usize - 10, &EXH_B) } else { (exh as usize, &EXH_A) };
        let lehmer: Vec<usize> = (2..=n).rev().map(|k| s.below(k)).collect();
        let d = set.durations[s.below(3)];
        let cap = set.caps[s.below(2)];
        let tumbling = if kind == Kind::San { s.bool() } else { false };
        let mut sorted = vec![set.first];
        for _ in 1..n {
            let g = if kind == Kind::San { set.gaps3[s.below(3)] } else { set.gaps4[s.below(4)] };
            sorted.push(sorted.last().unwrap() + g);
        }
        let mut pool = sorted;
        let mut ts = Vec::with_capacity(n);
        for l in lehmer {
            ts.push(pool.remove(l));
        }
        ts.extend(pool);
        let mut clock = 0u64;
        let evs = ts
            .into_iter()
            .enumerate()
            .map(|(i, t)| {
                clock = clock.max(t);
                Ev { i, t, clock, a: Pay::Int(i as i64 - 2), b: Pay::Missing }
            })
            .collect();
        return Case { d, cap, tumbling, pivot: 0, evs, excluded: 0 };
    }
    let base: u64 = [0, 1_000, 1_700_000_000_003][s.weighted(&[3, 3, 2])];
    let d = 1 + s.below(25) as u64;
    let cap = if s.chance(1, 2) { 1 + s.below(11) } else { 12 };
    let width = [41usize, 16, 6][s.weighted(&[3, 2, 1])];
    let order = s.weighted(&[1, 1, 3]);
    let tumbling = if kind == Kind::San { s.bool() } else { false };
    let n = s.below(13);
    let pivot = if kind == Kind::Tumbling { s.below(n.max(1)) } else { 0 };
    let mut ts: Vec<u64> = Vec::with_capacity(n);
    let mut pays = Vec::with_capacity(n);
    let mut lags: Vec<i64> = Vec::with_capacity(n);
    for _ in 0..n {
        ts.push(base + s.below(width) as u64);
        let a = gen_pay(s);
        let b = if kind == Kind::Agg { gen_pay(s) } else { Pay::Missing };
        pays.push((a, b));
        lags.push(if kind == Kind::San {
            match s.weighted(&[6, 3, 1]) {
                0 => 0,
                1 => 1 + s.below(4) as i64,
                _ => -1 - s.below(2) as i64,
            }
        } else {
            0
        });
    }
    // Long streams, drawn after the regular events (earlier encodings keep their meaning): one case in eight offers 10..63
    // more events over the same span, so that windows, buffers and anything sorted or chunked by the implementation
    // hold more than a couple of dozen elements.
    if s.chance(1, 8) {
        let extra = 10 + s.below(54);
        for _ in 0..extra {
            ts.push(base + s.below(width) as u64);
            pays.push((gen_pay(s), if kind == Kind::Agg { gen_pay(s) } else { Pay::Missing }));
            lags.push(0);
        }
    }
    match order {
        0 => ts.sort(),
        1 => {
            ts.sort();
            ts.reverse()
        }
        _ => {}
    }
    // Wide scale, drawn after everything else (byte-encoded cases written before this existed decode as before): one
    // case in four multiplies the duration, every offset from the base and every clock lag by K (seconds, minutes,
    // hours, a day, or an odd factor) and then moves each timestamp by -1, 0 or +1 ms, so that events sit ON, just below
    // and just above the window boundaries of durations far from the 1..25 ms the small domain uses.
    let mut d = d;
    if s.chance(1, 4) {
        let k = [1000u64, 1001, 60_000, 3_600_000, 86_400_000, (1 << 20) + 1, 999_983][s.below(7)];
        d *= k;
        for t in ts.iter_mut() {
            let j = s.below(3) as u64;
            *t = (base + (*t - base) * k + j).saturating_sub(1).max(if base == 0 { 0 } else { 1 });
        }
        for l in lags.iter_mut() {
            *l *= k as i64;
        }
    }
    let mut clock = 0u64;
    let evs = ts
        .into_iter()
        .zip(pays)
        .zip(lags)
        .enumerate()
        .map(|(i, ((t, (a, b)), lag))| {
            let want = if lag >= 0 { t + lag as u64 } else { t.saturating_sub((-lag) as u64) };
            clock = clock.max(want);
            Ev { i, t, clock, a, b }
        })
        .collect();
    Case { d, cap, tumbling, pivot, evs, excluded: 0 }
}

/// Known-finding exclusions: remove the events whose processing would trigger a
/// listed defect. Runs after all choices were drawn, so decoding is unaffected.
fn apply_exclusions(case: &mut Case, kind: Kind, ctx: &mut Ctx) {
    if ctx.no_exclusions {
        return;
    }
    let (d, cap) = (case.d, case.cap);
    let mut keep = vec![true; case.evs.len()];
    let mut why: Option<&'static str> = None;
    match kind {
        Kind::Record if EXCLUDE_F1 => {
            // mirror of the deque discipline; an event is dropped from the case when
            // recording it would leave a stale event behind a younger one
            let mut dq: VecDeque<u64> = VecDeque::new();
            for (k, e) in case.evs.iter().enumerate() {
                let cutoff = e.t.saturating_sub(d);
                let mut nd = dq.clone();
                nd.push_back(e.t);
                while nd.front().is_some_and(|&t| t < cutoff) {
                    nd.pop_front();
                }
                if nd.iter().any(|&t| t < cutoff) {
                    keep[k] = false;
                    why = Some("F1-record-unordered-eviction");
                    continue;
                }
                while nd.len() > cap {
                    nd.pop_front();
                }
                dq = nd;
            }
        }
        Kind::San if !case.tumbling && EXCLUDE_F2 => {
            let mut dq: VecDeque<u64> = VecDeque::new();
            for (k, e) in case.evs.iter().enumerate() {
                let cutoff = e.clock.saturating_sub(d);
                if !(e.t >= cutoff && e.t <= e.clock) {
                    continue; // rejected: the buffer is not touched
                }
                // what the front-only discipline yields
                let mut code = dq.clone();
                code.push_back(e.t);
                while code.len() > cap {
                    code.pop_front();
                }
                while code.front().is_some_and(|&t| t < cutoff) {
                    code.pop_front();
                }
                // what the statement asks for (oldest-by-arrival variant)
                let mut ideal: VecDeque<u64> = dq.iter().copied().chain(std::iter::once(e.t)).filter(|&t| t >= cutoff).collect();
                while ideal.len() > cap {
                    ideal.pop_front();
                }
                if code != ideal {
                    keep[k] = false;
                    why = Some("F2-san-sliding-unordered-eviction");
                    continue;
                }
                dq = code;
            }
        }
        Kind::San if case.tumbling && EXCLUDE_F3 => {
            let mut last = 0u64;
            for (k, e) in case.evs.iter().enumerate() {
                let ws = e.clock / d * d;
                if !(e.t >= ws && e.t < ws + d) {
                    continue;
                }
                if last != 0 && ws != last {
                    keep[k] = false;
                    why = Some("F3-san-tumbling-rollover-clear");
                    continue;
                }
                if last == 0 {
                    last = ws;
                }
            }
        }
        _ => {}
    }
    if let Some(w) = why {
        ctx.exclude(w);
        let before = case.evs.len();
        let mut k = 0;
        case.evs.retain(|_| {
            k += 1;
            keep[k - 1]
        });
        for (i, e) in case.evs.iter_mut().enumerate() {
            e.i = i;
        }
        case.excluded = before - case.evs.len();
        case.pivot = 0;
    }
}

/// compact rendering of a case for evidence samples and replay files
fn show(case: &Case, kind: Kind) -> String {
    let evs: Vec<String> = case
        .evs
        .iter()
        .map(|e| {
            let mut x = format!("e{} t={}", e.i, e.t);
            if kind == Kind::San {
                x.push_str(&format!(" @clock={}", e.clock));
            }
            x.push_str(&format!(" a={:?}", e.a));
            if kind == Kind::Agg {
                x.push_str(&format!(" b={:?}", e.b));
            }
            x
        })
        .collect();
    let excl = if case.excluded > 0 { format!(" ({} events removed by known-finding exclusions)", case.excluded) } else { String::new() };
    format!("duration={}ms cap={} arrival order: [{}]{}", case.d, case.cap, evs.join("; "), excl)
}

fn mk_event(e: &Ev) -> StreamEvent {
    let mut data = HashMap::new();
    if let Some(v) = e.a.value() {
        data.insert("a".to_string(), v);
    }
    if let Some(v) = e.b.value() {
        data.insert("b".to_string(), v);
    }
    StreamEvent {
        id: format!("e{}", e.i),
        event_type: "T".into(),
        data,
        metadata: EventMetadata { timestamp: e.t, source: "s".into(), sequence: e.i as u64, tags: HashMap::new() },
    }
}

/// arrival indices of the events of a buffer; Err if an event is not one of ours
fn ids<'a>(it: impl Iterator<Item = &'a StreamEvent>, case: &Case) -> Result<Vec<usize>, String> {
    let mut out = Vec::new();
    for e in it {
        match e.id.strip_prefix('e').and_then(|x| x.parse::<usize>().ok()) {
            Some(i) if i < case.evs.len() && case.evs[i].t == e.metadata.timestamp => out.push(i),
            _ => return Err(format!("event id={:?} t={} is not one of the offered events", e.id, e.metadata.timestamp)),
        }
    }
    Ok(out)
}

/// The retention predicate shared by every sub-oracle.
///
/// `cand` — arrival indices of the events that belong in the window (the
/// in-span part of what was there before plus the new arrival); `got` — what
/// the window holds. With `|cand| ≤ cap` the two must be equal as sets; with
/// more, exactly `cap` of them are held and the missing ones are the oldest,
/// by arrival or by timestamp. Returns whether the cap was exceeded.
fn retained_ok(cand: &[usize], got: &[usize], cap: usize, case: &Case) -> Result<bool, (&'static str, String)> {
    let cs: HashSet<usize> = cand.iter().copied().collect();
    let gs: HashSet<usize> = got.iter().copied().collect();
    if gs.len() != got.len() {
        return Err(("duplicate", format!("an event is held twice: {:?}", got)));
    }
    if let Some(x) = got.iter().find(|x| !cs.contains(x)) {
        return Err(("unexpected", format!("e{} (t={}) is held but does not belong: held {:?}, belonging {:?}", x, case.evs[*x].t, got, cand)));
    }
    if cs.len() <= cap {
        if let Some(x) = cand.iter().find(|x| !gs.contains(x)) {
            return Err(("dropped", format!("e{} (t={}) belongs (cap {} not exceeded) but is not held: held {:?}, belonging {:?}", x, case.evs[*x].t, cap, got, cand)));
        }
        return Ok(false);
    }
    if gs.len() != cap {
        return Err(("cap-count", format!("{} events belong, cap {}, but {} are held: {:?}", cs.len(), cap, gs.len(), got)));
    }
    let missing: Vec<usize> = cand.iter().copied().filter(|x| !gs.contains(x)).collect();
    let by_arrival = missing.iter().max().unwrap() < got.iter().min().unwrap();
    let by_ts = missing.iter().map(|&x| case.evs[x].t).max().unwrap() <= got.iter().map(|&x| case.evs[x].t).min().unwrap();
    if by_arrival || by_ts {
        Ok(true)
    } else {
        Err(("cap-not-oldest", format!("cap {} exceeded but the dropped events {:?} are oldest neither by arrival nor by timestamp; held {:?}", cap, missing, got)))
    }
}

fn order_label(case: &Case) -> &'static str {
    let ts: Vec<u64> = case.evs.iter().map(|e| e.t).collect();
    if ts.len() < 2 {
        "order:short"
    } else if ts.windows(2).all(|w| w[0] <= w[1]) {
        "order:in-order"
    } else if ts.windows(2).all(|w| w[0] >= w[1]) {
        "order:reversed"
    } else {
        "order:shuffled"
    }
}

fn case_hash(tag: &str, case: &Case) -> u64 {
    let key: Vec<(u64, u64)> = case.evs.iter().map(|e| (e.t, e.clock)).collect();
    hash_of(&(tag, case.d, case.cap, case.tumbling, case.pivot, key))
}

// ---------------------------------------------------------------------------
// (a) tumbling
// ---------------------------------------------------------------------------

/// labels + non-trivial rule for the tumbling parts
fn classify_tumbling(case: &Case, ctx: &mut Ctx, tag: &str) {
    let w = case.d;
    let evs = &case.evs;
    ctx.label(order_label(case));
    if case.evs.len() > 20 {
        ctx.label("long-stream(>20-events)");
    }
    if case.d > 25 {
        ctx.label("wide-scale-duration(>25ms)");
    }
    let mut ooo = false;
    for j in 0..evs.len() {
        for i in 0..j {
            if evs[j].t < evs[i].t && evs[i].t / w == evs[j].t / w {
                ooo = true;
            }
        }
    }
    let bstart = evs.iter().any(|e| e.t % w == 0);
    let bend = evs.iter().any(|e| e.t % w == 0 && evs.iter().any(|o| o.t / w + 1 == e.t / w));
    let blast = evs.iter().any(|e| (e.t + 1) % w == 0);
    let mut groups: BTreeMap<u64, usize> = BTreeMap::new();
    for e in evs {
        *groups.entry(e.t / w).or_default() += 1;
    }
    let capx = groups.values().any(|&c| c > case.cap);
    if ooo {
        ctx.label("out-of-order-in-span");
    }
    if bstart {
        ctx.label("boundary:t=start");
    }
    if bend {
        ctx.label("boundary:t=end-of-populated-window");
    }
    if blast {
        ctx.label("boundary:t=end-1");
    }
    if capx {
        ctx.label("cap-exceeded");
    }
    if groups.len() > 1 {
        ctx.label("several-windows");
    }
    if ooo || bstart || bend || capx {
        ctx.nontrivial(case_hash(tag, case));
    }
}

type Snap = Vec<(u64, u64, Vec<usize>)>;

/// structural checks on a set of tumbling windows; returns (start, end, ids) sorted by start
fn snapshot_tumbling(wins: &[TimeWindow], case: &Case, p: &str) -> Result<Snap, Verdict> {
    let w = case.d;
    let mut out: Snap = Vec::new();
    let mut seen: HashSet<usize> = HashSet::new();
    for win in wins {
        let (st, en) = (win.start_time, win.end_time);
        if st % w != 0 {
            return Err(Verdict::fail(format!("{}-window-misaligned", p), format!("window [{}, {}) does not start at a multiple of {}", st, en, w)));
        }
        if en != st + w {
            return Err(Verdict::fail(format!("{}-window-span", p), format!("window [{}, {}) is not {} ms long", st, en, w)));
        }
        let got = ids(win.events().iter(), case).map_err(|m| Verdict::fail(format!("{}-foreign-event", p), m))?;
        for &x in &got {
            let t = case.evs[x].t;
            if !(st <= t && t < en) {
                return Err(Verdict::fail(format!("{}-event-outside-span", p), format!("e{} (t={}) sits in window [{}, {})", x, t, st, en)));
            }
            if !seen.insert(x) {
                return Err(Verdict::fail(format!("{}-event-duplicated", p), format!("e{} (t={}) is held more than once", x, t)));
            }
        }
        out.push((st, en, got));
    }
    out.sort();
    if out.windows(2).any(|x| x[0].0 == x[1].0) {
        return Err(Verdict::fail(format!("{}-window-duplicated", p), format!("two windows share a start: {:?}", out)));
    }
    Ok(out)
}

fn check_windowed_stream(wins: &[TimeWindow], case: &Case, p: &str) -> Result<(), Verdict> {
    let w = case.d;
    let snap = snapshot_tumbling(wins, case, p)?;
    let mut groups: BTreeMap<u64, Vec<usize>> = BTreeMap::new();
    for e in &case.evs {
        groups.entry(e.t / w).or_default().push(e.i);
    }
    for (k, cand) in &groups {
        let st = k * w;
        let got = match snap.iter().find(|x| x.0 == st) {
            Some(x) => &x.2,
            None => {
                return Err(Verdict::fail(format!("{}-window-missing", p), format!("events {:?} have timestamps in [{}, {}) but there is no such window: {:?}", cand, st, st + w, snap)));
            }
        };
        if let Err((kind, msg)) = retained_ok(cand, got, case.cap, case) {
            return Err(Verdict::fail(format!("{}-{}", p, kind), format!("window [{}, {}): {}", st, st + w, msg)));
        }
    }
    Ok(())
}

/// A tumbling duration with a sub-millisecond rest (`D ms + r us`, D >= 1, 0 < r < 1000), for one case in three (a
/// pure function of the case, so saved cases keep decoding). Timestamps are whole milliseconds and the statement does
/// not say how such a duration is laid on them, so only what every reading shares is judged: the windows are
/// pairwise disjoint intervals, every held event lies inside the span of the window that holds it, no event is held
/// twice, and (where nothing expires) every offered event is held by some window unless its window's cap pushed it
/// out. Returns the rest, or 0.
fn sub_ms_rest(case: &Case) -> u64 {
    let h = case.evs.iter().fold(case.d.wrapping_mul(7).wrapping_add(case.cap as u64), |a, e| a.wrapping_mul(31).wrapping_add(e.t));
    if h % 3 != 0 || case.d == 0 {
        return 0;
    }
    1 + (h / 3) % 999
}

fn check_sub_ms_windows(wins: &[TimeWindow], case: &Case, rest: u64, p: &str, all_must_be_held: bool) -> Result<(), Verdict> {
    let mut spans: Vec<(u64, u64)> = Vec::new();
    let mut held: HashSet<usize> = HashSet::new();
    for win in wins {
        let (st, en) = (win.start_time, win.end_time);
        if en <= st {
            return Err(Verdict::fail(format!("{}-sub-ms:empty-span", p), format!("duration {} ms + {} us: window [{}, {}) is empty", case.d, rest, st, en)));
        }
        let got = match ids(win.events().iter(), case) {
            Ok(g) => g,
            Err(m) => return Err(Verdict::fail(format!("{}-sub-ms:foreign-event", p), m)),
        };
        for &i in &got {
            let t = case.evs[i].t;
            if t < st || t >= en {
                return Err(Verdict::fail(format!("{}-sub-ms:event-outside-its-window", p), format!("duration {} ms + {} us: e{} (t={}) is held by window [{}, {})", case.d, rest, i, t, st, en)));
            }
            if !held.insert(i) {
                return Err(Verdict::fail(format!("{}-sub-ms:event-held-twice", p), format!("duration {} ms + {} us: e{} (t={}) is held by two windows", case.d, rest, i, t)));
            }
        }
        spans.push((st, en));
    }
    spans.sort();
    for w in spans.windows(2) {
        if w[1].0 < w[0].1 {
            return Err(Verdict::fail(format!("{}-sub-ms:windows-overlap", p), format!("duration {} ms + {} us: windows [{}, {}) and [{}, {}) overlap -- a timestamp has two windows", case.d, rest, w[0].0, w[0].1, w[1].0, w[1].1)));
        }
    }
    if all_must_be_held && case.cap >= case.evs.len() {
        if let Some(e) = case.evs.iter().find(|e| !held.contains(&e.i)) {
            return Err(Verdict::fail(format!("{}-sub-ms:event-lost", p), format!("duration {} ms + {} us: e{} (t={}) is in no window although no cap was reached", case.d, rest, e.i, e.t)));
        }
    }
    Ok(())
}

pub fn run_ws(s: &mut Src, ctx: &mut Ctx) -> Verdict {
    let mut case = gen(s, ctx.exh, Kind::Tumbling);
    if probe_only() {
        return Verdict::Pass;
    }
    apply_exclusions(&mut case, Kind::Tumbling, ctx);
    ctx.describe(|| format!("WindowedStream::new tumbling, {}", show(&case, Kind::Tumbling)));
    let events: Vec<StreamEvent> = case.evs.iter().map(mk_event).collect();
    let cfg = WindowConfig::tumbling(Duration::from_millis(case.d)).with_max_events(case.cap);
    let stream = WindowedStream::new(events.clone(), cfg.clone());
    if let Err(v) = check_windowed_stream(stream.windows(), &case, "ws") {
        return v;
    }
    let mut exp: Vec<usize> = stream.windows().iter().map(|w| w.events().len()).collect();
    exp.sort();
    let mut counts = stream.counts();
    counts.sort();
    if counts != exp {
        return Verdict::fail("ws-counts", format!("counts() = {:?} but the windows hold {:?} events", counts, exp));
    }
    // same thing through the fluent API
    let stream2 = DataStream::from_events(events.clone()).window(cfg);
    if let Err(v) = check_windowed_stream(stream2.windows(), &case, "ws") {
        return v;
    }
    let rest = sub_ms_rest(&case);
    if rest > 0 {
        let cfg = WindowConfig::tumbling(Duration::from_millis(case.d) + Duration::from_micros(rest)).with_max_events(case.cap);
        let stream3 = WindowedStream::new(events, cfg);
        if let Err(v) = check_sub_ms_windows(stream3.windows(), &case, rest, "ws", true) {
            return v;
        }
        ctx.label("sub-millisecond-rest-on-duration");
    }
    classify_tumbling(&case, ctx, "ws");
    Verdict::Pass
}

pub fn run_wm(s: &mut Src, ctx: &mut Ctx) -> Verdict {
    let mut case = gen(s, ctx.exh, Kind::Tumbling);
    if probe_only() {
        return Verdict::Pass;
    }
    apply_exclusions(&mut case, Kind::Tumbling, ctx);
    ctx.describe(|| format!("WindowManager tumbling, {}", show(&case, Kind::Tumbling)));
    let w = case.d;
    let mut wm = WindowManager::new(WindowType::Tumbling, Duration::from_millis(w), case.cap, 1000);
    let mut prev: Snap = Vec::new();
    let mut recreated = false;
    let mut ever: HashSet<u64> = HashSet::new();
    for e in &case.evs {
        wm.process_event(mk_event(e));
        let cur = match snapshot_tumbling(wm.active_windows(), &case, "wm") {
            Ok(c) => c,
            Err(v) => return v,
        };
        // the window whose span contains the timestamp (the snapshot established that spans are
        // aligned and distinct, that every held event lies inside its window's span and is held once)
        let home = match cur.iter().find(|x| x.0 <= e.t && e.t < x.1) {
            Some(h) => h,
            None => {
                return Verdict::fail("wm-event-not-placed", format!("step {}: right after process_event(e{}, t={}) there is no active window whose span contains {}: {:?}", e.i, e.i, e.t, e.t, cur));
            }
        };
        let mut cand: Vec<usize> = prev.iter().find(|x| x.0 == home.0).map(|x| x.2.clone()).unwrap_or_default();
        if cand.is_empty() && !ever.insert(home.0) {
            recreated = true;
        }
        ever.insert(home.0);
        cand.push(e.i);
        if let Err((kind, msg)) = retained_ok(&cand, &home.2, case.cap, &case) {
            return Verdict::fail(format!("wm-{}", kind), format!("step {} (t={}): window [{}, {}): {}", e.i, e.t, home.0, home.1, msg));
        }
        // the other windows: untouched, or expired as a whole (end <= t)
        for c in cur.iter().filter(|x| x.0 != home.0) {
            match prev.iter().find(|x| x.0 == c.0) {
                None => {
                    return Verdict::fail("wm-spurious-window", format!("step {} (t={}): window [{}, {}) appeared although the event does not belong to it", e.i, e.t, c.0, c.1));
                }
                Some(p) => {
                    let (mut a, mut b) = (p.2.clone(), c.2.clone());
                    a.sort();
                    b.sort();
                    if a != b {
                        return Verdict::fail("wm-other-window-changed", format!("step {} (t={}): window [{}, {}) changed from {:?} to {:?}", e.i, e.t, c.0, c.1, p.2, c.2));
                    }
                }
            }
        }
        for p in prev.iter().filter(|x| x.0 != home.0 && x.1 > e.t) {
            if !cur.iter().any(|c| c.0 == p.0) {
                return Verdict::fail("wm-live-window-lost", format!("step {} (t={}): window [{}, {}) holding {:?} has not ended yet but is gone", e.i, e.t, p.0, p.1, p.2));
            }
        }
        prev = cur;
    }
    let rest = sub_ms_rest(&case);
    if rest > 0 {
        let mut wm = WindowManager::new(WindowType::Tumbling, Duration::from_millis(w) + Duration::from_micros(rest), case.cap, 1000);
        for e in &case.evs {
            wm.process_event(mk_event(e));
            if let Err(v) = check_sub_ms_windows(wm.active_windows(), &case, rest, "wm", false) {
                return v;
            }
            if !wm.active_windows().iter().any(|x| x.start_time <= e.t && e.t < x.end_time && x.events().iter().any(|h| h.id == format!("e{}", e.i))) {
                return Verdict::fail("wm-sub-ms:event-not-placed", format!("duration {} ms + {} us: right after process_event(e{}, t={}) no active window whose span contains {} holds it", w, rest, e.i, e.t, e.t));
            }
        }
        ctx.label("sub-millisecond-rest-on-duration");
    }
    if recreated {
        ctx.label("late-event-recreates-expired-window");
    }
    classify_tumbling(&case, ctx, "wm");
    Verdict::Pass
}

pub fn run_tw(s: &mut Src, ctx: &mut Ctx) -> Verdict {
    let mut case = gen(s, ctx.exh, Kind::Tumbling);
    if probe_only() {
        return Verdict::Pass;
    }
    apply_exclusions(&mut case, Kind::Tumbling, ctx);
    ctx.describe(|| format!("TimeWindow::add_event on the aligned window of e{}, {}", case.pivot, show(&case, Kind::Tumbling)));
    if case.evs.is_empty() {
        ctx.label("order:short");
        return Verdict::Pass;
    }
    let w = case.d;
    let pt = case.evs[case.pivot].t;
    // the aligned interval that contains the pivot: the multiple of w in (pt - w, pt]
    let st = pt - pt % w;
    let en = st + w;
    let mut win = TimeWindow::new(WindowType::Tumbling, Duration::from_millis(w), st, case.cap);
    if (win.start_time, win.end_time) != (st, en) {
        return Verdict::fail("tw-span", format!("TimeWindow::new(start={}, {} ms) spans [{}, {})", st, w, win.start_time, win.end_time));
    }
    let mut prev: Vec<usize> = Vec::new();
    let (mut on_start, mut on_end, mut capx) = (false, false, false);
    for e in &case.evs {
        let inside = st <= e.t && e.t < en;
        on_start |= e.t == st;
        on_end |= e.t == en;
        if win.contains_timestamp(e.t) != inside {
            return Verdict::fail("tw-contains-timestamp", format!("contains_timestamp({}) = {} for window [{}, {})", e.t, !inside, st, en));
        }
        let ret = win.add_event(mk_event(e));
        if ret != inside {
            return Verdict::fail("tw-add-accept", format!("step {}: add_event(t={}) returned {} for window [{}, {})", e.i, e.t, ret, st, en));
        }
        let cur = match ids(win.events().iter(), &case) {
            Ok(c) => c,
            Err(m) => return Verdict::fail("tw-foreign-event", m),
        };
        let mut cand = prev.clone();
        if inside {
            cand.push(e.i);
        }
        match retained_ok(&cand, &cur, case.cap, &case) {
            Ok(x) => capx |= x,
            Err((kind, msg)) => return Verdict::fail(format!("tw-{}", kind), format!("step {} (t={}): window [{}, {}): {}", e.i, e.t, st, en, msg)),
        }
        if win.count() != cur.len() {
            return Verdict::fail("tw-count", format!("count() = {} but events() holds {}", win.count(), cur.len()));
        }
        prev = cur;
    }
    ctx.label(order_label(&case));
    if case.evs.len() > 20 {
        ctx.label("long-stream(>20-events)");
    }
    if case.d > 25 {
        ctx.label("wide-scale-duration(>25ms)");
    }
    let mut ooo = false;
    for j in 0..case.evs.len() {
        for i in 0..j {
            let (a, b) = (case.evs[i].t, case.evs[j].t);
            if b < a && st <= b && a < en {
                ooo = true;
            }
        }
    }
    if ooo {
        ctx.label("out-of-order-in-span");
    }
    if on_start {
        ctx.label("boundary:t=start");
    }
    if on_end {
        ctx.label("boundary:t=end");
    }
    if capx {
        ctx.label("cap-exceeded");
    }
    if ooo || on_start || on_end || capx {
        ctx.nontrivial(case_hash("tw", &case));
    }
    Verdict::Pass
}

// ---------------------------------------------------------------------------
// (b) continuous sliding: TimeWindow::record
// ---------------------------------------------------------------------------

/// Is there, in deque order, a stale event (t < cutoff) behind a fresh one?
fn stale_behind_fresh(seq: &[usize], cutoff: u64, case: &Case) -> bool {
    let mut fresh_seen = false;
    for &x in seq {
        if case.evs[x].t >= cutoff {
            fresh_seen = true;
        } else if fresh_seen {
            return true;
        }
    }
    false
}

pub fn run_record(s: &mut Src, ctx: &mut Ctx) -> Verdict {
    let mut case = gen(s, ctx.exh, Kind::Record);
    if probe_only() {
        return Verdict::Pass;
    }
    apply_exclusions(&mut case, Kind::Record, ctx);
    // one case in three: the duration carries a sub-millisecond rest r. Timestamps are whole milliseconds, so "older
    // than D + r" (0 < r < 1 ms) is "older than D" under every reading: the rest must change nothing
    let rest = sub_ms_rest(&case);
    ctx.describe(|| format!("TimeWindow::record sliding, {}{}", show(&case, Kind::Record), if rest > 0 { format!(" (duration + {} us)", rest) } else { String::new() }));
    if rest > 0 {
        ctx.label("sub-millisecond-rest-on-duration");
    }
    let d = case.d;
    let mut win = TimeWindow::new(WindowType::Sliding, Duration::from_millis(d) + Duration::from_micros(rest), 0, case.cap);
    let mut prev: Vec<usize> = Vec::new();
    let (mut ooo, mut bkept, mut bevicted, mut capx, mut late, mut evicted) = (false, false, false, false, false, false);
    let mut max_t = 0u64;
    for e in &case.evs {
        let cutoff = e.t.saturating_sub(d);
        win.record(mk_event(e));
        let cur = match ids(win.events().iter(), &case) {
            Ok(c) => c,
            Err(m) => return Verdict::fail("record-foreign-event", m),
        };
        let mut seq = prev.clone();
        seq.push(e.i);
        // signature prefix: the failure happened in a buffer whose stale events do not form a prefix
        let p = if stale_behind_fresh(&seq, cutoff, &case) { "record-unordered" } else { "record" };
        if let Some(x) = cur.iter().find(|&&x| case.evs[x].t < cutoff) {
            return Verdict::fail(
                format!("{}-stale-retained", p),
                format!("step {}: after record(t={}) with duration {} the window still holds e{} (t={} < {}); held {:?}", e.i, e.t, d, x, case.evs[*x].t, cutoff, cur),
            );
        }
        let cand: Vec<usize> = seq.iter().copied().filter(|&x| case.evs[x].t >= cutoff).collect();
        match retained_ok(&cand, &cur, case.cap, &case) {
            Ok(x) => capx |= x,
            Err((kind, msg)) => return Verdict::fail(format!("{}-{}", p, kind), format!("step {}: after record(t={}) with duration {}: {}", e.i, e.t, d, msg)),
        }
        if win.count() != cur.len() {
            return Verdict::fail("record-count", format!("count() = {} but events() holds {}", win.count(), cur.len()));
        }
        // classification
        for &x in &prev {
            let t = case.evs[x].t;
            if t > e.t && t - e.t <= d {
                ooo = true;
            }
            if t == cutoff {
                bkept = true;
            }
            if t + 1 == cutoff {
                bevicted = true;
            }
            if t < cutoff {
                evicted = true;
            }
        }
        if e.t < max_t {
            late = true;
        }
        max_t = max_t.max(e.t);
        prev = cur;
    }
    ctx.label(order_label(&case));
    if case.evs.len() > 20 {
        ctx.label("long-stream(>20-events)");
    }
    if case.d > 25 {
        ctx.label("wide-scale-duration(>25ms)");
    }
    if ooo {
        ctx.label("out-of-order-in-span");
    }
    if late {
        ctx.label("late-event");
    }
    if bkept {
        ctx.label("boundary:t=cutoff-kept");
    }
    if bevicted {
        ctx.label("boundary:t=cutoff-1-evicted");
    }
    if evicted {
        ctx.label("eviction");
    }
    if capx {
        ctx.label("cap-exceeded");
    }
    if ooo || bkept || bevicted || capx {
        ctx.nontrivial(case_hash("record", &case));
    }
    Verdict::Pass
}

// ---------------------------------------------------------------------------
// (c) StreamAlphaNode under the injected clock
// ---------------------------------------------------------------------------

struct ClockGuard;
impl Drop for ClockGuard {
    fn drop(&mut self) {
        verif_hooks::set_clock_ms(None);
    }
}

pub fn run_san(s: &mut Src, ctx: &mut Ctx) -> Verdict {
    let mut case = gen(s, ctx.exh, Kind::San);
    if probe_only() {
        return Verdict::Pass;
    }
    apply_exclusions(&mut case, Kind::San, ctx);
    ctx.describe(|| format!("StreamAlphaNode {}, {}", if case.tumbling { "tumbling" } else { "sliding" }, show(&case, Kind::San)));
    let d = case.d;
    let spec = WindowSpec {
        duration: Duration::from_millis(d),
        window_type: if case.tumbling { WindowType::Tumbling } else { WindowType::Sliding },
    };
    let mut node = StreamAlphaNode::new("s", None, Some(spec)).with_max_events(case.cap);
    let _guard = ClockGuard;
    let mut prev: Vec<usize> = Vec::new();
    let mut last_acc_ws: Option<u64> = None;
    let (mut ooo, mut boundary, mut capx, mut rollover_seen, mut evicted) = (false, false, false, false, false);
    let (mut n_acc, mut n_old, mut n_future) = (0, 0, 0);
    for e in &case.evs {
        let now = e.clock;
        verif_hooks::set_clock_ms(Some(now));
        let ret = node.process_event(&mk_event(e));
        let cur = match ids(node.get_events().iter(), &case) {
            Ok(c) => c,
            Err(m) => return Verdict::fail("san-foreign-event", m),
        };
        if node.event_count() != cur.len() {
            return Verdict::fail("san-count", format!("event_count() = {} but get_events() holds {}", node.event_count(), cur.len()));
        }
        let tname = if case.tumbling { "tumbling" } else { "sliding" };
        // `fresh(t)`: t is inside the window the clock defines (lower bound only for
        // sliding: with a non-decreasing clock nothing accepted earlier can be ahead of it)
        let (lo, hi, must_accept, must_reject);
        if case.tumbling {
            lo = now - now % d;
            hi = lo + d; // exclusive
            must_accept = lo <= e.t && e.t < hi;
            must_reject = !must_accept;
            if e.t == lo || e.t == hi || e.t + 1 == hi || e.t + 1 == lo {
                boundary = true;
            }
        } else {
            lo = now.saturating_sub(d);
            hi = u64::MAX;
            must_accept = lo <= e.t && e.t <= now;
            // an event older than the window must not be buffered; one ahead of the
            // clock is not covered by the statement (the model follows the node)
            must_reject = false;
            if e.t == lo || e.t + 1 == lo {
                boundary = true;
            }
        }
        let fresh = |x: usize| lo <= case.evs[x].t && case.evs[x].t < hi;
        if must_accept && !ret {
            return Verdict::fail(format!("san-{}-fresh-rejected", tname), format!("step {}: clock {} duration {}: event t={} lies in the current window but process_event returned false", e.i, now, d, e.t));
        }
        if must_reject && ret {
            return Verdict::fail(format!("san-{}-outsider-accepted", tname), format!("step {}: clock {} duration {}: event t={} lies outside [{}, {}) but process_event returned true", e.i, now, d, e.t, lo, hi));
        }
        if e.t < lo {
            n_old += 1;
        } else if !must_accept {
            n_future += 1;
        }
        if ret {
            n_acc += 1;
            let mut seq = prev.clone();
            seq.push(e.i);
            let rollover = case.tumbling && last_acc_ws.is_some_and(|l| l != lo);
            rollover_seen |= rollover;
            let p = if case.tumbling {
                if rollover {
                    "san-tumbling-rollover"
                } else {
                    "san-tumbling"
                }
            } else if stale_behind_fresh(&seq, lo, &case) {
                "san-sliding-unordered"
            } else {
                "san-sliding"
            };
            if let Some(&x) = cur.iter().find(|&&x| !fresh(x)) {
                let what = if x == e.i { "stale-accepted" } else { "stale-retained" };
                return Verdict::fail(
                    format!("{}-{}", p, what),
                    format!("step {}: clock {} duration {}: after process_event(t={}) the buffer holds e{} (t={}) outside the window starting at {}; held {:?}", e.i, now, d, e.t, x, case.evs[x].t, lo, cur),
                );
            }
            let cand: Vec<usize> = seq.iter().copied().filter(|&x| fresh(x)).collect();
            match retained_ok(&cand, &cur, case.cap, &case) {
                Ok(x) => capx |= x,
                Err((kind, msg)) => {
                    return Verdict::fail(format!("{}-{}", p, kind), format!("step {}: clock {} duration {}: after process_event(t={}) window starting at {}: {}", e.i, now, d, e.t, lo, msg));
                }
            }
            for &x in &prev {
                if fresh(x) && case.evs[x].t > e.t {
                    ooo = true;
                }
                if !case.tumbling && (case.evs[x].t == lo || case.evs[x].t + 1 == lo) {
                    boundary = true;
                }
                if !fresh(x) {
                    evicted = true;
                }
            }
            if case.tumbling {
                last_acc_ws = Some(lo);
            }
        } else {
            // rejected: nothing may be added, nothing that is still in the window may vanish
            if let Some(&x) = cur.iter().find(|x| !prev.contains(x)) {
                return Verdict::fail(format!("san-{}-rejected-but-buffered", tname), format!("step {}: process_event(t={}) returned false at clock {} but e{} entered the buffer", e.i, e.t, now, x));
            }
            if let Some(&x) = prev.iter().find(|&&x| fresh(x) && !cur.contains(&x)) {
                return Verdict::fail(format!("san-{}-dropped-on-reject", tname), format!("step {}: rejecting t={} at clock {} removed e{} (t={}) which is still in the window", e.i, e.t, now, x, case.evs[x].t));
            }
        }
        prev = cur;
    }
    ctx.label(if case.tumbling { "tumbling" } else { "sliding" });
    ctx.label(order_label(&case));
    if case.evs.len() > 20 {
        ctx.label("long-stream(>20-events)");
    }
    if case.d > 25 {
        ctx.label("wide-scale-duration(>25ms)");
    }
    if n_acc > 0 {
        ctx.label("some-accepted");
    }
    if n_old > 0 {
        ctx.label("older-than-window-offered");
    }
    if n_future > 0 {
        ctx.label("ahead-of-clock-offered");
    }
    if ooo {
        ctx.label("out-of-order-in-span");
    }
    if boundary {
        ctx.label("boundary");
    }
    if evicted {
        ctx.label("eviction");
    }
    if rollover_seen {
        ctx.label("tumbling-rollover");
    }
    if capx {
        ctx.label("cap-exceeded");
    }
    if n_acc > 0 && (ooo || boundary || capx || rollover_seen) {
        ctx.nontrivial(case_hash("san", &case));
    }
    Verdict::Pass
}

// ---------------------------------------------------------------------------
// (d) aggregates
// ---------------------------------------------------------------------------

#[derive(Debug, Clone)]
struct Fold {
    count: usize,
    numeric: usize,
    sum: f64,
    min: Option<f64>,
    max: Option<f64>,
}

impl Fold {
    fn avg(&self) -> Option<f64> {
        if self.numeric == 0 {
            None
        } else {
            Some(self.sum / self.numeric as f64)
        }
    }
}

/// the harness' own fold over the events a window reports
fn fold<'a>(evs: impl Iterator<Item = &'a StreamEvent>, field: &str) -> Fold {
    let mut f = Fold { count: 0, numeric: 0, sum: 0.0, min: None, max: None };
    for e in evs {
        f.count += 1;
        let x = match e.data.get(field) {
            Some(Value::Number(n)) => *n,
            Some(Value::Integer(i)) => *i as f64,
            _ => continue,
        };
        f.numeric += 1;
        f.sum += x;
        f.min = Some(match f.min {
            Some(m) if m <= x => m,
            _ => x,
        });
        f.max = Some(match f.max {
            Some(m) if m >= x => m,
            _ => x,
        });
    }
    f
}

fn approx(a: f64, b: f64) -> bool {
    a == b || (a - b).abs() <= 1e-9 * 1f64.max(a.abs()).max(b.abs())
}

fn approx_opt(a: Option<f64>, b: Option<f64>) -> bool {
    match (a, b) {
        (None, None) => true,
        (Some(x), Some(y)) => approx(x, y),
        _ => false,
    }
}

fn agg_num(r: &AggregationResult) -> Result<Option<f64>, String> {
    match r {
        AggregationResult::Number(n) => Ok(Some(*n)),
        AggregationResult::None => Ok(None),
        o => Err(format!("{:?}", o)),
    }
}

fn ops_num(r: &AggregateResult) -> Result<Option<f64>, String> {
    match r {
        AggregateResult::Number(n) => Ok(Some(*n)),
        AggregateResult::None => Ok(None),
        o => Err(format!("{:?}", o)),
    }
}

const FIELDS: [&str; 3] = ["a", "b", "zz"];

fn check_window_aggregates(win: &TimeWindow, how: &str) -> Result<(), Verdict> {
    let held: Vec<StreamEvent> = win.events().iter().cloned().collect();
    let show = || {
        let v: Vec<String> = held.iter().map(|e| format!("{}{{a:{:?},b:{:?}}}", e.id, e.data.get("a"), e.data.get("b"))).collect();
        format!("{} window [{}, {}) holding [{}]", how, win.start_time, win.end_time, v.join(", "))
    };
    let cmp = |sig: &str, field: &str, got: Result<Option<f64>, String>, exp: Option<f64>| -> Result<(), Verdict> {
        match got {
            Ok(g) if approx_opt(g, exp) => Ok(()),
            Ok(g) => Err(Verdict::fail(sig, format!("field {:?}: got {:?}, fold over the window's events gives {:?}; {}", field, g, exp, show()))),
            Err(o) => Err(Verdict::fail(sig, format!("field {:?}: result {} is neither a number nor None; {}", field, o, show()))),
        }
    };
    for field in FIELDS {
        let f = fold(win.events().iter(), field);
        let fs = field.to_string();
        // TimeWindow
        cmp("agg-timewindow-count", field, Ok(Some(win.count() as f64)), Some(f.count as f64))?;
        cmp("agg-timewindow-sum", field, Ok(Some(win.sum(field))), Some(f.sum))?;
        cmp("agg-timewindow-average", field, Ok(win.average(field)), f.avg())?;
        cmp("agg-timewindow-min", field, Ok(win.min(field)), f.min)?;
        cmp("agg-timewindow-max", field, Ok(win.max(field)), f.max)?;
        // Aggregator::aggregate(&TimeWindow)
        cmp("agg-aggregator-count", field, agg_num(&Aggregator::new(AggregationType::Count).aggregate(win)), Some(f.count as f64))?;
        cmp("agg-aggregator-sum", field, agg_num(&Aggregator::new(AggregationType::Sum { field: fs.clone() }).aggregate(win)), Some(f.sum))?;
        cmp("agg-aggregator-average", field, agg_num(&Aggregator::new(AggregationType::Average { field: fs.clone() }).aggregate(win)), f.avg())?;
        cmp("agg-aggregator-min", field, agg_num(&Aggregator::new(AggregationType::Min { field: fs.clone() }).aggregate(win)), f.min)?;
        cmp("agg-aggregator-max", field, agg_num(&Aggregator::new(AggregationType::Max { field: fs.clone() }).aggregate(win)), f.max)?;
        // Aggregator::aggregate_events(&[StreamEvent]) implements count / sum / average
        cmp("agg-aggregator-events-count", field, agg_num(&Aggregator::new(AggregationType::Count).aggregate_events(&held)), Some(f.count as f64))?;
        cmp("agg-aggregator-events-sum", field, agg_num(&Aggregator::new(AggregationType::Sum { field: fs.clone() }).aggregate_events(&held)), Some(f.sum))?;
        cmp("agg-aggregator-events-average", field, agg_num(&Aggregator::new(AggregationType::Average { field: fs.clone() }).aggregate_events(&held)), f.avg())?;
        // operators
        cmp("agg-operators-count", field, ops_num(&ops::Count.aggregate(&held)), Some(f.count as f64))?;
        cmp("agg-operators-sum", field, ops_num(&ops::Sum::new(field).aggregate(&held)), Some(f.sum))?;
        cmp("agg-operators-average", field, ops_num(&ops::Average::new(field).aggregate(&held)), f.avg())?;
        cmp("agg-operators-min", field, ops_num(&ops::Min::new(field).aggregate(&held)), f.min)?;
        cmp("agg-operators-max", field, ops_num(&ops::Max::new(field).aggregate(&held)), f.max)?;
        cmp("agg-datastream-sum", field, ops_num(&DataStream::from_events(held.clone()).aggregate(ops::Sum::new(field))), Some(f.sum))?;
    }
    Ok(())
}

fn sorted_opts(mut v: Vec<Option<f64>>) -> Vec<Option<f64>> {
    v.sort_by(|a, b| match (a, b) {
        (None, None) => std::cmp::Ordering::Equal,
        (None, _) => std::cmp::Ordering::Less,
        (_, None) => std::cmp::Ordering::Greater,
        (Some(x), Some(y)) => x.total_cmp(y),
    });
    v
}

fn stream_agg(name: &str, field: &str, ws: WindowedStream) -> Vec<AggregateResult> {
    match name {
        "count" => ws.aggregate(ops::Count),
        "sum" => ws.aggregate(ops::Sum::new(field)),
        "average" => ws.aggregate(ops::Average::new(field)),
        "min" => ws.aggregate(ops::Min::new(field)),
        _ => ws.aggregate(ops::Max::new(field)),
    }
}

fn fold_agg(name: &str, f: &Fold) -> Option<f64> {
    match name {
        "count" => Some(f.count as f64),
        "sum" => Some(f.sum),
        "average" => f.avg(),
        "min" => f.min,
        _ => f.max,
    }
}

/// `WindowedStream::aggregate` consumes the stream and window order is a HashMap's, so
/// results are compared as multisets against folds over a second, identical stream.
fn check_stream_aggregates(events: &[StreamEvent], cfg: &WindowConfig, how: &str) -> Result<usize, Verdict> {
    let reference = WindowedStream::new(events.to_vec(), cfg.clone());
    for win in reference.windows() {
        check_window_aggregates(win, how)?;
    }
    let n = reference.windows().len();
    for field in ["a", "b"] {
        for name in ["count", "sum", "average", "min", "max"] {
            let exp = sorted_opts(reference.windows().iter().map(|w| fold_agg(name, &fold(w.events().iter(), field))).collect());
            let res = stream_agg(name, field, WindowedStream::new(events.to_vec(), cfg.clone()));
            let mut got = Vec::new();
            for r in &res {
                match ops_num(r) {
                    Ok(x) => got.push(x),
                    Err(o) => return Err(Verdict::fail(format!("agg-windowedstream-{}", name), format!("{} field {:?}: result {}", how, field, o))),
                }
            }
            let got = sorted_opts(got);
            if got.len() != exp.len() || got.iter().zip(&exp).any(|(g, e)| !approx_opt(*g, *e)) {
                return Err(Verdict::fail(
                    format!("agg-windowedstream-{}", name),
                    format!("{} field {:?}: per-window results (sorted) {:?}, folds over the windows' events give {:?}", how, field, got, exp),
                ));
            }
        }
    }
    // reduce: one result per non-empty window, a fold over exactly its events - the reducer counts them
    {
        let mut exp: Vec<usize> = reference.windows().iter().map(|w| w.count()).filter(|c| *c > 0).collect();
        exp.sort();
        let count_of = |e: &StreamEvent| -> usize {
            match e.data.get("~n") {
                Some(Value::Integer(n)) => *n as usize,
                _ => 1,
            }
        };
        let reduced = WindowedStream::new(events.to_vec(), cfg.clone()).reduce(move |mut x, y| {
            let n = count_of(&x) + count_of(&y);
            x.data.insert("~n".to_string(), Value::Integer(n as i64));
            x
        });
        let mut got: Vec<usize> = reduced.iter().map(count_of).collect();
        got.sort();
        if got != exp {
            return Err(Verdict::fail(
                "agg-windowedstream-reduce",
                format!("{}: reduce folded {:?} events per window (sorted), the windows hold {:?}", how, got, exp),
            ));
        }
    }
    // keyed: the stream is split by key (the parity of the arrival index) and every key's events are windowed on
    // their own; each key's per-window aggregates equal the folds over the windows of that key's events
    for field in ["a"] {
        for name in ["count", "sum", "min", "max", "average"] {
            let keyed = DataStream::from_events(events.to_vec()).key_by(|e| e.metadata.sequence % 2).window(cfg.clone());
            let res: HashMap<u64, Vec<AggregateResult>> = match name {
                "count" => keyed.aggregate(ops::Count),
                "sum" => keyed.aggregate(ops::Sum::new(field)),
                "min" => keyed.aggregate(ops::Min::new(field)),
                "max" => keyed.aggregate(ops::Max::new(field)),
                _ => keyed.aggregate(ops::Average::new(field)),
            };
            for key in [0u64, 1] {
                let mine: Vec<StreamEvent> = events.iter().filter(|e| e.metadata.sequence % 2 == key).cloned().collect();
                let refw = WindowedStream::new(mine.clone(), cfg.clone());
                let exp = sorted_opts(refw.windows().iter().map(|w| fold_agg(name, &fold(w.events().iter(), field))).collect());
                let mut got = Vec::new();
                for r in res.get(&key).map(|v| v.as_slice()).unwrap_or(&[]) {
                    match ops_num(r) {
                        Ok(x) => got.push(x),
                        Err(o) => return Err(Verdict::fail(format!("agg-keyed-{}", name), format!("{} key {}: result {}", how, key, o))),
                    }
                }
                let got = sorted_opts(got);
                if mine.is_empty() && got.is_empty() {
                    continue;
                }
                if got.len() != exp.len() || got.iter().zip(&exp).any(|(g, e)| !approx_opt(*g, *e)) {
                    return Err(Verdict::fail(
                        format!("agg-keyed-{}", name),
                        format!("{} keyed by arrival parity, key {} field {:?}: per-window results (sorted) {:?}, folds over the windows of that key's events give {:?}", how, key, field, got, exp),
                    ));
                }
            }
        }
    }
    Ok(n)
}

pub fn run_agg(s: &mut Src, ctx: &mut Ctx) -> Verdict {
    let mut case = gen(s, ctx.exh, Kind::Agg);
    if probe_only() {
        return Verdict::Pass;
    }
    apply_exclusions(&mut case, Kind::Agg, ctx);
    // One case in four (a pure function of the case, no draw) holds infinite readings: every Number(k/4) payload with k
    // divisible by 3 becomes +inf (or, in every second such case, -inf). An infinity is a number: the smallest /
    // largest / sum / average of a window that holds it are what the fold says, also when it is the only number.
    {
        let h = case.evs.iter().fold(case.d.wrapping_mul(13).wrapping_add(case.cap as u64), |a, e| a.wrapping_mul(31).wrapping_add(e.t));
        if h % 4 == 0 {
            let pos = (h / 4) % 2 == 0;
            let mut any = false;
            for e in case.evs.iter_mut() {
                for p in [&mut e.a, &mut e.b] {
                    if let Pay::Quarter(k) = *p {
                        if k % 3 == 0 {
                            *p = Pay::Inf(pos);
                            any = true;
                        }
                    }
                }
            }
            if any {
                ctx.label(if pos { "payload:+inf" } else { "payload:-inf" });
            }
        }
    }
    ctx.describe(|| format!("aggregates, {}", show(&case, Kind::Agg)));
    let d = case.d;
    let events: Vec<StreamEvent> = case.evs.iter().map(mk_event).collect();
    // 1. a tumbling TimeWindow filled with add_event (the aligned window of the first event)
    let st = case.evs.first().map(|e| e.t - e.t % d).unwrap_or(0);
    let mut tw = TimeWindow::new(WindowType::Tumbling, Duration::from_millis(d), st, case.cap);
    if let Err(v) = check_window_aggregates(&tw, "empty") {
        return v;
    }
    for e in &events {
        tw.add_event(e.clone());
    }
    if let Err(v) = check_window_aggregates(&tw, "add_event") {
        return v;
    }
    // 2. a continuously sliding TimeWindow filled with record, checked after every step
    let mut sw = TimeWindow::new(WindowType::Sliding, Duration::from_millis(d), 0, case.cap);
    let mut biggest = tw.count();
    for e in &events {
        sw.record(e.clone());
        if let Err(v) = check_window_aggregates(&sw, "record") {
            return v;
        }
        biggest = biggest.max(sw.count());
    }
    // 3. the windows of a tumbling WindowedStream, and of a sliding one (the sliding
    //    constructor advances by duration/2, which is 0 for 1 ms: not called then)
    let cfg = WindowConfig::tumbling(Duration::from_millis(d)).with_max_events(case.cap);
    let mut nwin = match check_stream_aggregates(&events, &cfg, "WindowedStream tumbling") {
        Ok(n) => n,
        Err(v) => return v,
    };
    if d >= 2 {
        let cfg = WindowConfig::sliding(Duration::from_millis(d)).with_max_events(case.cap);
        match check_stream_aggregates(&events, &cfg, "WindowedStream sliding") {
            Ok(n) => nwin += n,
            Err(v) => return v,
        }
    }
    let _ = nwin;
    // classification
    let num = case.evs.iter().filter(|e| e.a.is_numeric()).count();
    let missing = case.evs.iter().filter(|e| e.a == Pay::Missing).count();
    let other = case.evs.len() - num - missing;
    if num > 0 {
        ctx.label("numeric");
    }
    if missing > 0 {
        ctx.label("missing-field");
    }
    if other > 0 {
        ctx.label("non-numeric");
    }
    if case.evs.iter().any(|e| matches!(e.a, Pay::Int(_))) && case.evs.iter().any(|e| matches!(e.a, Pay::Quarter(_))) {
        ctx.label("int-and-float");
    }
    if num == 0 && !case.evs.is_empty() {
        ctx.label("no-numeric-at-all");
    }
    if biggest >= 2 {
        ctx.label("window-with-2+-events");
    }
    // non-trivial: some window held ≥ 2 events and the queried field mixes numeric with non-numeric/missing values
    if biggest >= 2 && num >= 1 && (missing + other) >= 1 {
        ctx.label("mixed-in-window");
        let key: Vec<(u64, String, String)> = case.evs.iter().map(|e| (e.t, format!("{:?}", e.a), format!("{:?}", e.b))).collect();
        ctx.nontrivial(hash_of(&("agg", case.d, case.cap, key)));
    }
    Verdict::Pass
}

// ---------------------------------------------------------------------------

pub fn property() -> Property {
    const B: usize = 160;
    let rnd = |q: u64, t: u64| (Budget::Random { cases: q, bytes: B }, Budget::Random { cases: t, bytes: B });
    let mut parts = Vec::new();
    let mut add = |name: &'static str, run: RunFn, q: Budget, t: Budget, pct: u32| {
        parts.push(Part { name, run, quick: q, thorough: t, min_nontrivial_pct: pct });
    };
    let (q, t) = rnd(1_000_000, 10_000_000);
    add("ws", run_ws, q, t, 40);
    add("wm", run_wm, q, t, 40);
    add("tw", run_tw, q, t, 30);
    add("record", run_record, q, t, 40);
    add("san", run_san, q, t, 30);
    let (q, t) = rnd(200_000, 2_000_000);
    add("agg", run_agg, q, t, 25);
    // every arrival order of 5 (quick) / 6 (thorough) events × 3 durations × 2 caps × gap patterns,
    // for two alphabets (A: param = n, B: param = 10 + n)
    let ex = |n: u32| (Budget::Exhaustive { param: n }, Budget::Exhaustive { param: n + 1 });
    let (qa, ta) = ex(5);
    let (qb, tb) = ex(15);
    add("ws-orders-a", run_ws, qa, ta, 0);
    add("wm-orders-a", run_wm, qa, ta, 0);
    add("record-orders-a", run_record, qa, ta, 0);
    add("san-orders-a", run_san, qa, ta, 0);
    add("ws-orders-b", run_ws, qb, tb, 0);
    add("wm-orders-b", run_wm, qb, tb, 0);
    add("record-orders-b", run_record, qb, tb, 0);
    add("san-orders-b", run_san, qb, tb, 0);
    Property {
        id: "C12",
        level: "exploration",
        rule: "generated: sequences of 0..12 events, timestamps base+0..40 (base 0 / 1000 / 1.7e12; domain width 41, 16 or 6) in order, reversed or shuffled, payload fields Integer / Number(k/4) / String / Boolean / Null / missing; duration 1..25 ms; cap 1..12; for StreamAlphaNode a non-decreasing injected clock = running max of (timestamp + lag), lag 0..4 or slightly negative. The *-orders-a parts enumerate every arrival order of 5 (quick) or 6 (thorough) events x durations {1,3,10} x caps {12,2} x every gap pattern over {0,1,3,7} ({0,2,5} for StreamAlphaNode, x sliding/tumbling); *-orders-b the same with durations {2,5,25}, caps {3,1}, gaps {0,2,4,11} ({0,1,6}), first timestamp 1000. Oracles: ws = WindowedStream::new tumbling (every event in exactly one window [k*w, k*w+w) containing its timestamp; window content = the events of that interval, modulo cap); wm = WindowManager tumbling, judged right after each process_event relative to the windows observed before it; tw = TimeWindow::add_event half-open span test; record = TimeWindow::record, after each step nothing older than t-d is held and everything else of (previous content + new event) is, modulo cap; san = StreamAlphaNode::process_event under the injected clock (acceptance, buffer content relative to the clock's window, modulo cap); agg = count/sum/average/min/max of TimeWindow, Aggregator and operators::{Count,Sum,Average,Min,Max} against a harness fold over window.events(). 'modulo cap': with more than cap events belonging, exactly cap are held and the missing ones are oldest by arrival or by timestamp. Non-trivial: an out-of-order pair inside one window span, or an event exactly on a window boundary (t = start, t = end / cutoff), or the cap exceeded (san: additionally at least one accepted event; agg: a window with >= 2 events whose queried field mixes numeric and non-numeric/missing values). Distinct by (duration, cap, window type, timestamp and clock sequence). Sub-millisecond rests (1 case in 3, a pure function of the case): ws / wm repeat the run with duration D ms + r us and judge what every reading shares (windows pairwise disjoint, every held event inside its window and held once, none lost below the cap); record runs with D ms + r us and the unchanged model (for whole-ms timestamps 'older than D + r' is 'older than D'). agg: 1 case in 4 turns Number(k/4) payloads with 3 | k into +inf (or -inf; one sign per case).",
        assumptions: vec![
            "NaN / infinite payloads and durations below 1 ms are outside the quantifier".into(),
            "timestamps stay far from u64::MAX (start + duration and now + 1 are computed without overflow checks)".into(),
            "the injected StreamAlphaNode clock never goes backwards; an event ahead of the clock is offered but its acceptance is not judged (sliding)".into(),
            "WindowManager is created with max_windows = 1000 so that only expiry (window end <= event time), not the window-count limit, removes windows; expired windows may or may not be gone".into(),
            "WindowedStream with a sliding/session configuration is not a tumbling nor a continuously sliding window: only its aggregates are checked, and only for durations >= 2 ms".into(),
        ],
        parts,
        watchdog: true,
        replay_reps: 25,
    }
}
