//! C09 — backward chaining proves only derivable goals, and finds bounded proofs.

use crate::bc::*;
use crate::core::*;
use crate::runner::*;
use crate::typed::*;
use std::collections::{BTreeMap, BTreeSet};

pub struct QueryOutcome {
    pub provable: bool,
    pub after: Store,
    pub undo_depth_after: usize,
}

/// run one query on a fresh engine; Err = engine error / panic (never a verdict here)
pub fn run_query(kb: &Kb, st: &Store, goal: &GoalQ, cfg: &Cfg) -> Result<QueryOutcome, String> {
    let mut engine = build_engine(kb, cfg);
    let mut facts = to_facts(st);
    let text = goal.text();
    match catch(|| engine.query(&text, &mut facts)) {
        Err(p) => Err(format!("panic:{}", p)),
        Ok(Err(e)) => Err(format!("error:{}", e)),
        Ok(Ok(r)) => Ok(QueryOutcome { provable: r.provable, after: from_facts(&facts), undo_depth_after: facts.verif_undo_depth() }),
    }
}

fn derived_deps(kb: &Kb) -> BTreeMap<String, BTreeSet<String>> {
    let mut g: BTreeMap<String, BTreeSet<String>> = BTreeMap::new();
    for r in &kb.rules {
        let mut body = BTreeSet::new();
        r.cond.for_each_atom(&mut |a| {
            if let Lhs::Field(p) = &a.lhs {
                if p.starts_with("G.") {
                    body.insert(p.clone());
                }
            }
        });
        for (h, _) in &r.heads {
            g.entry(h.clone()).or_default().extend(body.iter().cloned());
        }
    }
    g
}

fn has_cycle(g: &BTreeMap<String, BTreeSet<String>>) -> bool {
    fn reach(g: &BTreeMap<String, BTreeSet<String>>, from: &str, target: &str, seen: &mut BTreeSet<String>) -> bool {
        if let Some(ns) = g.get(from) {
            for n in ns {
                if n == target {
                    return true;
                }
                if seen.insert(n.clone()) && reach(g, n, target, seen) {
                    return true;
                }
            }
        }
        false
    }
    g.keys().any(|k| reach(g, k, k, &mut BTreeSet::new()))
}

pub struct Shape {
    pub wrong_value: bool,
    pub cycle: bool,
    pub dead_end: bool,
    pub and_two_derivable: bool,
}

pub fn shape(kb: &Kb, st: &Store) -> Shape {
    let poss = possible_values(kb, st);
    let derivable = |p: &str, kb: &Kb| -> bool {
        let i: usize = p[3..].parse().unwrap_or(0);
        poss.get(p).map(|v| v.contains(&Some(good(kb, i)))).unwrap_or(false)
    };
    let mut wrong_value = false;
    let mut dead_end = false;
    let mut and_two = false;
    for r in &kb.rules {
        for (h, v) in &r.heads {
            let i: usize = h[3..].parse().unwrap_or(0);
            if *v == bad(kb, i) {
                wrong_value = true;
            }
        }
        let mut ds: Vec<String> = vec![];
        r.cond.for_each_atom(&mut |a| {
            if let Lhs::Field(p) = &a.lhs {
                if p.starts_with("G.") {
                    ds.push(p.clone());
                }
            }
        });
        if ds.iter().any(|d| !derivable(d, kb) && st.top.get(d).is_none()) {
            dead_end = true;
        }
        if matches!(r.cond, Cond::And(..)) && ds.iter().filter(|d| derivable(d, kb) && st.top.get(*d).is_none()).count() >= 2 {
            and_two = true;
        }
    }
    Shape { wrong_value, cycle: has_cycle(&derived_deps(kb)), dead_end, and_two_derivable: and_two }
}

pub fn gen_case(s: &mut Src, force_monotone: Option<bool>) -> (Kb, Store, GoalQ, Cfg) {
    let cfg = gen_cfg(s, false);
    let max_rules = if cfg.max_depth >= 5 { 5 } else { 8 };
    let mut kb = gen_kb(s, max_rules, force_monotone);
    let mut st = crate::bc::gen_store(s, &kb);
    let goal = gen_goal(s, &kb);
    apply_str_style(s, &mut kb, &mut st);
    (kb, st, goal, cfg)
}

pub fn describe(kb: &Kb, st: &Store, goal: &GoalQ, cfg: &Cfg) -> String {
    format!("query `{}` with {:?}\n{}", goal.text(), cfg, render(kb, st))
}

fn judge(kb: &Kb, st: &Store, goal: &GoalQ, cfg: &Cfg, ctx: &mut Ctx) -> Verdict {
    let out = match run_query(kb, st, goal, cfg) {
        Ok(o) => o,
        Err(e) => {
            ctx.label(if e.starts_with("panic") { "engine-panic" } else { "engine-error" });
            return Verdict::Discard(if e.starts_with("panic") { "engine-panic" } else { "engine-error" });
        }
    };
    let initially = eval_atom(&goal.atom, st);
    if let T3::Undef(_) = initially {
        return Verdict::Discard("undefined:goal-on-initial-facts");
    }
    let strat = match cfg.strat {
        Strat::Dfs => "dfs",
        Strat::Bfs => "bfs",
        Strat::Iter => "iterative",
    };
    if out.provable {
        // soundness 1: the goal comparison is true in the facts handed back
        match eval_atom(&goal.atom, &out.after) {
            T3::True => {}
            T3::Undef(_) => return Verdict::Discard("undefined:goal-on-returned-facts"),
            T3::False => {
                let multi = if cfg.max_solutions > 1 { ":max_solutions>1" } else { "" };
                return Verdict::fail(
                    format!("provable-but-goal-false-in-returned-facts:{}{}", strat, multi),
                    format!("query reported provable but {} is false in the facts handed back: {}", goal.text(), out.after.render()),
                );
            }
        }
        // soundness 2: the goal is true for some value the forward closure can produce
        let poss = possible_values(kb, st);
        if !atom_sat(&goal.atom, &poss) {
            return Verdict::fail(
                format!("provable-but-not-in-forward-closure:{}", strat),
                format!("query reported provable but no rule application order can make {} true", goal.text()),
            );
        }
        ctx.label("provable");
    } else {
        ctx.label("not-provable");
    }
    // bounded completeness: DFS, monotone KBs
    let mut completeness_h = None;
    if cfg.strat == Strat::Dfs && kb.monotone {
        if let Some(h) = derivation_height(kb, st, &goal.atom) {
            completeness_h = Some(h);
            if h <= cfg.max_depth && !out.provable {
                return Verdict::fail(
                    "dfs-bounded-completeness",
                    format!("goal {} has a derivation of height {} <= max_depth {} in a monotone conjunctive KB but was reported not provable", goal.text(), h, cfg.max_depth),
                );
            }
            ctx.label("completeness-judged");
        }
    }
    let sh = shape(kb, st);
    if sh.wrong_value {
        ctx.label("kb:wrong-value-rule");
    }
    if sh.cycle {
        ctx.label("kb:cycle");
    }
    if sh.dead_end {
        ctx.label("kb:dead-end");
    }
    if sh.and_two_derivable {
        ctx.label("kb:and-two-derivable");
    }
    let nt = (initially == T3::False && (sh.wrong_value || sh.cycle || sh.dead_end || sh.and_two_derivable)) || completeness_h.map(|h| h >= 2).unwrap_or(false);
    if nt {
        ctx.nontrivial(hash_case(kb, st, &format!("{}{:?}", goal.text(), cfg)));
    }
    Verdict::Pass
}

pub fn run(s: &mut Src, ctx: &mut Ctx) -> Verdict {
    let (kb, st, goal, cfg) = gen_case(s, None);
    if probe_only() {
        return Verdict::Pass;
    }
    ctx.describe(|| describe(&kb, &st, &goal, &cfg));
    judge(&kb, &st, &goal, &cfg, ctx)
}

/// completeness-focused part: monotone KBs, DFS
pub fn run_complete(s: &mut Src, ctx: &mut Ctx) -> Verdict {
    let (kb, st, goal, mut cfg) = gen_case(s, Some(true));
    cfg.strat = Strat::Dfs;
    if probe_only() {
        return Verdict::Pass;
    }
    ctx.describe(|| describe(&kb, &st, &goal, &cfg));
    judge(&kb, &st, &goal, &cfg, ctx)
}

// ------------------------------------------------------------------ part `ladder`

const LEVELS: [&str; 4] = ["bronze", "silver", "gold", "platinum"];

/// Part `ladder`: derivations that climb. Every rule on the derivation has ONE derived premise (plus base premises that
/// hold), so the derivation is a single path and nothing on it can be in another premise's way; but a step may test a
/// field and assign the NEXT value to that same field (`G.d0 == "silver"` => `G.d0 = "gold"`), so one field is the
/// subject of several different sub-goals, one below the other. The path has as many rules as its height; rules whose
/// base premise is false (they can never fire) are strewn in as distractors, some of them assigning other values to
/// the same fields. Demand (the completeness clause as stated): depth-first, height <= max_depth => provable, and the
/// goal holds in the facts handed back.
pub fn run_ladder(s: &mut Src, ctx: &mut Ctx) -> Verdict {
    let k = 1 + s.below(5); // rules on the path
    let mut kb = Kb { rules: vec![], str_kind: [true; ND], monotone: false, str_style: 0 };
    let mut st = Store::default();
    st.top.insert("B.f0".to_string(), V::Bool(true));
    st.top.insert("B.f1".to_string(), V::Bool(false));
    st.top.insert("B.n0".to_string(), V::Int(3));
    let lv = |l: usize| V::Str(LEVELS[l].to_string());
    let truth = |s: &mut Src| -> Cond {
        match s.below(3) {
            0 => atom_of("B.f0", Op::Eq, V::Bool(true)),
            1 => atom_of("B.n0", Op::Ge, V::Int(s.range(0, 3))),
            _ => atom_of("B.f1", Op::Eq, V::Bool(false)),
        }
    };
    // the path: (field, level) reached after each rule
    let mut field = 0usize;
    let mut level = 0usize;
    let mut next_field = 1usize;
    let mut climbs = 0;
    let mut order: Vec<BRule> = Vec::new();
    order.push(BRule { name: "p0".into(), salience: 0, cond: truth(s), heads: vec![(dname(field), lv(level))], fails_at: None, disabled: false });
    for i in 1..k {
        let premise = atom_of(&dname(field), Op::Eq, lv(level));
        let climb = level + 1 < LEVELS.len() && (next_field >= ND || s.chance(2, 3));
        if climb {
            level += 1;
            climbs += 1;
        } else {
            field = next_field;
            next_field += 1;
            level = s.below(2);
        }
        let cond = if s.chance(1, 3) {
            let t = truth(s);
            if s.bool() {
                Cond::And(Box::new(premise), Box::new(t))
            } else {
                Cond::And(Box::new(t), Box::new(premise))
            }
        } else {
            premise
        };
        order.push(BRule { name: format!("p{}", i), salience: [0, 0, 5, 10][s.below(4)], cond, heads: vec![(dname(field), lv(level))], fails_at: None, disabled: false });
    }
    let goal = GoalQ { atom: Atom { lhs: Lhs::Field(dname(field)), op: Op::Eq, rhs: Term::Lit(lv(level)), tight: false } };
    // distractors that can never fire
    let nd = s.below(4);
    for j in 0..nd {
        let f = s.below(next_field.min(ND));
        let dead = atom_of("B.f1", Op::Eq, V::Bool(true));
        let cond = if s.bool() { dead } else { Cond::And(Box::new(atom_of(&dname(s.below(ND)), Op::Eq, lv(s.below(4)))), Box::new(dead)) };
        order.push(BRule { name: format!("x{}", j), salience: [0, 5, 20][s.below(3)], cond, heads: vec![(dname(f), lv(s.below(4)))], fails_at: None, disabled: false });
    }
    // the order in which the rules were added carries no meaning: rotate
    let rot = s.below(order.len());
    order.rotate_left(rot);
    kb.rules = order;
    let max_depth = s.below(8);
    let cfg = Cfg { strat: Strat::Dfs, max_depth, max_solutions: if s.chance(1, 3) { 3 } else { 1 }, memo: s.bool() };
    if probe_only() {
        return Verdict::Pass;
    }
    ctx.describe(|| format!("ladder of {} rules ({} of them raise the field they test)\n{}", k, climbs, describe(&kb, &st, &goal, &cfg)));
    let out = match run_query(&kb, &st, &goal, &cfg) {
        Ok(o) => o,
        Err(e) => {
            let l = if e.starts_with("panic") { "engine-panic" } else { "engine-error" };
            ctx.label(l);
            return Verdict::Discard(l);
        }
    };
    if out.provable && eval_atom(&goal.atom, &out.after) != T3::True {
        return Verdict::fail("provable-but-goal-false-in-returned-facts:ladder", format!("query `{}` reported provable but the goal is not true in the facts handed back", goal.text()));
    }
    if k <= max_depth && !out.provable {
        return Verdict::fail(
            "bounded-completeness:ladder",
            format!("query `{}`: the goal has a derivation of height {} <= max_depth {} (a single path of rules p0..p{}, each with one derived premise) but is reported not provable", goal.text(), k, max_depth, k - 1),
        );
    }
    if k <= max_depth {
        ctx.label("height<=max_depth");
        if climbs > 0 {
            ctx.label("path-raises-a-field-it-tests");
            ctx.nontrivial(hash_case(&kb, &st, &format!("{}{:?}", goal.text(), cfg)));
        }
    } else {
        ctx.label("height>max_depth(nothing demanded)");
    }
    Verdict::Pass
}

fn atom_of(path: &str, op: Op, v: V) -> Cond {
    Cond::Atom(Atom { lhs: Lhs::Field(path.to_string()), op, rhs: Term::Lit(v), tight: false })
}

pub fn property() -> Property {
    Property {
        id: "C09",
        level: "exploration",
        rule: "generated: Horn-style knowledge bases of 1-8 rules (5 when max_depth >= 5) built through the API: conditions are And/Or trees (depth <= 3) over `G.dK == literal` (derived fields, bool or string kind) and comparisons on base facts (numeric ordering, flag, string equality); every action assigns literals (canonical value, or a wrong value / a second side assignment in non-monotone KBs); chains, shared sub-goals, dead ends, wrong-value conclusions, cycles and redundant alternatives arise from random heads/bodies; initial stores of flat keys with some derived fields pre-asserted; atomic goals `field op literal`; strategy DFS/BFS/Iterative, max_depth 0..6, max_solutions 1 or 3, memoisation off. Oracles: (S1) if provable, REF evaluates the goal comparison to true on the facts handed back; (S2) if provable, some value in the possible-values closure (over-approximated forward closure) satisfies the goal; (C) part `complete`: monotone KBs (positive conjunctive conditions, one literal per field) under DFS: if the minimal derivation height (facts 0, rule application 1 + max premise) is <= max_depth the query must be provable. Non-trivial: goal false initially and the KB has a dead end / wrong-value rule / cycle / And of two derivable sub-goals, or completeness judged with height >= 2; distinct by (KB, store, goal, config). Engine panics/errors are counted and not judged. Part ladder: single-path derivations of 1..5 rules, every rule with exactly one derived premise (plus base premises that hold); a step either tests a field and assigns the NEXT of four string values to the same field, or moves on to a fresh field; 0..3 distractor rules whose base premise is false (never fire), rule order rotated, DFS, max_depth 0..7, max_solutions 1/3, memo on/off. Demand: height (= number of rules on the path) <= max_depth => provable, and provable => goal true in the facts handed back. Non-trivial there: height <= max_depth and at least one step raises the field it tests.",
        assumptions: vec!["REF (typed.rs) judges the goal comparison; numeric equality goals are not generated (the goal parser reads numbers as floats; REF calls int-vs-float equality undefined)".into()],
        parts: vec![
            Part { name: "sound", run, quick: Budget::Random { cases: 400_000, bytes: 300 }, thorough: Budget::Random { cases: 10_000_000, bytes: 300 }, min_nontrivial_pct: 30 },
            Part { name: "ladder", run: run_ladder, quick: Budget::Random { cases: 200_000, bytes: 200 }, thorough: Budget::Random { cases: 3_000_000, bytes: 200 }, min_nontrivial_pct: 10 },
            Part { name: "complete", run: run_complete, quick: Budget::Random { cases: 400_000, bytes: 300 }, thorough: Budget::Random { cases: 10_000_000, bytes: 300 }, min_nontrivial_pct: 5 },
        ],
        watchdog: true,
        replay_reps: 5,
    }
}
