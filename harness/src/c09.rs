//! C09 — backward chaining proves only derivable goals, and finds bounded proofs.

use crate::bc::*;
use crate::core::*;
use crate::runner::*;
use crate::typed::*;
use std::collections::{BTreeMap, BTreeSet};

pub struct QueryOutcome {
    pub provable: bool,
    pub after: Store,
    pub undo_depth_after: usize,
}

/// run one query on a fresh engine; Err = engine error / panic (never a verdict here)
pub fn run_query(kb: &Kb, st: &Store, goal: &GoalQ, cfg: &Cfg) -> Result<QueryOutcome, String> {
    let mut engine = build_engine(kb, cfg);
    let mut facts = to_facts(st);
    let text = goal.text();
    match catch(|| engine.query(&text, &mut facts)) {
        Err(p) => Err(format!("panic:{}", p)),
        Ok(Err(e)) => Err(format!("error:{}", e)),
        Ok(Ok(r)) => Ok(QueryOutcome { provable: r.provable, after: from_facts(&facts), undo_depth_after: facts.verif_undo_depth() }),
    }
}

fn derived_deps(kb: &Kb) -> BTreeMap<String, BTreeSet<String>> {
    let mut g: BTreeMap<String, BTreeSet<String>> = BTreeMap::new();
    for r in &kb.rules {
        let mut body = BTreeSet::new();
        r.cond.for_each_atom(&mut |a| {
            if let Lhs::Field(p) = &a.lhs {
                if p.starts_with("G.") {
                    body.insert(p.clone());
                }
            }
        });
        for (h, _) in &r.heads {
            g.entry(h.clone()).or_default().extend(body.iter().cloned());
        }
    }
    g
}

fn has_cycle(g: &BTreeMap<String, BTreeSet<String>>) -> bool {
    fn reach(g: &BTreeMap<String, BTreeSet<String>>, from: &str, target: &str, seen: &mut BTreeSet<String>) -> bool {
        if let Some(ns) = g.get(from) {
            for n in ns {
                if n == target {
                    return true;
                }
                if seen.insert(n.clone()) && reach(g, n, target, seen) {
                    return true;
                }
            }
        }
        false
    }
    g.keys().any(|k| reach(g, k, k, &mut BTreeSet::new()))
}

pub struct Shape {
    pub wrong_value: bool,
    pub cycle: bool,
    pub dead_end: bool,
    pub and_two_derivable: bool,
}

pub fn shape(kb: &Kb, st: &Store) -> Shape {
    let poss = possible_values(kb, st);
    let derivable = |p: &str, kb: &Kb| -> bool {
        let i: usize = p[3..].parse().unwrap_or(0);
        poss.get(p).map(|v| v.contains(&Some(good(kb, i)))).unwrap_or(false)
    };
    let mut wrong_value = false;
    let mut dead_end = false;
    let mut and_two = false;
    for r in &kb.rules {
        for (h, v) in &r.heads {
            let i: usize = h[3..].parse().unwrap_or(0);
            if *v == bad(kb, i) {
                wrong_value = true;
            }
        }
        let mut ds: Vec<String> = vec![];
        r.cond.for_each_atom(&mut |a| {
            if let Lhs::Field(p) = &a.lhs {
                if p.starts_with("G.") {
                    ds.push(p.clone());
                }
            }
        });
        if ds.iter().any(|d| !derivable(d, kb) && st.top.get(d).is_none()) {
            dead_end = true;
        }
        if matches!(r.cond, Cond::And(..)) && ds.iter().filter(|d| derivable(d, kb) && st.top.get(*d).is_none()).count() >= 2 {
            and_two = true;
        }
    }
    Shape { wrong_value, cycle: has_cycle(&derived_deps(kb)), dead_end, and_two_derivable: and_two }
}

pub fn gen_case(s: &mut Src, force_monotone: Option<bool>) -> (Kb, Store, GoalQ, Cfg) {
    let cfg = gen_cfg(s, false);
    let max_rules = if cfg.max_depth >= 5 { 5 } else { 8 };
    let mut kb = gen_kb(s, max_rules, force_monotone);
    let mut st = crate::bc::gen_store(s, &kb);
    let goal = gen_goal(s, &kb);
    apply_str_style(s, &mut kb, &mut st);
    (kb, st, goal, cfg)
}

pub fn describe(kb: &Kb, st: &Store, goal: &GoalQ, cfg: &Cfg) -> String {
    format!("query `{}` with {:?}\n{}", goal.text(), cfg, render(kb, st))
}

fn judge(kb: &Kb, st: &Store, goal: &GoalQ, cfg: &Cfg, ctx: &mut Ctx) -> Verdict {
    let out = match run_query(kb, st, goal, cfg) {
        Ok(o) => o,
        Err(e) => {
            ctx.label(if e.starts_with("panic") { "engine-panic" } else { "engine-error" });
            return Verdict::Discard(if e.starts_with("panic") { "engine-panic" } else { "engine-error" });
        }
    };
    let initially = eval_atom(&goal.atom, st);
    if let T3::Undef(_) = initially {
        return Verdict::Discard("undefined:goal-on-initial-facts");
    }
    let strat = match cfg.strat {
        Strat::Dfs => "dfs",
        Strat::Bfs => "bfs",
        Strat::Iter => "iterative",
    };
    if out.provable {
        // soundness 1: the goal comparison is true in the facts handed back
        match eval_atom(&goal.atom, &out.after) {
            T3::True => {}
            T3::Undef(_) => return Verdict::Discard("undefined:goal-on-returned-facts"),
            T3::False => {
                let multi = if cfg.max_solutions > 1 { ":max_solutions>1" } else { "" };
                return Verdict::fail(
                    format!("provable-but-goal-false-in-returned-facts:{}{}", strat, multi),
                    format!("query reported provable but {} is false in the facts handed back: {}", goal.text(), out.after.render()),
                );
            }
        }
        // soundness 2: the goal is true for some value the forward closure can produce
        let poss = possible_values(kb, st);
        if !atom_sat(&goal.atom, &poss) {
            return Verdict::fail(
                format!("provable-but-not-in-forward-closure:{}", strat),
                format!("query reported provable but no rule application order can make {} true", goal.text()),
            );
        }
        ctx.label("provable");
    } else {
        ctx.label("not-provable");
    }
    // bounded completeness: DFS, monotone KBs
    let mut completeness_h = None;
    if cfg.strat == Strat::Dfs && kb.monotone {
        if let Some(h) = derivation_height(kb, st, &goal.atom) {
            completeness_h = Some(h);
            if h <= cfg.max_depth && !out.provable {
                return Verdict::fail(
                    "dfs-bounded-completeness",
                    format!("goal {} has a derivation of height {} <= max_depth {} in a monotone conjunctive KB but was reported not provable", goal.text(), h, cfg.max_depth),
                );
            }
            ctx.label("completeness-judged");
        }
    }
    let sh = shape(kb, st);
    if sh.wrong_value {
        ctx.label("kb:wrong-value-rule");
    }
    if sh.cycle {
        ctx.label("kb:cycle");
    }
    if sh.dead_end {
        ctx.label("kb:dead-end");
    }
    if sh.and_two_derivable {
        ctx.label("kb:and-two-derivable");
    }
    let nt = (initially == T3::False && (sh.wrong_value || sh.cycle || sh.dead_end || sh.and_two_derivable)) || completeness_h.map(|h| h >= 2).unwrap_or(false);
    if nt {
        ctx.nontrivial(hash_case(kb, st, &format!("{}{:?}", goal.text(), cfg)));
    }
    Verdict::Pass
}

pub fn run(s: &mut Src, ctx: &mut Ctx) -> Verdict {
    let (kb, st, goal, cfg) = gen_case(s, None);
    if probe_only() {
        return Verdict::Pass;
    }
    ctx.describe(|| describe(&kb, &st, &goal, &cfg));
    judge(&kb, &st, &goal, &cfg, ctx)
}

/// completeness-focused part: monotone KBs, DFS
pub fn run_complete(s: &mut Src, ctx: &mut Ctx) -> Verdict {
    let (kb, st, goal, mut cfg) = gen_case(s, Some(true));
    cfg.strat = Strat::Dfs;
    if probe_only() {
        return Verdict::Pass;
    }
    ctx.describe(|| describe(&kb, &st, &goal, &cfg));
    judge(&kb, &st, &goal, &cfg, ctx)
}

pub fn property() -> Property {
    Property {
        id: "C09",
        level: "exploration",
        rule: "generated: Horn-style knowledge bases of 1-8 rules (5 when max_depth >= 5) built through the API: conditions are And/Or trees (depth <= 3) over `G.dK == literal` (derived fields, bool or string kind) and comparisons on base facts (numeric ordering, flag, string equality); every action assigns literals (canonical value, or a wrong value / a second side assignment in non-monotone KBs); chains, shared sub-goals, dead ends, wrong-value conclusions, cycles and redundant alternatives arise from random heads/bodies; initial stores of flat keys with some derived fields pre-asserted; atomic goals `field op literal`; strategy DFS/BFS/Iterative, max_depth 0..6, max_solutions 1 or 3, memoisation off. Oracles: (S1) if provable, REF evaluates the goal comparison to true on the facts handed back; (S2) if provable, some value in the possible-values closure (over-approximated forward closure) satisfies the goal; (C) part `complete`: monotone KBs (positive conjunctive conditions, one literal per field) under DFS: if the minimal derivation height (facts 0, rule application 1 + max premise) is <= max_depth the query must be provable. Non-trivial: goal false initially and the KB has a dead end / wrong-value rule / cycle / And of two derivable sub-goals, or completeness judged with height >= 2; distinct by (KB, store, goal, config). Engine panics/errors are counted and not judged.",
        assumptions: vec!["REF (typed.rs) judges the goal comparison; numeric equality goals are not generated (the goal parser reads numbers as floats; REF calls int-vs-float equality undefined)".into()],
        parts: vec![
            Part { name: "sound", run, quick: Budget::Random { cases: 400_000, bytes: 300 }, thorough: Budget::Random { cases: 10_000_000, bytes: 300 }, min_nontrivial_pct: 30 },
            Part { name: "complete", run: run_complete, quick: Budget::Random { cases: 400_000, bytes: 300 }, thorough: Budget::Random { cases: 10_000_000, bytes: 300 }, min_nontrivial_pct: 5 },
        ],
        watchdog: true,
        replay_reps: 5,
    }
}
