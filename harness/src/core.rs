//! Core abstractions shared by every property module.
//!
//! * [`Src`] — the single source of every random choice. In *bytes* mode it
//!   decodes a byte string produced (and shrunk) by proptest or by libFuzzer;
//!   in *choices* mode it replays an explicit choice vector, which is what the
//!   exhaustive small-scope enumerator drives. A generator is ordinary
//!   imperative code `fn(&mut Src) -> Case`; choice 0 is always the simplest
//!   alternative so that shrinking bytes towards zero simplifies the case.
//! * [`Ctx`] — per-case reporting channel: labels, the non-trivial flag with a
//!   structural hash, and a lazily built human readable description.
//! * [`Verdict`] — what the oracle said about one case.

use std::collections::hash_map::DefaultHasher;
use std::hash::{Hash, Hasher};

pub enum SrcMode<'a> {
    Bytes(&'a [u8]),
    Choices(&'a [u32]),
}

pub struct Src<'a> {
    mode: SrcMode<'a>,
    pos: usize,
    /// bound of every draw made so far (choices mode uses it to enumerate)
    pub bounds: Vec<u32>,
    /// number of draws that fell beyond the end of the data
    pub overrun: usize,
}

thread_local! {
    /// A hash of the data of the case this thread is running (set whenever a `Src` is made from it): a source of
    /// choices that are pure functions of the case and cost no draw -- see `case_bit`.
    static CASE_SALT: std::cell::Cell<u64> = const { std::cell::Cell::new(0) };
}

/// Bit `k` of the case's salt.
pub fn case_bit(k: u32) -> bool {
    (CASE_SALT.with(|c| c.get()) >> (k % 64)) & 1 == 1
}

/// The object under test as `T::new()` gives it or as `T::default()` gives it (every second case): the two are
/// documented / implemented as the same starting state, and nothing in any statement depends on which was called.
pub fn new_or_default<T: Default>(mk: fn() -> T) -> T {
    if case_bit(7) {
        T::default()
    } else {
        mk()
    }
}

impl<'a> Src<'a> {
    pub fn bytes(b: &'a [u8]) -> Self {
        let mut h: u64 = 0xcbf2_9ce4_8422_2325;
        for x in b {
            h = (h ^ *x as u64).wrapping_mul(0x0000_0100_0000_01b3);
        }
        CASE_SALT.with(|c| c.set(h ^ (h >> 29)));
        Src { mode: SrcMode::Bytes(b), pos: 0, bounds: Vec::new(), overrun: 0 }
    }
    pub fn choices(c: &'a [u32]) -> Self {
        let mut h: u64 = 0xcbf2_9ce4_8422_2325;
        for x in c {
            h = (h ^ *x as u64).wrapping_mul(0x0000_0100_0000_01b3);
        }
        CASE_SALT.with(|s| s.set(h ^ (h >> 29)));
        Src { mode: SrcMode::Choices(c), pos: 0, bounds: Vec::new(), overrun: 0 }
    }
    pub fn is_enumerating(&self) -> bool {
        matches!(self.mode, SrcMode::Choices(_))
    }
    fn next_byte(&mut self) -> u32 {
        match self.mode {
            SrcMode::Bytes(b) => {
                if self.pos < b.len() {
                    let v = b[self.pos];
                    self.pos += 1;
                    v as u32
                } else {
                    self.overrun += 1;
                    0
                }
            }
            SrcMode::Choices(_) => unreachable!(),
        }
    }
    /// Uniform-ish value in `0..n` (n ≥ 1); monotone in the underlying data.
    pub fn below(&mut self, n: usize) -> usize {
        let n = n.max(1);
        match self.mode {
            SrcMode::Choices(c) => {
                let v = if self.pos < c.len() {
                    (c[self.pos] as usize).min(n - 1)
                } else {
                    self.overrun += 1;
                    0
                };
                self.pos += 1;
                self.bounds.push(n as u32);
                v
            }
            SrcMode::Bytes(_) => {
                if n == 1 {
                    return 0;
                }
                if n <= 256 {
                    let b = self.next_byte() as usize;
                    (b * n) >> 8
                } else if n <= 65536 {
                    let b = ((self.next_byte() as usize) << 8) | self.next_byte() as usize;
                    (b * n) >> 16
                } else {
                    let mut b: u64 = 0;
                    for _ in 0..4 {
                        b = (b << 8) | self.next_byte() as u64;
                    }
                    ((b as u128 * n as u128) >> 32) as usize
                }
            }
        }
    }
    pub fn bool(&mut self) -> bool {
        self.below(2) == 1
    }
    /// true with probability num/den (false is the "simple" outcome)
    pub fn chance(&mut self, num: usize, den: usize) -> bool {
        if self.is_enumerating() {
            return self.below(2) == 1;
        }
        let v = self.below(den);
        v >= den - num
    }
    pub fn range(&mut self, lo: i64, hi: i64) -> i64 {
        debug_assert!(hi >= lo);
        lo + self.below((hi - lo + 1) as usize) as i64
    }
    pub fn pick<T: Clone>(&mut self, xs: &[T]) -> T {
        xs[self.below(xs.len())].clone()
    }
    pub fn pick_ref<'b, T>(&mut self, xs: &'b [T]) -> &'b T {
        &xs[self.below(xs.len())]
    }
    /// index chosen by integer weights (first alternatives are the simplest)
    pub fn weighted(&mut self, w: &[u32]) -> usize {
        if self.is_enumerating() {
            return self.below(w.len());
        }
        let total: u32 = w.iter().sum();
        let mut v = self.below(total as usize) as u32;
        for (i, x) in w.iter().enumerate() {
            if v < *x {
                return i;
            }
            v -= *x;
        }
        w.len() - 1
    }
    /// raw 64 bits (bytes mode) — used for arbitrary bit patterns
    pub fn bits64(&mut self) -> u64 {
        let mut b = 0u64;
        for _ in 0..8 {
            b = (b << 8) | self.below(256) as u64;
        }
        b
    }
}

#[derive(Clone, Debug)]
pub enum Verdict {
    /// property held on this case
    Pass,
    /// the oracle refuses to judge (outside the defined domain); counted
    Discard(&'static str),
    /// the property is violated: `sig` identifies the failure mechanism
    Fail { sig: String, detail: String },
}

impl Verdict {
    pub fn fail(sig: impl Into<String>, detail: impl Into<String>) -> Verdict {
        Verdict::Fail { sig: sig.into(), detail: detail.into() }
    }
    pub fn is_fail(&self) -> bool {
        matches!(self, Verdict::Fail { .. })
    }
}

pub struct Ctx {
    pub want_desc: bool,
    pub desc: Option<String>,
    pub labels: Vec<&'static str>,
    pub nontrivial: Option<u64>,
    /// how many generator features were removed/rewritten because of a known finding
    pub excluded: Vec<&'static str>,
    /// exhaustive-mode parameter (e.g. sequence length); 0 in random mode
    pub exh: u32,
    /// tier: true when thorough
    pub thorough: bool,
    /// replay/strict mode: known-finding exclusions switched off
    pub no_exclusions: bool,
}

impl Ctx {
    pub fn new(want_desc: bool) -> Self {
        Ctx {
            want_desc,
            desc: None,
            labels: Vec::new(),
            nontrivial: None,
            excluded: Vec::new(),
            exh: 0,
            thorough: false,
            no_exclusions: false,
        }
    }
    pub fn label(&mut self, l: &'static str) {
        if !self.labels.contains(&l) {
            self.labels.push(l);
        }
    }
    /// mark the case non-trivial; `h` is a structural hash used for distinct counting
    pub fn nontrivial(&mut self, h: u64) {
        self.nontrivial = Some(h);
    }
    pub fn describe<F: FnOnce() -> String>(&mut self, f: F) {
        if self.want_desc {
            self.desc = Some(f());
        }
        if DESCRIBE_ONLY.with(|d| d.get()) {
            // the runner only wants the rendering of this case (runner::describe_case): leave without running it
            std::panic::resume_unwind(Box::new(DescribeOnly));
        }
    }
    pub fn exclude(&mut self, why: &'static str) {
        self.excluded.push(why);
    }
}

/// payload with which `Ctx::describe` leaves a case in describe-only mode
pub struct DescribeOnly;

thread_local! {
    pub static DESCRIBE_ONLY: std::cell::Cell<bool> = const { std::cell::Cell::new(false) };
}

pub fn hash_of<T: Hash + ?Sized>(t: &T) -> u64 {
    let mut h = DefaultHasher::new();
    t.hash(&mut h);
    h.finish()
}

pub fn hash_str(s: &str) -> u64 {
    hash_of(s)
}

pub fn splitmix(mut x: u64) -> u64 {
    x = x.wrapping_add(0x9E3779B97F4A7C15);
    let mut z = x;
    z = (z ^ (z >> 30)).wrapping_mul(0xBF58476D1CE4E5B9);
    z = (z ^ (z >> 27)).wrapping_mul(0x94D049BB133111EB);
    z ^ (z >> 31)
}

pub fn hex(b: &[u8]) -> String {
    let mut s = String::with_capacity(b.len() * 2);
    for x in b {
        s.push_str(&format!("{:02x}", x));
    }
    s
}

pub fn unhex(s: &str) -> Vec<u8> {
    let s = s.trim();
    (0..s.len() / 2)
        .map(|i| u8::from_str_radix(&s[2 * i..2 * i + 2], 16).unwrap_or(0))
        .collect()
}

/// Run `f`, turning a panic into `Err(location: message)`. The panic hook
/// installed by the runner stores the location in a thread local.
pub fn catch<R>(f: impl FnOnce() -> R) -> Result<R, String> {
    LAST_PANIC.with(|p| p.borrow_mut().take());
    match std::panic::catch_unwind(std::panic::AssertUnwindSafe(f)) {
        Ok(r) => Ok(r),
        Err(e) => {
            let msg = if let Some(s) = e.downcast_ref::<&str>() {
                s.to_string()
            } else if let Some(s) = e.downcast_ref::<String>() {
                s.clone()
            } else {
                "non-string panic".to_string()
            };
            let loc = LAST_PANIC.with(|p| p.borrow_mut().take()).unwrap_or_default();
            Err(format!("{}: {}", loc, msg))
        }
    }
}

thread_local! {
    pub static LAST_PANIC: std::cell::RefCell<Option<String>> = const { std::cell::RefCell::new(None) };
}

pub fn install_panic_hook() {
    std::panic::set_hook(Box::new(|info| {
        let loc = info
            .location()
            .map(|l| {
                let f = l.file();
                // keep the path relative to the crate so signatures are stable
                let f = f.rsplit_once("/repo/").map(|x| x.1).unwrap_or(f);
                let f = match f.find("/registry/src/") {
                    Some(i) => {
                        let rest = &f[i + "/registry/src/".len()..];
                        rest.split_once('/').map(|x| x.1).unwrap_or(rest)
                    }
                    None => f,
                };
                format!("{}:{}", f, l.line())
            })
            .unwrap_or_else(|| "?".into());
        LAST_PANIC.with(|p| *p.borrow_mut() = Some(loc));
    }));
}
